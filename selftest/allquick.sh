#!/bin/sh
# run every quick check on /repo, 6 at a time; prints one line per check and fails if any exits non-zero
cd "$(dirname "$0")/.." || exit 2
./check C01 --tier quick > /tmp/q_C01.log 2>&1; echo "C01 exit=$?"   # fills the fact cache
printf '%s\n' C02 C03 C04 C05 C06 C07 C08 C09 C10 C11 C12 C13 C14 C15 C16 C17 C18 C19 C20 | xargs -P 6 -I{} sh -c './check {} --tier quick > /tmp/q_{}.log 2>&1; echo "{} exit=$? viol=$(grep -c "^VIOLATION" /tmp/q_{}.log)"'
