#!/usr/bin/env python3
"""Mutation self-test of the rules: each mutant in mutants.json is one small edit of a scratch copy of /repo
(outside /repo and /verif, removed afterwards) that breaks one rule instance while still compiling; the check of the
named property must exit 1 and name the expected rule.

usage: selftest/run.py [name-substring ...]     (no args: all mutants)
"""
import json
import os
import shutil
import subprocess
import sys
import tempfile

HERE = os.path.dirname(os.path.abspath(__file__))
VERIF = os.path.dirname(HERE)


def main():
    muts = json.load(open(os.path.join(HERE, "mutants.json")))
    sel = sys.argv[1:]
    if sel:
        muts = [m for m in muts if any(s in m["name"] for s in sel)]
    tmp = tempfile.mkdtemp(prefix="mjsa-selftest-")
    bad = 0
    try:
        base = os.path.join(tmp, "repo")
        subprocess.check_call(["rsync", "-a", "--exclude", "target", "--exclude", ".git", os.environ.get("VP_RUN_REPO", "/repo").rstrip("/") + "/", base + "/"])
        for m in muts:
            edits = m.get("edits") or [m]
            saved = {}
            ok_apply = True
            for e in edits:
                p = os.path.join(base, e["file"])
                src = open(p).read()
                saved.setdefault(p, src)
                cnt = src.count(e["old"])
                if cnt != 1:
                    print("MUTANT %-40s cannot apply: %d matches of old text in %s" % (m["name"], cnt, e["file"]))
                    ok_apply = False
                    break
                open(p, "w").write(src.replace(e["old"], e["new"]))
            if ok_apply:
                r = subprocess.run([os.path.join(VERIF, "check"), m["property"], "--repo", base, "--evidence-dir",
                                    os.path.join(tmp, "ev"), "--tier", m.get("tier", "quick")],
                                   stdout=subprocess.PIPE, stderr=subprocess.STDOUT, text=True)
                out = r.stdout
                exp = m["expect"]
                exps = exp if isinstance(exp, list) else [exp]
                hit = r.returncode == 1 and all(any(x in ln for ln in out.splitlines() if "rule " in ln or "VIOLATION" in ln or "instance" in ln) for x in exps)
                if hit:
                    print("MUTANT %-40s detected by %s (%s)" % (m["name"], m["property"], exp))
                else:
                    bad += 1
                    print("MUTANT %-40s NOT DETECTED (exit %d)\n%s" % (m["name"], r.returncode, out[-1500:]))
            else:
                bad += 1
            for p, src in saved.items():
                open(p, "w").write(src)
    finally:
        shutil.rmtree(tmp, ignore_errors=True)
    print("%d mutants, %d not detected" % (len(muts), bad))
    return 1 if bad else 0


if __name__ == "__main__":
    sys.exit(main())
