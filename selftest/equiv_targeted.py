#!/usr/bin/env python3
"""Run the stored equivalents against the checks whose rules read the files an equivalent touches (a quick way to try new
rules on the edits that can reach them; selftest/equiv.py without arguments is the full run).

usage: selftest/equiv_targeted.py [jobs]"""
import json, os, re, subprocess, sys
from concurrent.futures import ThreadPoolExecutor

HERE = os.path.dirname(os.path.abspath(__file__))
MAP = [
    ("src/vm/mod.rs", ["C05", "C11", "C13", "C04", "C19", "C12", "C06"]),
    ("src/vm/context.rs", ["C11", "C05"]),
    ("src/filters.rs", ["C12", "C02", "C01", "C07"]),
    ("contrib/src/filters", ["C12", "C02", "C01"]),
    ("src/value/mod.rs", ["C07", "C19", "C08"]),
    ("src/value/ops.rs", ["C08", "C09", "C01"]),
    ("src/debug.rs", ["C14"]), ("src/error.rs", ["C14", "C13"]),
    ("value/deserialize.rs", ["C16"]), ("value/serialize.rs", ["C16"]),
    ("compiler/codegen.rs", ["C05", "C14", "C04", "C03"]),
    ("compiler/lexer.rs", ["C10", "C01"]),
    ("compiler/parser.rs", ["C01", "C05"]),
    ("src/loader.rs", ["C17", "C15"]), ("src/output.rs", ["C19"]), ("src/utils.rs", ["C19", "C02"]),
    ("autoreload", ["C20"]),
]


def files_of(m):
    fs = {e["file"] for e in m.get("edits", [])}
    if m.get("patch"):
        for ln in open(os.path.join(HERE, m["patch"])):
            g = re.match(r"\+\+\+ b/(.*)", ln)
            if g:
                fs.add(g.group(1).strip())
    return fs


def main():
    jobs = int(sys.argv[1]) if len(sys.argv) > 1 else 3
    eqs = json.load(open(os.path.join(HERE, "equivalents.json")))
    work = []
    for m in eqs:
        props = set()
        for f in files_of(m):
            for frag, ps in MAP:
                if frag in f:
                    props |= set(ps)
        allowed = None if m["properties"] == "ALL" else set(m["properties"])
        if allowed is not None:
            props &= allowed
        if props:
            work.append((m["name"], sorted(props)))

    def run(w):
        name, props = w
        r = subprocess.run([sys.executable, os.path.join(HERE, "equiv.py"), name, "--props", ",".join(props)],
                           stdout=subprocess.PIPE, stderr=subprocess.STDOUT, text=True)
        out = [ln for ln in r.stdout.splitlines() if ln.startswith(("EQUIV", "   "))]
        exact = [ln for ln in out if ln.startswith("EQUIV " + name + " ") or ln.startswith("   ")]
        return name, r.returncode, "\n".join(exact)
    bad = 0
    with ThreadPoolExecutor(max_workers=jobs) as ex:
        for name, rc, out in ex.map(run, work):
            alarm = "ALARM" in out
            bad += alarm
            print(("ALARM  " if alarm else "silent ") + name, flush=True)
            if alarm:
                print(out, flush=True)
    print("%d equivalents tried, %d with alarms" % (len(work), bad))
    return 1 if bad else 0


if __name__ == "__main__":
    sys.exit(main())
