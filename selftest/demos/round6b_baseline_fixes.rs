//! Demonstrations of defects of the pinned tree reported by the second batch of round-6 seeding sub-agents (each
//! confirmed in a scratch copy, each repaired by its own "fix:" commit).  Place in minijinja/tests.
use minijinja::{context, Environment, UndefinedBehavior};

#[test]
fn min_rem_minus_one_is_zero() {
    // fix 3f9cf6e
    let env = Environment::new();
    let r = env.render_str("{{ imin % -1 }}|{{ imin % m1 }}", context! { imin => i128::MIN, m1 => -1i64 });
    assert_eq!(r.unwrap(), "0|0");
}

#[test]
fn strict_modes_reject_undefined_operands_of_raw_value_filters() {
    // fix b3832f3
    for mode in [UndefinedBehavior::Strict, UndefinedBehavior::SemiStrict] {
        let mut env = Environment::new();
        env.set_undefined_behavior(mode);
        for t in ["{{ x|e }}", "{{ x|join(',') }}", "{{ x|groupby('a') }}", "{{ x|zip([1])|list }}", "{{ x|chain([1])|list }}", "{{ [1]|chain(x)|list }}"] {
            assert!(env.render_str(t, context! {}).is_err(), "{t} under {mode:?}");
        }
    }
    let env = Environment::new();
    assert_eq!(env.render_str("{{ x|join(',') }}|{{ x|e }}", context! {}).unwrap(), "|");
}

#[test]
fn slicing_an_undefined_value_fails_like_a_subscript() {
    // fix 17d6130
    for (mode, ok) in [(UndefinedBehavior::Strict, false), (UndefinedBehavior::SemiStrict, false), (UndefinedBehavior::Lenient, false), (UndefinedBehavior::Chainable, true)] {
        let mut env = Environment::new();
        env.set_undefined_behavior(mode);
        assert_eq!(env.render_str("{{ x[1:] is defined }}", context! {}).is_ok(), ok, "{mode:?}");
    }
}

#[test]
fn bad_escape_is_reported_at_the_literal() {
    // fix 960e486
    for pad in 0..3usize {
        let src = format!("{{{{ foo({}\n  \"bad \\x escape\") }}}}", "\n".repeat(pad));
        let mut env = Environment::new();
        let err = env.add_template_owned("t".to_string(), src.clone()).unwrap_err();
        assert_eq!(err.line(), Some(2 + pad));
        assert_eq!(&src[err.range().unwrap()], "\"bad \\x escape\"");
    }
}
