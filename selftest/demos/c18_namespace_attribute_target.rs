//! Demonstration of the defect repaired by "fix: undeclared_variables reports the namespace of an attribute
//! assignment".  Before the fix the set was empty although the render asks the context for `ns`.
use minijinja::Environment;

#[test]
fn attribute_assignment_reports_its_namespace() {
    let mut env = Environment::new();
    env.add_template("t", "{% set ns.x = 1 %}").unwrap();
    let t = env.get_template("t").unwrap();
    assert!(t.undeclared_variables(false).contains("ns"));
    // the render does look `ns` up: the error names what it found there
    let err = t.render(minijinja::context! {}).unwrap_err();
    assert!(err.to_string().contains("undefined"));
}
