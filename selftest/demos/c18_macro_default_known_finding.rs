use std::sync::{Arc, Mutex};
use minijinja::value::{Object, Value};
use minijinja::Environment;

#[derive(Debug)]
struct Rec(Mutex<Vec<String>>);
impl Object for Rec {
    fn get_value(self: &Arc<Self>, key: &Value) -> Option<Value> {
        self.0.lock().unwrap().push(key.to_string());
        if key.as_str() == Some("a") { Some(Value::from("CTX")) } else { None }
    }
}
#[test]
fn macro_default_reads_context() {
    let env = Environment::new();
    let src = "{% macro m(a, b=a) %}[{{ b }}]{% endmacro %}{{ m(1) }}";
    let t = env.template_from_str(src).unwrap();
    let rec = Arc::new(Rec(Mutex::new(vec![])));
    let out = t.render(Value::from_dyn_object(rec.clone())).unwrap();
    let keys = rec.0.lock().unwrap().clone();
    let und = t.undeclared_variables(false);
    println!("out={out} keys={keys:?} undeclared={und:?}");
    for k in keys { assert!(und.contains(&k) , "key {k} looked up but not reported"); }
}
