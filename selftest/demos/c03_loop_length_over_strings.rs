use minijinja::Environment;
fn main() {
    let env = Environment::new();
    for t in [
        "{% for c in 'abc' %}[{{ loop.index }}/{{ loop.length }} last={{ loop.last }} rev={{ loop.revindex }}]{% endfor %}",
        "{% for c in s %}[{{ loop.length }}|{{ loop.revindex0 }}|{{ loop.last }}]{% endfor %}",
        "{{ 'héllo wörld, this is a long string'|list|length }}",
    ] {
        println!("{t} => {:?}", env.render_str(t, minijinja::context!{s=>"häé"}));
    }
}
