#![cfg(feature = "loop_controls")]
use minijinja::{context, Environment};

fn r(src: &str) -> String {
    let mut env = Environment::new();
    env.set_fuel(Some(100000));
    env.add_template("t.html", src).unwrap();
    env.get_template("t.html").unwrap().render(context! { items => vec![1, 2, 3, 4] }).unwrap()
}

#[test]
fn break_in_with() {
    assert_eq!(r("{% for x in items %}{% with y = x %}{% if y == 3 %}{% break %}{% endif %}{{ y }}{% endwith %}{% endfor %}|after"), "12|after");
}
#[test]
fn continue_in_with() {
    assert_eq!(r("{% for x in items %}{% with y = x %}{% if y == 2 %}{% continue %}{% endif %}{{ y }}{% endwith %}{% endfor %}|{{ y is undefined }}"), "134|True");
}
#[test]
fn break_in_set_block() {
    assert_eq!(r("{% for x in items %}{% set s %}a{% if x == 2 %}{% break %}{% endif %}b{% endset %}[{{ s }}]{% endfor %}|after"), "[ab]|after");
}
#[test]
fn continue_in_filter_block() {
    assert_eq!(r("{% for x in items %}{% filter upper %}v{{ x }}{% if x is odd %}{% continue %}{% endif %}w{% endfilter %}{% endfor %}|after"), "V2WV4W|after");
}
#[test]
fn break_in_autoescape() {
    assert_eq!(r("{% for x in items %}{% autoescape false %}{% if x == 2 %}{% break %}{% endif %}{{ '<' }}{% endautoescape %}{% endfor %}{{ '<' }}"), "<&lt;");
}
#[test]
fn nested_scopes() {
    assert_eq!(r("{% for x in items %}{% with a = 1 %}{% set s %}{% autoescape false %}{% if x == 1 %}{% continue %}{% endif %}{% if x == 3 %}{% break %}{% endif %}{% endautoescape %}{% endset %}{% endwith %}{{ x }}{% endfor %}|{{ '<' }}|{{ a is undefined }}"), "2|&lt;|True");
}
#[test]
fn inner_loop_only() {
    assert_eq!(r("{% for x in items %}{% with a = x %}{% for y in items %}{% if y == 2 %}{% break %}{% endif %}{{ a }}{{ y }}{% endfor %}{% endwith %}{% endfor %}"), "11213141");
}
#[test]
fn break_in_else_of_loop_is_not_accepted_without_outer_loop() {
    let env = Environment::new();
    assert!(env.template_from_str("{% for x in [] %}{% else %}{% break %}{% endfor %}").is_err());
    // with an enclosing loop it refers to that loop
    assert_eq!(r("{% for x in items %}{{ x }}{% for y in [] %}{% else %}{% if x == 2 %}{% break %}{% endif %}{% endfor %}{% endfor %}|after"), "12|after");
}
