//! Demonstrations of defects of the pinned tree found in round 8 (rules written after the seeds of that round, or side
//! reports of the seeding sub-agents; each confirmed in a scratch copy, each repaired by its own "fix:" commit).
//! Place in minijinja/tests.
use minijinja::value::Value;
use minijinja::{context, Environment};

#[test]
fn unique_folds_strings_only() {
    // C07.V12 key-is-folded-for-strings-only: bytes b"AB" are not == to the string "ab", so neither is a duplicate
    let env = Environment::new();
    let b = Value::from_bytes(b"AB".to_vec());
    let r = env.render_str("{{ [b, 'ab']|unique|length }}|{{ ['ab', b]|unique|length }}|{{ ['ab', 'AB', b, b]|unique|length }}", context! { b => b }).unwrap();
    assert_eq!(r, "2|2|2");
}
