use minijinja::{Environment, context, value::Value};
// reference: python slice semantics
fn py(len:i64,start:Option<i64>,stop:Option<i64>,step:i64)->Vec<i64>{
    let len=len as i128; let start=start.map(|x| x as i128); let stop=stop.map(|x| x as i128); let step=step as i128;
    let (lo, hi);
    let mut out=vec![];
    if step>0 {
        lo = match start {None=>0,Some(s)=> if s<0 {(s+len).max(0)} else {s.min(len)}};
        hi = match stop {None=>len,Some(s)=> if s<0 {(s+len).max(0)} else {s.min(len)}};
        let mut i=lo; while i<hi {out.push(i as i64); i+=step;}
    } else {
        lo = match start {None=>len-1,Some(s)=> if s<0 {(s+len).max(-1)} else {s.min(len-1)}};
        hi = match stop {None=>-1,Some(s)=> if s<0 {(s+len).max(-1)} else {s.min(len-1)}};
        let mut i=lo; while i>hi {out.push(i as i64); i+=step;}
    }
    out
}
fn main(){
    let env=Environment::new();
    let mut bad=0; let mut n=0;
    let bounds: Vec<Option<i64>> = std::iter::once(None).chain((-9..=9).map(Some)).chain([Some(i64::MIN),Some(i64::MAX),Some(i64::MIN+1),Some(i64::MAX-1)]).collect();
    let steps: Vec<Option<i64>> = std::iter::once(None).chain((-4..=4).filter(|x|*x!=0).map(Some)).chain([Some(i64::MIN),Some(i64::MAX)]).collect();
    for len in 0..=6i64 {
        let l: Vec<i64>=(0..len).collect();
        let lazy = { let l=l.clone(); Value::make_iterable(move || l.clone().into_iter().filter(|_| true)) };
        let s: String = l.iter().map(|x| char::from(b'a'+*x as u8)).collect();
        for st in &bounds { for sp in &bounds { for sx in &steps {
            let f=|o:&Option<i64>| o.map(|x| x.to_string()).unwrap_or_default();
            let t=format!("{{{{ v[{}:{}:{}]|list }}}}", f(st),f(sp),f(sx));
            let exp=py(len,*st,*sp,sx.unwrap_or(1));
            let exps=format!("[{}]", exp.iter().map(|x|x.to_string()).collect::<Vec<_>>().join(", "));
            for (k,v) in [("list",Value::from(l.clone())),("lazy",lazy.clone())] {
                n+=1;
                let got=env.render_str(&t, context!{v=>v});
                if got.as_ref().ok()!=Some(&exps) { bad+=1; if bad<25 {println!("{k} len={len} {t} => {:?} expected {exps}", got);} }
            }
            // strings
            let exps2=format!("[{}]", exp.iter().map(|x| format!("'{}'", char::from(b'a'+*x as u8))).collect::<Vec<_>>().join(", "));
            n+=1;
            let got=env.render_str(&t, context!{v=>s.clone()});
            if got.as_ref().ok()!=Some(&exps2) { bad+=1; if bad<25 {println!("str len={len} {t} => {:?} expected {exps2}", got);} }
        }}}
    }
    println!("checked {n}, mismatches {bad}");
}
