use minijinja::value::Value;
use std::collections::hash_map::DefaultHasher;
use std::hash::{Hash, Hasher};
fn h(v: &Value) -> u64 { let mut s = DefaultHasher::new(); v.hash(&mut s); s.finish() }
struct Bad;
impl serde::Serialize for Bad {
    fn serialize<S: serde::Serializer>(&self, _s: S) -> Result<S::Ok, S::Error> { Err(serde::ser::Error::custom("nope")) }
}
#[test]
fn bool_equals_int_but_orders_and_hashes_differently() {
    let t = Value::from(true);
    let one = Value::from(1);
    assert_eq!(t, one);
    assert_eq!(t.cmp(&one), std::cmp::Ordering::Equal, "cmp disagrees with ==");
}
#[test]
fn bool_int_hash() {
    let t = Value::from(true);
    let one = Value::from(1);
    assert_eq!(t, one);
    assert_eq!(h(&t), h(&one), "hash disagrees with ==");
}
#[test]
fn cmp_invalid_invalid() {
    let a = Value::from(minijinja::value::Serde(Bad));
    let b = Value::from(minijinja::value::Serde(Bad));
    let _ = a.cmp(&b);
}
