use minijinja::Environment;
fn main() {
    let env = Environment::new();
    for t in [
        "{{ (([1] * 9223372036854775808)[-9223372036854775808:])|first }}",
        "{{ (([1] * 18446744073709551615)[:-18446744073709551614])|list }}",
        "{{ (([7,8] * 9223372036854775807)[:-18446744073709551612])|list }}",
        "{{ ([1,2,3][-2:])|list }}",
    ] {
        let r = std::panic::catch_unwind(std::panic::AssertUnwindSafe(|| {
            env.render_str(t, ()).map_err(|e| e.to_string())
        }));
        println!("{t} => {:?}", r.map_err(|_| "PANIC"));
    }
}
