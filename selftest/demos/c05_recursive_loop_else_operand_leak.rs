//! Demonstration of the defect repaired by the "fix: do not leave the for-else flag on the operand stack ..." commit.
//! Run as an integration test of minijinja (tests/…): fails on the tree before the fix, passes after it.
use minijinja::{context, Environment};

#[test]
fn recursive_loop_with_else_keeps_operands_balanced() {
    let env = Environment::new();
    // before the fix this rendered "FalseTrue": the flag pushed by PushDidNotIterate of the inner (recursive)
    // invocation stayed on the operand stack and was concatenated instead of the result of loop(x)
    let out = env
        .render_str(
            "{% for x in [[[]]] recursive %}{{ 'a' ~ loop(x) }}{% else %}E{% endfor %}",
            context! {},
        )
        .unwrap();
    assert_eq!(out, "aa");
}
