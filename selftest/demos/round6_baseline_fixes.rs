//! Demonstrations of defects of the pinned tree reported by the round-6 seeding sub-agents (each confirmed in a scratch
//! copy, each repaired by its own "fix:" commit).  Place in minijinja/tests; run with `--features fuel,json`.
use minijinja::{context, Environment, Value};

fn render(env: &Environment, t: &str, ctx: Value) -> Result<String, minijinja::Error> {
    env.render_str(t, ctx)
}

#[test]
fn lazy_concat_length_does_not_overflow() {
    // fix 7e66fe7: Iterator::sum over the lengths of three lazy `[1] * n` sequences panicked
    let env = Environment::new();
    let r = render(&env, "{% set a = [1] * 9223372036854775807 %}{% set b = a + a + a %}{{ b|length }}", context! {});
    assert!(r.is_err());
}

#[test]
fn macro_encloses_the_name_of_a_dynamic_include() {
    // fix e2743d4: the tracker skipped the template name expression of include / import / extends
    let mut env = Environment::new();
    env.add_template("p", "P").unwrap();
    let r = render(&env, "{% set part = 'p' %}{% macro m() %}{% include part %}{% endmacro %}{{ m() }}", context! {});
    assert_eq!(r.unwrap(), "P");
    env.add_template("t", "{% include name %}").unwrap();
    assert!(env.get_template("t").unwrap().undeclared_variables(false).contains("name"));
}

#[test]
fn sorting_mixed_strings_and_bytes_does_not_panic() {
    // fix 928ddb2: the case-insensitive comparator folded UTF-8 bytes like strings (not a total order)
    let env = Environment::new();
    let mut items: Vec<Value> = Vec::new();
    let mut x: u64 = 12345;
    for _ in 0..60 {
        x ^= x << 13;
        x ^= x >> 7;
        x ^= x << 17;
        match x % 3 {
            0 => items.push(Value::from(format!("{}", (b'a' + (x % 26) as u8) as char))),
            1 => items.push(Value::from_bytes(vec![b'a' + (x % 26) as u8])),
            _ => items.push(Value::from_bytes(vec![1, 0xff, (x % 200) as u8])),
        }
    }
    assert_eq!(render(&env, "{{ items|sort|length }}", context! { items => items }).unwrap(), "60");
}

#[test]
fn equal_sequences_and_iterables_are_not_ordered() {
    // fix 16f7ab7: `[1, 2] == range(1, 3)` was true and `[1, 2] < range(1, 3)` was true as well
    let env = Environment::new();
    let r = render(&env, "{{ [1,2] == range(1,3) }}|{{ [1,2] < range(1,3) }}|{{ [1,2] > range(1,3) }}", context! {});
    assert_eq!(r.unwrap(), "True|False|False");
}

#[test]
fn inheritance_cycle_through_relative_names_is_detected() {
    // fix f2bf162: the cycle test looked the raw name up, the set recorded the joined name: the render never returned
    let mut env = Environment::new();
    env.set_fuel(Some(200_000));
    env.set_path_join_callback(|name, parent| {
        let mut rv = parent.split('/').collect::<Vec<_>>();
        rv.pop();
        for segment in name.split('/') {
            match segment {
                "." => {}
                ".." => {
                    rv.pop();
                }
                other => rv.push(other),
            }
        }
        rv.join("/").into()
    });
    env.add_template("d/a", "{% extends './b' %}").unwrap();
    env.add_template("d/b", "{% extends './a' %}").unwrap();
    let err = env.get_template("d/a").unwrap().render(context! {}).unwrap_err();
    assert!(format!("{err:#}").contains("cycle in template inheritance"));
}

#[test]
fn included_template_may_extend_the_layout_of_its_includer() {
    // fix 9c1b11b: a bogus "cycle in template inheritance" for an include inside a block
    let mut env = Environment::new();
    env.add_template("base", "[{% block a %}A{% endblock %}]").unwrap();
    env.add_template("child", "{% extends 'base' %}{% block a %}{% include 'other' %}{% endblock %}").unwrap();
    env.add_template("other", "{% extends 'base' %}{% block a %}oa{% endblock %}").unwrap();
    assert_eq!(env.get_template("child").unwrap().render(context! {}).unwrap(), "[[oa]]");
}
