//! Demonstration of the defect repaired by "fix: super() in a template included from inside a block ...".
use minijinja::{context, Environment};

#[test]
fn super_in_template_included_from_a_block_is_an_error_not_a_panic() {
    let mut env = Environment::new();
    env.add_template("base", "{% block body %}base{% endblock %}").unwrap();
    env.add_template("inc", "[{{ super() }}]").unwrap();
    env.add_template("child", "{% extends 'base' %}{% block body %}{% include 'inc' %}{% endblock %}").unwrap();
    // panicked in perform_super (unwrap of a failed block lookup) before the fix
    assert!(env.get_template("child").unwrap().render(context! {}).is_err());
}
