//! Demonstration of the defect repaired by "fix: charge block calls made from within macros ...": aborts with a stack
//! overflow on a 2 MiB thread (debug build) before the fix, returns "recursion limit exceeded" after it.
use minijinja::{context, Environment};
#[test]
fn macro_block_cycle_on_2mib_thread() {
    let t = std::thread::Builder::new().stack_size(2 * 1024 * 1024).spawn(|| {
        let mut env = Environment::new();
        env.add_template("t", "{% macro m() %}{{ self.a() }}{% endmacro %}{% block a %}{{ m() }}{% endblock %}").unwrap();
        let r = env.get_template("t").unwrap().render(context!{});
        r.map_err(|e| e.to_string())
    }).unwrap();
    let r = t.join().unwrap();
    println!("RESULT => {:?}", r.as_ref().map(|s| s.len()));
    assert!(r.unwrap_err().contains("recursion limit"));
}
