//! Demonstration of the defect repaired by "fix: integer to float coercion is not exact at the integer type's maximum".
use minijinja::{context, Environment, Value};

#[test]
fn integer_maximum_is_not_equal_to_the_next_power_of_two() {
    let env = Environment::new();
    // rendered True before the fix
    assert_eq!(env.render_str("{{ 18446744073709551615 == 18446744073709551616.0 }}", context! {}).unwrap(), "False");
    // compared Equal before the fix
    assert_eq!(Value::from(i64::MAX).cmp(&Value::from(9223372036854775808.0f64)), std::cmp::Ordering::Less);
}
