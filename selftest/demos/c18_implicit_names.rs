//! Demonstration of the defects repaired by "fix: undeclared_variables reports implicit names ...": each template makes
//! the render ask the context for a name that undeclared_variables() left out before the fix.
use std::collections::BTreeSet;
use std::sync::{Arc, Mutex};

use minijinja::value::{Object, Value};
use minijinja::Environment;

#[derive(Debug, Default)]
struct Recorder(Mutex<BTreeSet<String>>);

impl Object for Recorder {
    fn get_value(self: &Arc<Self>, key: &Value) -> Option<Value> {
        if let Some(k) = key.as_str() {
            self.0.lock().unwrap().insert(k.to_string());
        }
        Some(Value::from_iter([("index", 1)]))
    }
}

#[test]
fn implicit_names_are_reported_when_they_reach_the_context() {
    for src in [
        "{% for x in xs if loop.index %}{{ x }}{% endfor %}",
        "{% block b %}{{ super }}{% endblock %}",
        "{{ self }}",
        "{% macro r(n) %}{{ r }}{% endmacro %}{{ r(1) }}",
    ] {
        let mut env = Environment::new();
        env.add_template("t", src).unwrap();
        let tmpl = env.get_template("t").unwrap();
        let reported: BTreeSet<String> = tmpl.undeclared_variables(false).into_iter().collect();
        let rec = Arc::new(Recorder::default());
        tmpl.render(Value::from_dyn_object(rec.clone())).unwrap();
        let globals: BTreeSet<String> = env.globals().map(|x| x.0.to_string()).collect();
        for k in rec.0.lock().unwrap().iter().filter(|k| !globals.contains(*k)) {
            assert!(reported.contains(k), "{src:?} looked up {k:?} but only {reported:?} were reported");
        }
    }
}
