use minijinja::Environment;
fn load(src: String) -> bool {
    std::thread::Builder::new().stack_size(2 * 1024 * 1024).spawn(move || {
        let env = Environment::new();
        env.template_from_str(&src).is_ok()
    }).unwrap().join().unwrap()
}
#[test] fn long_sum() { let _ = load(format!("{{{{ x{} }}}}", " + x".repeat(100000))); }
#[test] fn long_attr_chain() { let _ = load(format!("{{{{ x{} }}}}", ".a".repeat(100000))); }
#[test] fn long_filter_chain() { let _ = load(format!("{{{{ x{} }}}}", "|f".repeat(100000))); }
