use minijinja::Environment;
fn run(src: &'static str) -> String {
    std::thread::Builder::new().stack_size(2 * 1024 * 1024).spawn(move || {
        let mut env = Environment::new();
        env.add_template("t", src).unwrap();
        env.add_template("inc", "{% include 'inc' %}").unwrap();
        match env.get_template("t").unwrap().render(()) { Ok(s) => s, Err(e) => format!("ERR {}", e) }
    }).unwrap().join().unwrap()
}
#[test] fn self_block() { println!("{}", run("{% block a %}{{ self.a() }}{% endblock %}")); }
#[test] fn macro_rec() { println!("{}", run("{% macro m() %}{{ m() }}{% endmacro %}{{ m() }}")); }
#[test] fn include_rec() { println!("{}", run("{% include 'inc' %}")); }
#[test] fn call_block_rec() { println!("{}", run("{% macro m() %}{% call m() %}{% endcall %}{% endmacro %}{{ m() }}")); }
