use minijinja::Environment;
fn undeclared(src: &str) -> Vec<String> {
    let env = Environment::new();
    let t = env.template_from_str(src).unwrap();
    let mut v: Vec<String> = t.undeclared_variables(false).into_iter().collect();
    v.sort();
    v
}
#[test]
fn reads_are_reported() {
    assert_eq!(undeclared("{{ foo[1:2] }}"), ["foo"]);
    assert_eq!(undeclared("{% set x = x %}"), ["x"]);
    assert_eq!(undeclared("{% with x = x %}{% endwith %}"), ["x"]);
    assert_eq!(undeclared("{% set x %}{{ x }}{% endset %}"), ["x"]);
    assert_eq!(undeclared("{% set x | replace(a, b) %}v{% endset %}"), ["a", "b"]);
    assert_eq!(undeclared("{% filter replace(a, b) %}v{% endfilter %}"), ["a", "b"]);
    assert_eq!(undeclared("{% autoescape flag %}v{% endautoescape %}"), ["flag"]);
    assert_eq!(undeclared("{% for x in loop %}{% endfor %}"), ["loop"]);
}
