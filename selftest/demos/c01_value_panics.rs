use minijinja::{context, Environment};
fn r(src: &str) -> Result<String, String> {
    let src = src.to_string();
    let h = std::thread::spawn(move || {
        let env = Environment::new();
        env.render_str(&src, context!{ e => "", s => "abcdef", l => vec![1,2,3] }).map_err(|e| e.to_string())
    });
    match h.join() { Ok(r) => r, Err(_) => Err("PANIC".into()) }
}
#[test]
fn no_panics() {
    let cases = [
        "{{ e[::-1] }}", "{{ s[1:4:-1] }}", "{{ s[::-9223372036854775808] }}", "{{ l[::-9223372036854775808] }}",
        "{{ range(5, 0, -9223372036854775808) }}", "{{ range(9223372036854775807, -9223372036854775808, -1) }}",
        "{{ range(-9223372036854775808, 9223372036854775807, 3)|length }}",
        "{{ l|batch(18446744073709551615) }}", "{{ l|slice(18446744073709551615)|first }}",
        "{{ '%0999999999999999d'|format(1)|length }}", "{{ '%999999999999999d'|format(1)|length }}",
        "{{ [][::-1] }}", "{{ l[5:1:-1] }}", "{{ l[1:5:-1] }}", "{{ s[::-1] }}", "{{ s[4:1:-2] }}", "{{ range(10, 0, -3) }}", "{{ range(-1, -10, -4) }}", "{{ l|batch(2) }}", "{{ l|slice(2) }}", "{{ '%05d|%-6s|%.2f'|format(42, 'ab', 3.14159) }}",
    ];
    let mut bad = vec![];
    for c in cases {
        let out = r(c);
        println!("{c} => {out:?}");
        if out == Err("PANIC".to_string()) { bad.push(c); }
    }
    assert!(bad.is_empty(), "panicked: {bad:?}");
}
