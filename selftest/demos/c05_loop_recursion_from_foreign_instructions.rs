//! Demonstration of the defect repaired by "fix: loop recursion is refused outside the instructions the loop was
//! compiled into" (0331a27).  Before the fix the three renders below produced truncated output, ran until the fuel
//! (if any) was used up, or panicked in PopLoopFrame / Context::pop_frame on a missing loop frame.
use minijinja::{context, Environment};

fn render(main: &str, lib: &str) -> Result<String, minijinja::Error> {
    let mut env = Environment::new();
    env.add_template("lib.html", lib).unwrap();
    env.add_template("main.html", main).unwrap();
    env.get_template("main.html").unwrap().render(context! { tree => vec![1, 2, 3] })
}

#[test]
fn loop_recursion_from_an_included_template_is_an_error() {
    let main = "{{ 1 }}{{ 2 }}{{ 3 }}{% for x in tree recursive %}{{ x }}{% if x == 1 %}{% include 'lib.html' %}{% endif %}{% endfor %}";
    let lib = "<{% set z = loop([7, 8]) %}>{% for a in [1] %}{{ a }}{% endfor %}{% for a in [1] %}{{ a }}{% endfor %}";
    assert!(render(main, lib).is_err());
}

#[test]
fn loop_recursion_from_a_nested_block_is_an_error() {
    let main = "{% for x in tree recursive %}{{ x }}{% block b %}{% if x == 1 %}<{{ loop([7, 8]) }}>{% endif %}{% endblock %}{% endfor %}";
    assert!(render(main, "").is_err());
}

#[test]
fn loop_recursion_from_an_imported_macro_is_an_error() {
    let main = "{% from 'lib.html' import m %}{% for x in tree recursive %}{{ x }}{% if x == 1 %}{{ m(loop) }}{% endif %}{% endfor %}";
    let lib = "{% macro m(f) %}{% for q in [1] %}{{ q }}{% endfor %}{% if true %}x{% endif %}{% for q in [1] %}{{ q }}{% endfor %}[{{ f([7, 8]) }}]{% endmacro %}";
    assert!(render(main, lib).is_err());
}

#[test]
fn loop_recursion_from_a_macro_of_the_same_template_still_works() {
    let main = "{% macro m(f) %}[{{ f([7, 8]) }}]{% endmacro %}{% for x in tree recursive %}{{ x }}{% if x == 1 %}{{ m(loop) }}{% endif %}{% endfor %}";
    assert_eq!(render(main, "").unwrap(), "1[78]23");
}
