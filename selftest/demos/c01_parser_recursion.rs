use minijinja::Environment;
fn load(src: String) -> bool {
    // run on a 2 MiB thread like the property says
    std::thread::Builder::new().stack_size(2 * 1024 * 1024).spawn(move || {
        let env = Environment::new();
        env.template_from_str(&src).is_ok()
    }).unwrap().join().unwrap()
}
#[test] fn deep_not() { assert!(!load(format!("{{{{ {} x }}}}", "not ".repeat(100000)))); }
#[test] fn deep_neg() { assert!(!load(format!("{{{{ {} 1 }}}}", "- ".repeat(100000)))); }
#[test] fn deep_else() { assert!(!load(format!("{{{{ {} 1 }}}}", "1 if x else ".repeat(100000)))); }
#[test] fn deep_elif() { assert!(!load(format!("{{% if a %}}{}{{% endif %}}", "{% elif a %}".repeat(100000)))); }
#[test] fn deep_parens() { assert!(!load(format!("{{% set {}a{} = 1 %}}", "(".repeat(100000), ")".repeat(100000)))); }
