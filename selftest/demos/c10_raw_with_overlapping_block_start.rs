use minijinja::{Environment, syntax::SyntaxConfig};
fn main() {
    let mut env = Environment::new();
    env.set_syntax(SyntaxConfig::builder().block_delimiters("<<", ">>").variable_delimiters("<<<", ">>>").comment_delimiters("<#", "#>").build().unwrap());
    for t in ["<< raw >>a<<< endraw >>b", "<< raw >>a< << endraw >>b", "<< raw >>a<<< x >>> << endraw >>b", "<< if true >>y<< endif >><<< 1 >>>"] {
        println!("{:?} => {:?}", t, env.render_str(t, ()));
    }
}
