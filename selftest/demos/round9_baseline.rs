//! Round 9: defects of the pinned tree listed by the C01 seeding sub-agent, each confirmed in a scratch copy.
//! Place in minijinja/tests; run with `--features custom_syntax`.
use minijinja::syntax::SyntaxConfig;
use minijinja::{context, Environment};

#[test]
fn expression_with_input_behind_its_end_is_an_error() {
    // fix 8ce1ebd (was: panic "empty lexer stack")
    let env = Environment::new();
    assert!(env.compile_expression("a }} b").is_err());
}

#[test]
fn empty_end_delimiter_is_rejected() {
    // fix 4867d3d (was: accepted, then `windows(0)` panicked in the lexer)
    assert!(SyntaxConfig::builder().comment_delimiters("/*", "").build().is_err());
    assert!(SyntaxConfig::builder().variable_delimiters("<<", "").build().is_err());
    assert!(SyntaxConfig::builder().block_delimiters("<%", "").build().is_err());
}

#[test]
#[ignore = "known finding C01.P19: panics with `capacity overflow`"]
fn huge_lazily_repeated_list_collected() {
    let env = Environment::new();
    let r = env.render_str("{{ ([1] * 4611686018427387904)|list|length }}", context! {});
    assert!(r.is_err());
}

#[test]
fn statements_leave_no_operand_behind() {
    // fixes e3f8619 (from-import) and 361598c (do): a leaked operand replaced the 'a' of the enclosing `~`
    let mut env = Environment::new();
    env.add_template("m", "{% macro f() %}F{% endmacro %}").unwrap();
    let want = env.render_str("{% for x in [[[]]] recursive %}<{{ 'a' ~ loop(x) }}>{% endfor %}", context! {}).unwrap();
    for stmt in ["{% do range(1) %}", "{% from 'm' import f %}"] {
        let t = format!("{{% for x in [[[]]] recursive %}}{stmt}<{{{{ 'a' ~ loop(x) }}}}>{{% endfor %}}");
        assert_eq!(env.render_str(&t, context! {}).unwrap(), want, "{stmt}");
    }
}
