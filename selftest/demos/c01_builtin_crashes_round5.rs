//! Demonstrations of defects of the pinned tree that a seeding sub-agent listed while looking for a place to plant a
//! C01 change, each confirmed in a scratch copy and repaired by its own "fix:" commit:
//!   divisibleby(0) / i128::MIN is divisibleby(-1)            remainder by zero / overflow panic
//!   [1, 2] * 18446744073709551615                            multiplication overflow when enumerated
//!   (1, 2) * 1000000000000                                   48 TB allocation, process abort
//!   '%.70000f'|format(1.5)                                   "Formatting argument out of range" panic
//!   sort(attribute='a.b') with items lacking the attribute   std sort panics on the intransitive comparator
//!   lipsum(1) with RAND_SEED = 14131855094686755602          word list indexed out of bounds
//!   lipsum(n=1, min=10^12, max=10^12+1)                      text built until the allocator gives up
//! Place in minijinja-contrib/tests and run with `--all-features`.
use minijinja::{context, Environment, Value};

fn env() -> Environment<'static> {
    let mut env = Environment::new();
    minijinja_contrib::add_to_environment(&mut env);
    env
}

#[test]
fn divisibleby_zero_and_min() {
    let env = env();
    assert_eq!(env.render_str("{{ 42 is divisibleby(0) }}", context! {}).unwrap(), "false".replace("false", "False"));
    assert_eq!(
        env.render_str("{{ (-170141183460469231731687303715884105727 - 1) is divisibleby(-1) }}", context! {}).unwrap(),
        "True"
    );
}

#[test]
fn repeated_sequences_are_bounded() {
    let env = env();
    assert!(env.render_str("{{ ([1,2] * 18446744073709551615)|length }}", context! {}).is_err());
    assert!(env.render_str("{{ ((1,2) * 1000000000000)|length }}", context! {}).is_err());
    assert_eq!(env.render_str("{{ (() * 1000000000000)|length }}", context! {}).unwrap(), "0");
    assert_eq!(env.render_str("{{ ((1,2) * 3)|length }}", context! {}).unwrap(), "6");
}

#[test]
fn format_precision_is_bounded() {
    let env = env();
    assert!(env.render_str("{{ '%.70000f'|format(1.5) }}", context! {}).is_err());
    assert!(env.render_str("{{ '%.70000e'|format(1.5) }}", context! {}).is_err());
    assert_eq!(env.render_str("{{ '%.65531g'|format(0.0001)|length }}", context! {}).unwrap(), "68");
}

#[test]
fn sort_by_missing_attribute_does_not_panic() {
    let env = env();
    for seed in 0..50u64 {
        let mut x = seed.wrapping_mul(6364136223846793005).wrapping_add(1442695040888963407);
        let items: Vec<Value> = (0..64)
            .map(|_| {
                x ^= x << 13;
                x ^= x >> 7;
                x ^= x << 17;
                if x % 3 == 0 { Value::from(1) } else { context! { a => context! { b => (x % 1000) as i64 } } }
            })
            .collect();
        assert_eq!(env.render_str("{{ items|sort(attribute='a.b')|length }}", context! { items => items }).unwrap(), "64");
    }
}

#[test]
fn lipsum_is_in_bounds_and_bounded() {
    let env = env();
    assert!(env.render_str("{{ lipsum(1) }}", context! { RAND_SEED => 14131855094686755602u64 }).is_ok());
    assert!(env.render_str("{{ lipsum(n=1, min=1000000000000, max=1000000000001) }}", context! {}).is_err());
    assert!(env.render_str("{{ lipsum(n=1000000000000) }}", context! {}).is_err());
}
