use minijinja::Environment;
fn main(){
    for t in ["{% import 'x' as 42 %}","{% import 'x' as foo() %}","{% import 'x' as a + b %}","{% import 'x' as m %}{{ m }}","{% set ns = namespace() %}{% import 'x' as ns.m %}{{ ns.m.f }}","{% import 'x' as loop %}"] {
        let r = std::panic::catch_unwind(|| { let mut env=Environment::new(); env.add_template("x","{% set f = 1 %}").unwrap(); env.add_template_owned("t", t.to_string()).map(|_| env.get_template("t").unwrap().render(()).map_err(|e| e.to_string())).map_err(|e| e.to_string()) });
        println!("{t} => {:?}", r.map_err(|_| "PANIC"));
    }
}
