//! Demonstration of the defect repaired by "fix: loop.cycle() without arguments ...": panicked before, errors after.
use minijinja::{context, Environment};

#[test]
fn cycle_without_arguments_is_an_error() {
    let env = Environment::new();
    assert!(env.render_str("{% for x in [1] %}{{ loop.cycle() }}{% endfor %}", context! {}).is_err());
}
