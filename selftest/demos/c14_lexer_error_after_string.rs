// `{{ "a" ? }}`: the lexer error for `?` was taken out of the token stream by a guard that ignored it
// (fix 07b9c4d).  Fails before the fix: message "unexpected end of input", line 1.
use minijinja::Environment;

#[test]
fn lexer_error_after_a_string_literal_is_reported_where_it_is() {
    let env = Environment::new();
    let err = env.render_str("{{ \"a\"\n\n ? }}", ()).unwrap_err();
    assert_eq!(err.line(), Some(3), "{err}");
    assert!(err.to_string().contains("unexpected character"), "{err}");
    let err = env.render_str("{{ \"a\" ? }}", ()).unwrap_err();
    assert_eq!(err.range(), Some(7..8), "{err}");
}
