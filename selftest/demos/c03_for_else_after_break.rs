use minijinja::Environment;
fn main() {
    let env = Environment::new();
    for t in [
        "{% for x in [1,2] %}{{ x }}{% break %}{% else %}E{% endfor %}",
        "{% for x in [] %}{{ x }}{% else %}E{% endfor %}",
        "{% for x in [1,2] %}{{ x }}{% else %}E{% endfor %}",
        "{% for x in [1,2] %}{% continue %}{% else %}E{% endfor %}",
        "{% for x in [1,2] if x > 5 %}{{ x }}{% else %}E{% endfor %}",
        "{% for x in [1,2] if x > 1 %}{{ x }}{% break %}{% else %}E{% endfor %}",
    ] {
        println!("{t} => {:?}", env.render_str(t, ()));
    }
}
