//! Demonstration of the defect repaired by "fix: charge super() like a nested block call" (9f984b5): 200 templates
//! extending one another, each calling super() in the block, overflowed a 2 MiB stack in a debug build (the limit of 500
//! never tripped because a super() level was charged one unit).
use minijinja::{context, Environment};

#[test]
fn long_super_chain_hits_the_recursion_limit() {
    let h = std::thread::Builder::new()
        .stack_size(2 * 1024 * 1024)
        .spawn(|| {
            let mut env = Environment::new();
            env.add_template_owned("t0".to_string(), "{% block b %}base{% endblock %}".to_string()).unwrap();
            for i in 1..=400 {
                env.add_template_owned(
                    format!("t{i}"),
                    format!("{{% extends 't{}' %}}{{% block b %}}[{{{{ super() }}}}]{{% endblock %}}", i - 1),
                )
                .unwrap();
            }
            assert!(env.get_template("t400").unwrap().render(context! {}).is_err());
            assert_eq!(env.get_template("t50").unwrap().render(context! {}).unwrap().len(), 104);
        })
        .unwrap();
    h.join().unwrap();
}
