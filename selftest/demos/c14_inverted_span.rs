//! Demonstration of the defect repaired by "fix: do not invert a span when it is expanded without a consumed token".
use minijinja::{context, Environment};

#[test]
fn empty_loop_target_has_a_valid_range_and_formats() {
    let mut env = Environment::new();
    env.set_debug(true);
    let src = "{% for in [1] %}x{% endfor %}";
    let err = env.render_str(src, context! {}).unwrap_err();
    let r = err.range().unwrap();
    assert!(r.start <= r.end && src.get(r.clone()).is_some(), "range {r:?}");
    let _ = format!("{err:#}"); // panicked before the fix
    let _ = format!("{err:?}");
}
