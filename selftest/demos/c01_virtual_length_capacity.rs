use minijinja::Environment;
fn r(t: &str) -> String {
    let env = Environment::new();
    match std::panic::catch_unwind(std::panic::AssertUnwindSafe(|| env.render_str(t, ()))) {
        Ok(Ok(s)) => format!("OK {}", &s[..s.len().min(60)]),
        Ok(Err(e)) => format!("ERR {}", e),
        Err(_) => "PANIC".to_string(),
    }
}
#[test]
fn map_over_a_huge_repeated_list_does_not_panic() {
    let out = r("{{ ([1] * 1000000000000000000)|map('nofilter')|first }}");
    assert!(!out.starts_with("PANIC"), "{}", out);
}
#[test]
fn deep_concatenation_onto_a_huge_repeated_list_does_not_panic() {
    // the chain of `+` is materialized once it is deeper than MergeSeq::MAX_DEPTH; the capacity asked for then
    // is the *virtual* length of the lazily repeated list
    let out = r("{% set ns = namespace(x=[1] * 1000000000000000000) %}{% for i in range(300) %}{% set ns.x = [0] + ns.x %}{% endfor %}{{ ns.x|first }}");
    assert!(!out.starts_with("PANIC"), "{}", out);
}
