use minijinja::{Environment, syntax::SyntaxConfig};
fn main(){
    let mut env=Environment::new();
    env.set_syntax(SyntaxConfig::builder().line_statement_prefix("#").line_comment_prefix("##").build().unwrap());
    for t in ["# if true\nfoo\n# endif\nbar","# if true\r\nfoo\r\n# endif\r\nbar", "a\n## c\r\nb", "a\n## c\nb"] {
        println!("{:?} => {:?}", t, env.render_str(t, ()));
    }
    let mut env2=Environment::new(); env2.set_lstrip_blocks(true);
    for t in ["x{% raw %}   {% endraw %}y", "x{% if true %}   {% endif %}y", "x\n{% raw %}a\n   {% endraw %}y", "{% raw %}   {% endraw %}y","x{% raw %}\n   {% endraw %}y"] {
        println!("{:?} => {:?}", t, env2.render_str(t, ()));
    }
}
