//! Demonstration of the defect repaired by "fix: set the line for import statements ...": fails before, passes after.
use minijinja::{context, Environment};

#[test]
fn import_at_recursion_limit_reports_its_own_line() {
    let mut env = Environment::new();
    env.set_recursion_limit(1);
    env.add_template("x", "{% macro m() %}{% endmacro %}").unwrap();
    for (tmpl, line) in [
        ("a\nb\n{{ 1 }}\n\n{% import 'x' as y %}", 5),
        ("a\nb\n{{ 1 }}\n\n{% from 'x' import m %}", 5),
    ] {
        let err = env.render_str(tmpl, context! {}).unwrap_err();
        assert_eq!(err.line(), Some(line), "{tmpl:?}: {err:#}");
    }
}
