#!/usr/bin/env python3
"""Silence self-test: each entry of equivalents.json is a behaviour-preserving refactoring of /repo (applied to a scratch
copy outside /repo and /verif); the checks of the named properties must stay silent (exit 0) on it.

usage: selftest/equiv.py [name-substring ...]"""
import json
import os
import shutil
import subprocess
import sys
import tempfile

HERE = os.path.dirname(os.path.abspath(__file__))
VERIF = os.path.dirname(HERE)


ALL = ["C01", "C02", "C03", "C04", "C05", "C06", "C07", "C08", "C09", "C10", "C11", "C12", "C13", "C14", "C15", "C16", "C17", "C18", "C19", "C20"]


def main():
    eqs = json.load(open(os.path.join(HERE, "equivalents.json")))
    sel = sys.argv[1:]
    only = None
    if "--props" in sel:
        i = sel.index("--props")
        only = sel[i + 1].split(",")
        sel = sel[:i] + sel[i + 2:]
    if sel:
        eqs = [m for m in eqs if any(s in m["name"] for s in sel)]
    tmp = tempfile.mkdtemp(prefix="mjsa-equiv-")
    bad = 0
    try:
        base = os.path.join(tmp, "repo")
        subprocess.check_call(["rsync", "-a", "--exclude", "target", "--exclude", ".git", os.environ.get("VP_RUN_REPO", "/repo").rstrip("/") + "/", base + "/"])
        for m in eqs:
            saved = {}
            ok_apply = True
            if m.get("patch"):
                # a stored diff (written by a sub-agent asked for behaviour-preserving housekeeping): applied with patch(1)
                r = subprocess.run(["patch", "-p1", "-s", "-i", os.path.join(HERE, m["patch"])], cwd=base,
                                   stdout=subprocess.PIPE, stderr=subprocess.STDOUT, text=True)
                if r.returncode != 0:
                    print("EQUIV %-45s cannot apply: %s" % (m["name"], r.stdout.strip().splitlines()[-1:]))
                    ok_apply = False
            for e in m.get("edits", []):
                p = os.path.join(base, e["file"])
                src = open(p).read()
                saved.setdefault(p, src)
                if src.count(e["old"]) != 1:
                    print("EQUIV %-45s cannot apply: %d matches in %s" % (m["name"], src.count(e["old"]), e["file"]))
                    ok_apply = False
                    break
                open(p, "w").write(src.replace(e["old"], e["new"]))
            if ok_apply:
                props = ALL if m["properties"] == "ALL" else m["properties"]
                if only:
                    props = [p_ for p_ in props if p_ in only]

                def run_one(prop):
                    return subprocess.run([os.path.join(VERIF, "check"), prop, "--repo", base, "--evidence-dir", os.path.join(tmp, "ev-" + prop)],
                                          stdout=subprocess.PIPE, stderr=subprocess.STDOUT, text=True)
                results = {}
                if len(props) > 2:
                    # the first check fills the fact cache for this tree, the others then run side by side
                    from concurrent.futures import ThreadPoolExecutor
                    results[props[0]] = run_one(props[0])
                    with ThreadPoolExecutor(max_workers=8) as ex:
                        for prop, r in zip(props[1:], ex.map(run_one, props[1:])):
                            results[prop] = r
                else:
                    for prop in props:
                        results[prop] = run_one(prop)
                for prop in props:
                    r = results[prop]
                    if r.returncode == 0:
                        print("EQUIV %-45s %s silent" % (m["name"], prop))
                    elif prop in m.get("known_false_alarm", {}):
                        # an unresolved false alarm of an idiom-bound rule (DESIGN 7a): shown, not counted, never hidden
                        print("EQUIV %-45s %s KNOWN FALSE ALARM - %s" % (m["name"], prop, m["known_false_alarm"][prop]))
                    else:
                        bad += 1
                        lines = [ln for ln in r.stdout.splitlines() if ln.startswith(("VIOLATION", "CHECKER-BROKEN", "   rule", "error"))]
                        print("EQUIV %-45s %s ALARM (exit %d)\n   %s" % (m["name"], prop, r.returncode, "\n   ".join(lines[:8]) or r.stdout[-800:]))
            else:
                bad += 1
            for p, src in saved.items():
                open(p, "w").write(src)
            if m.get("patch"):
                subprocess.check_call(["rsync", "-a", "--delete", "--exclude", "target", "--exclude", ".git", "/repo/", base + "/"])
    finally:
        shutil.rmtree(tmp, ignore_errors=True)
    print("%d equivalents, %d alarms" % (len(eqs), bad))
    return 1 if bad else 0


if __name__ == "__main__":
    sys.exit(main())
