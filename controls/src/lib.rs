//! Positive controls: one violating instance per zero-count rule.  Never executed; only extracted by mjfacts so
//! that every run proves the rules can still see what they forbid.
#![allow(dead_code, unused)]
pub mod c02;
pub mod c07;
pub mod c08;
pub mod c13;
pub mod c14;
pub mod c15;
pub mod c16;
pub mod c17;
pub mod c19;
