use std::path::{Path, PathBuf};

/// C17.L1 control: a file-system read outside the path loader closure.
pub fn stray_read(name: &str) -> Option<String> {
    std::fs::read_to_string(name).ok()
}

/// C17.L2 control: the guard only rejects ".", so ".." can be pushed.
pub fn weak_join(base: &Path, template: &str) -> Option<PathBuf> {
    let mut rv = base.to_path_buf();
    for segment in template.split('/') {
        if segment == "." || segment.contains('\\') {
            return None;
        }
        rv.push(segment);
    }
    Some(rv)
}
