/// C14.F14 control: formatting code that slices without asking for the length first (`rest` may be empty) ...
pub fn excerpt_unguarded<'a>(rest: &'a [&'a str]) -> &'a [&'a str] {
    &rest[1..]
}

/// ... and its guarded twin, which the rule must accept.
pub fn excerpt_guarded<'a>(rest: &'a [&'a str]) -> &'a [&'a str] {
    if rest.is_empty() {
        return rest;
    }
    &rest[1..]
}
