pub struct Output(String);
impl Output {
    pub fn write_str(&mut self, s: &str) {
        self.0.push_str(s);
    }
}

/// C02.S1 control: a write to the output sink outside the escape choke point.
pub fn stray_writer(out: &mut Output, s: &str) {
    out.write_str(s);
}
