pub struct Output(String);
impl Output {
    pub fn write_str(&mut self, s: &str) {
        self.0.push_str(s);
    }
}

/// C02.S1 control: a write to the output sink outside the escape choke point.
pub fn stray_writer(out: &mut Output, s: &str) {
    out.write_str(s);
}

/// C02.S3e control: a closure that can mark its argument safe is handed the raw text of a value that was not tested ...
pub struct Value(pub String, pub bool);
impl Value {
    pub fn is_safe(&self) -> bool {
        self.1
    }
    pub fn as_str(&self) -> &str {
        &self.0
    }
    pub fn from_safe_string(s: String) -> Value {
        Value(s, true)
    }
}

pub fn shorten_marks_raw_text(value: &Value, end: &Value) -> Value {
    let markup = value.is_safe() || end.is_safe();
    let finish = |text: String| {
        if markup {
            Value::from_safe_string(text)
        } else {
            Value(text, false)
        }
    };
    finish(value.as_str().to_string())
}

/// ... and the twin that hands it over under the test of that very value.
pub fn shorten_keeps_safety(value: &Value) -> Value {
    let finish = |text: String| Value::from_safe_string(text);
    if value.is_safe() {
        finish(value.as_str().to_string())
    } else {
        Value(value.as_str().to_string(), false)
    }
}
