/// C07.V5 control: an "unknown" length (None) compared as if it were a length.
pub trait Len {
    fn enumerator_len(&self) -> Option<usize>;
}

pub fn differ<A: Len, B: Len>(a: &A, b: &B) -> bool {
    if a.enumerator_len() != b.enumerator_len() {
        return true;
    }
    false
}

/// C07.V16 control: template values sorted with an unstable sort (ties may swap).
pub struct Value(pub i64, pub &'static str);

pub fn sort_values(items: &mut Vec<Value>) {
    items.sort_unstable_by(|a, b| a.0.cmp(&b.0));
}
