/// C07.V5 control: an "unknown" length (None) compared as if it were a length.
pub trait Len {
    fn enumerator_len(&self) -> Option<usize>;
}

pub fn differ<A: Len, B: Len>(a: &A, b: &B) -> bool {
    if a.enumerator_len() != b.enumerator_len() {
        return true;
    }
    false
}
