/// C08.N6 control: a 64-bit fast path whose overflow is reported as the operator's failure.
pub fn rem(a: i64, b: i64) -> Result<i128, ()> {
    match a.checked_rem_euclid(b) {
        Some(v) => Ok(v as i128),
        None => Err(()),
    }
}
