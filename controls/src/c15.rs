use std::collections::HashMap;
use std::sync::{Arc, Mutex};

/// C15.U7 control: a cloneable store whose lazily filled cache sits behind an Arc (clones share it).
#[derive(Clone)]
pub struct SharedCache {
    pub name: String,
    pub cache: Arc<Mutex<HashMap<String, String>>>,
}

pub fn make() -> SharedCache {
    SharedCache { name: String::new(), cache: Arc::new(Mutex::new(HashMap::new())) }
}
