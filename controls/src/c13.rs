/// C13.G10 control: an error that replaces another one and lets the cause go on one path.
pub struct Error {
    pub kind: u8,
    pub source: Option<Box<Error>>,
}

impl Error {
    pub fn with_source(mut self, e: Error) -> Error {
        self.source = Some(Box::new(e));
        self
    }
}

pub fn wrap_and_lose_the_cause(err: Error) -> Error {
    let wrapped = Error { kind: 1, source: None };
    if err.kind == 1 {
        wrapped
    } else {
        wrapped.with_source(err)
    }
}

/// ... and the twin that keeps it on every path.
pub fn wrap_and_keep_the_cause(err: Error) -> Error {
    Error { kind: 1, source: None }.with_source(err)
}
