use std::cell::RefCell;
use std::fmt;

thread_local! {
    static SCRATCH: RefCell<String> = const { RefCell::new(String::new()) };
}

pub struct Shown(pub f64);

/// C19.O9 control: formatting through a thread-local scratch buffer that is cleared after the write.
impl fmt::Display for Shown {
    fn fmt(&self, f: &mut fmt::Formatter<'_>) -> fmt::Result {
        SCRATCH.with(|b| {
            let mut b = b.borrow_mut();
            b.push_str(&self.0.to_string());
            f.write_str(&b)?;
            b.clear();
            Ok(())
        })
    }
}
