pub struct Value(String);
impl Value {
    pub fn from_safe_string(s: String) -> Value {
        Value(s)
    }
}

/// C16.T1 control: the filter forgets the apostrophe.
pub fn leaky_filter(s: String) -> Value {
    let mut rv = String::with_capacity(s.len());
    for c in s.chars() {
        match c {
            '<' => rv.push_str("\\u003c"),
            '>' => rv.push_str("\\u003e"),
            '&' => rv.push_str("\\u0026"),
            _ => rv.push(c),
        }
    }
    Value::from_safe_string(rv)
}
