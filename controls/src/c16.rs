pub struct Value(String);
impl Value {
    pub fn from_safe_string(s: String) -> Value {
        Value(s)
    }
}

/// C16.T1 control: the filter forgets the apostrophe.
pub fn leaky_filter(s: String) -> Value {
    let mut rv = String::with_capacity(s.len());
    for c in s.chars() {
        match c {
            '<' => rv.push_str("\\u003c"),
            '>' => rv.push_str("\\u003e"),
            '&' => rv.push_str("\\u0026"),
            _ => rv.push(c),
        }
    }
    Value::from_safe_string(rv)
}

/// C16.T11 control: a map whose lookup binary-searches its entries, with one constructor that sorts and one that does not.
pub struct KeyMap(pub Vec<(&'static str, u32)>);

impl KeyMap {
    pub fn sorted(mut entries: Vec<(&'static str, u32)>) -> KeyMap {
        entries.sort_by_key(|entry| entry.0);
        KeyMap(entries)
    }

    /// the violating constructor: entries are stored as they come
    pub fn raw(entries: Vec<(&'static str, u32)>) -> KeyMap {
        KeyMap(entries)
    }

    pub fn get(&self, key: &str) -> Option<u32> {
        self.0
            .binary_search_by_key(&key, |entry| entry.0)
            .ok()
            .map(|idx| self.0[idx].1)
    }
}
