#!/usr/bin/env python3
"""Regenerates MANIFEST.json from the table below (single source of truth for what is claimed)."""
import json
import os

HERE = os.path.dirname(os.path.abspath(__file__))

TRUST = ("Trusted: rustc nightly's type checking / MIR construction at -Zmir-opt-level=0, the mjfacts driver's "
         "serialisation, std-library semantics of the few std functions a rule models, and the reviewed tables kept in "
         "the rule modules (/verif/mjsa/rules/*.py: REVIEWED*, MAP_API, GLOBAL_STATE ..., one line of reason per entry).  Features stacker / speedups / internal_safe_search are outside every analysed configuration.")

# property -> (technique, level text, design_ref, extra level note)   or  None + reason for not applicable
CLAIMED = {
    "C17": ("who-may-call rule for std::fs + dominance/constant-evaluation of the `..` guard of safe_join over MIR",
            "Static rule check over the type-checked MIR of the working tree: std::fs is reachable only through the "
            "path_loader closure on the Some payload of safe_join; every PathBuf::push in safe_join takes a segment "
            "of split('/') and is dominated by a predicate that the constant '..' fails; only NotFound maps to "
            "'missing'.  This decides confinement of the joined path for every template name (all inputs), which "
            "no finite set of names can; it does not execute anything.  The joiner is found by what it does (a loader "
            "function pushing onto a PathBuf); any other mutable use of the path being built, a joiner that does not "
            "return a fresh copy of the base, and a mutable borrow of the joined path in the loader are reported.",
            "DESIGN.md §3 C17",
            "Assumes Unix path semantics; symlinks are excluded by the property itself."),
}

CLAIMED["C20"] = (
    "dominance / must-pass-through / who-may-write rules on acquire_env and Notifier MIR (typestate of the reload flag)",
    "Static rule check on all paths of acquire_env and the Notifier methods: the flag reset dominates every rebuild "
    "and is unreachable after it, rebuilds are control-dependent on (no cached env || should_reload()), every path "
    "from the reset to a return replaces/clears the environment or re-arms the flag, every NotifierImpl access is "
    "through its MutexGuard, both request entry points set the flag on all live paths.  These are the code-shape "
    "facts the no-lost-request interleaving argument rests on; schedules are not explored (that would be a "
    "different technique), so the claim is the structural clause, for all paths. The functions that reset the flag are found by their `should_reload = false` write, not by name. Later additions: (A6) should_reload() is polled only after cached_env.lock(). (A7) the result of locking the cached environment is unwrapped, never recovered from a PoisonError.",
    "DESIGN.md §3 C20",
    "The interleaving argument over the checked facts is on paper; callbacks supplied by the host are assumed not to "
    "touch the flag.")

CLAIMED["C13"] = (
    "who-may-construct/read rules + must-pass-through (charge before dispatch) + purity of the cost function + lossy-cast/overflow lint on the budget, over MIR",
    "Static rule check: one FuelTracker per State (constructed only via State::new from the three render entry "
    "points, never replaced), FuelTracker::track lies on every path from instruction fetch to dispatch inside the "
    "interpreter loop and its Err leaves the loop, fuel_for_instruction is a pure function of the discriminant, "
    "`remaining` is written only by track with exactly that cost, the tracker is read nowhere else, and the budget "
    "arithmetic has no value-changing cast or overflow-capable operation.  These make the cost of a render "
    "independent of the budget and success monotone in it for all programs and all budgets up to u64::MAX; the "
    "numeric threshold of a particular render is not computed. (G6) the configured budget reaches the tracker unchanged: writers of Environment.fuel store their argument / a constant / a clone, the getter returns the field, State::new maps it through FuelTracker::new. (G7) for every call of the engine that takes the State and returns Result<_, Error>: the Err is returned / propagated carrying that call's own error, or replaced only under a test of its kind() against a constant kind. G2-G4 read eval_impl / track through their private helpers.",
    "DESIGN.md §3 C13",
    "Configuration MAX (feature fuel on).  Host callbacks cannot reach the private tracker (type privacy).")

CLAIMED["C19"] = (
    "error-discipline rule (Result disposition analysis over MIR def-use + CFG) on every Output write and Output-passing call; pairing rule WriteWrapper <-> take_err",
    "Static rule check: the fmt::Result / Result of every write on Output and of every call that receives the "
    "caller's Output is returned or reaches `return Err` on its Err branch on all paths (dropped, .ok(), unwrap_or, "
    "is_err-only, unwrap are reported with the call site); WriteWrapper stores the io::Error and returns fmt::Error; "
    "each WriteWrapper construction is paired with take_err on the error path, and take_err yields WriteFailure with "
    "the io::Error as source; macros render into their own buffer.  Decides 'never swallowed / converted / panics' "
    "for every path of the engine's own code (thorough: in four feature configurations); the prefix/ordering of "
    "delivered bytes is value-level and not decided. Later additions: (O6) in the escaping / output code no write on a sink can run after an earlier write on it failed (every path between two writes tests the first result); (O7) every WriteWrapper is built around the entry point's own writer parameter, never around the result of a call (a buffering adapter writes late, after a reported failure, and ignores the result). (O8) in every engine function with a &mut Formatter parameter the Result of each call given the formatter is returned or propagated; a Result::or_else whose closure can succeed counts as swallowing.",
    "DESIGN.md §3 C19",
    "std::fmt machinery is trusted to propagate Err from write_str; host-supplied formatters/objects are assumed to propagate.")

CLAIMED["C11"] = (
    "must-pass-through rule (propagated depth charge dominates every interpreter re-entry) + whole-program call-graph cycle rule with callback resolution + reviewed cost constants / clamp",
    "Static rule check: every call into eval_impl/do_eval/eval_state from outside that chain is dominated (in its "
    "function, or in the builder of the closure it sits in) by push_frame/incr_depth whose Err is propagated; the "
    "charge functions call check_depth on every path and undo on failure; check_depth compares depth() (frames + "
    "inherited depth) with the limit; the two weighted costs use the named constants, which are not below their "
    "reviewed values, macro contexts inherit the caller's depth, set_recursion_limit clamps to MAX_RECURSION; and in "
    "the whole-program call graph (CHA + closure + fn-pointer + generic/dyn callback resolution) the interpreter is "
    "acyclic once the charged edges are removed and cannot reach the uncharged top-level entry.  This decides, for "
    "all recursive program shapes, that recursion is counted against the limit; whether the native stack suffices "
    "for the counted depth is a per-frame size question the quick tier does not decide. Also: the inherited depth counter is written only as reset / +=delta / -=delta / absolute restore of a Context::depth() checkpoint taken before the charge, and decr_depth uses the constant of the dominating incr_depth; thorough tier: a lower bound of native stack use (frame sizes from -Zemit-stack-sizes x nesting admitted by the limit) stays below 2 MiB. Later additions: (R7) every conditional part of a charge holds whenever Context::depth() exceeds a small constant, and constructs that reset current_block raise the depth above it; R5 (thorough) separates unconditional from conditional charges and bounds mixed two-construct cycles. (R9) a function that installs another context hands the call site's depth to it on every path to the swap, with no zeroing call in between. (R10 = C05.B8) the program counter only takes positions of the running instructions. R1/R6/R7 look through private helpers and, where dominance fails, walk the paths with the outcome of each charge known (typestate).",
    "DESIGN.md §3 C11",
    "No analysed configuration enables stacker.  The reviewed constants (4, 10, 500) encode the measured stack margin; "
    "lowering a cost or raising the cap is reported.")

CLAIMED["C06"] = (
    "guard/dominance and error-propagation rules over MIR for the error clauses (double extends, inheritance cycle, missing template, include errors) + who-may-write / typestate rules for the block layer vector and its depth cursor; rendered output per chain shape not decided",
    "Static rule check of the property's error clauses only: the LoadBlocks handler is guarded by is_some() on the "
    "variable that stores the loaded parent and its true side returns Err; output is discarded from a successful "
    "LoadBlocks until the parent's instructions are swapped in; load_blocks is guarded by the loaded_templates "
    "membership test, records every successful load and propagates loader/compile errors; perform_include discards "
    "a loader error only under kind()==TemplateNotFound and reports TemplateNotFound unless ignore_missing.  Block "
    "layers (I5): the per-block definition vector only grows at its end, one layer per block of each loaded parent "
    "appended to the existing entry; depth starts at 0 and moves +1 only under depth+1<len and -1 after, or is "
    "restored from a checkpoint; block calls and super() (after a successful push) render instructions[depth]; "
    "super() without a further layer returns Err.  (I6) every re-entry through with_execution_state runs a block "
    "layer on the caller's block table (Keep) and code of any other template (include, macro body) on a replaced or "
    "checkpointed one, the replacing table being built from the entered template's own blocks.  The output of a given chain shape and include/import variable "
    "visibility are value-level behaviour that static analysis does not decide; they are NOT claimed. Later additions: (I7) compile_block registers the block and emits its CallBlock on every path; (I8) the discard test and the write-target selection both look only at the top of the capture stack; every unwrapped block-table lookup in perform_super is dominated by a checked one. Round 6: the cycle test may be contains() or insert(), must return Err on the present side, dominate block registration and look at the recorded name; the loaded set is emptied where the block table is replaced; (I10) the module object of an import receives every local of the frame.",
    "DESIGN.md §3 C06",
    "Partial claim (error clauses + block layer discipline).  Include recursion accounting is decided under C11.")

CLAIMED["C14"] = (
    "must-pass-through rule (process_err on the returned error for every Err exit of the interpreter loop) + error-discipline rule (no unwrap of fmt::Result in error/debug formatting) + provenance rule for Span fields + who-may-call for raw emission",
    "Static rule check: each of the ~80 `return Err(e)` exits of eval_impl is dominated by process_err(&mut e, pc, "
    "state) on that same error with no reassignment in between (one reviewed exception: the raw sink write error); "
    "process_err looks up the span/line of the failing pc and only fills a missing location; parser entry points "
    "return through attach_location_to_error; no fmt::Result is unwrapped in error.rs/debug.rs; every value stored "
    "into a Span comes from tokenizer position fields, byte offsets change only by a character's len_utf8 and only "
    "`advance` moves the tokenizer offset (by slicing the input); instructions are emitted without a line record "
    "only at reviewed sites.  Decides that locations are attached on all error paths and that reported ranges are "
    "character-aligned by construction; that the line is the *correct* one (shift-by-N) is value-level and not decided. Also: (F5) interprocedural FRESH/STALE analysis of the code generator: a fallible instruction is never emitted with the plain add() before the generator's line was set for the current statement; (F6) expand_span refuses to invert a span, or every path to it consumes a token; the function that moves the lexer offset also counts the newlines it skips (found by the write, not by name). Later additions: the error formatting code slices source text only at text-derived byte offsets (never at a character column). (F7) the pooled span-stack buffer is cleared when taken and every compile_* function leaves the span stack as it found it, so a recorded range always belongs to the template being compiled. (F8) set_line never takes a span read back from the span stack; (F9) tokenizer errors from helper functions get the tokenizer's position. (F10) the parser, the code generator and attach_basic_debug_info are given the template source itself, never a string derived from it.",
    "DESIGN.md §3 C14",
    "std str slicing panics on non-boundaries (so a wrong byte count cannot produce a bad range silently).")

CLAIMED["C04"] = (
    "sibling cross-check by switch-arm summaries over MIR: constant folder vs (code generator o interpreter) operator tables incl. operand order; operand-provenance rule for the short-circuit arms; Result-disposition rule in the folder",
    "Static rule check: for each of the 17 BinOpKind and 8 CompareOpKind variants the operator function, operand "
    "order and negation extracted from ast::eval_binop/eval_compare equal those of the interpreter arm of the "
    "instruction codegen emits for it (incl. CompareAndPreserve for chained comparisons); the folder's and/or arms "
    "return a clone of the operand selected by left.is_true() exactly as JumpIfFalseOrPop/JumpIfTrueOrPop leave it; "
    "operator Results in the folder are only `.ok()`-ed and LoadConst is emitted only on Some (errors are deferred "
    "to run time); `not` and container literals use the same truthiness / constructors on both sides.  This "
    "decides literal/variable transparency at the level 'both evaluators run the same function on the same "
    "operands' for all operators and all operand values; it does not decide anything about the operator functions "
    "themselves (that is C08). Also: unary minus is ops::neg alone in the folder, the literal fast path and the interpreter; the folded comparison chain compares neighbours and stops at the first false link; every keyword argument contributes (compiled or stored) on every path of the emitting loop; a closure that evaluates an operator at compile time is never consumed by an adaptor that swallows None. (K9) inside as_const no value is fabricated from a Rust scalar except the negated truthiness of `not` and the truth value of a comparison chain. (K10) the folder never produces an undefined value.",
    "DESIGN.md §3 C04",
    "Keyword-argument constant handling in codegen (static kwargs) is not covered.")

CLAIMED["C08"] = (
    "frozen operator table checked against switch-arm summaries of value/ops.rs + lossy-cast lint with round-trip idiom + overflow-assert lint + sign-discipline rule for unary minus + error discipline of literal conversion",
    "Static rule check: in the integer arm of add/sub/mul/int_div/rem/pow the result comes from the matching "
    "i128::checked_* applied lhs-op-rhs and its None reaches `return Err`; the float arms of `//` and `%` are "
    "div_euclid and rem_euclid (one convention); no IntToInt cast on operand flow can change the value except "
    "inside / under the round-trip test; the numeric operator functions contain no overflow-capable primitive "
    "arithmetic; integer literals convert through from_str_radix with the error reported; every value `neg` returns "
    "is the result of a negation.  This decides 'no wrap, no silent truncation, no dropped sign, one // and % "
    "convention' for all operand pairs and storage widths; numeric values themselves and exact int/float comparison "
    "are not decided. Also: inside the operator functions no arithmetic helper of a type narrower than 128 bits decides the outcome (wrapping/saturating forms reported; the None of a narrow checked_* must fall through to the 128-bit computation). Later additions: (N7) in as_f64 every path to None passes the cast round trip or its saturation bound, and every round trip is dominated by rv < T::MAX as f64. (N8) the mixed float/integer orderings cast the float to the integer type only below a dominating comparison with the type's maximum. (N9) the checked remainder's None arm returns 0 for a divisor of -1 and an error otherwise. (N10 = C07.V3) a bit-pattern float order is reached only for floats that are not ==.",
    "DESIGN.md §3 C08",
    "One known finding (neg of 2^127 keeps the sign positive) is pinned by an existing snapshot and therefore listed, not repaired.")

CLAIMED["C16"] = (
    "structural output-filter rule over MIR (char match: listed arms cover < > & ' with clean constants, default arm copies) for the HTML-safety clause of tojson + typestate rule for the re-entrant serialization scope + payload-provenance rules for the scalar arms of the serde bridge; round trip of composite values / JSON validity not decided",
    "Static rule check of structural clauses of the property: (T1) tojson's only success value is from_safe_string(buf) where buf "
    "is filled exclusively by the per-character match (default arm copies the character; the listed arms cover "
    "< > & ' and push constants free of them), the filtering closure is the last step of the returned Result and "
    "both formatter branches flow into it.  This decides 'tojson output contains none of < > & '' for every value.  (T2) the "
    "thread-local scope in which embedded template values round-trip by handle is re-entrant: the site that sets the "
    "flag captures its previous value into the guard and the guard's drop clears it only as that value dictates.  "
    "(T3/T4) scalar payloads cross the serde bridge unchanged: serialize_<scalar> builds its variant from the argument "
    "through widening casts only; each scalar arm of deserialize_any hands exactly its payload to the visitor, text "
    "and bytes arms call text/bytes visitors.  Round trip of composite values (sequences, maps, structs, enums) and "
    "'valid JSON that parses back to an equal value' quantify over runtime values and are NOT decided or claimed. Later additions: (T5) the Json arm of write_escaped goes through json_escape_write only and every path through it passes serde_json; (T6) the value-handle registry is inserted into only by <Value as Serialize>::serialize and removed from only by the resolving consumer. (T8) the length announced to serialize_seq/map/tuple is None or exact: no size_hint, min/max/count or arithmetic in its slice. T1 also accepts the chunked copy between searches for the full forbidden set.",
    "DESIGN.md §3 C16",
    "Partial claim (tojson HTML-safety, serialization scope, scalar bridge).  serde_json is trusted to produce the string that is filtered.")

CLAIMED["C02"] = (
    "who-may-write rule for Output + guard classification of every raw write in the escape choke point + reviewed inventory / control-dependence rule for safe-string constructors with a raw-accessor flow lint + byte-set agreement of needs_html_escaping / HtmlEscape",
    "Static rule check: only the reviewed choke-point functions write to Output and the interpreter's Emit handler "
    "reaches the sink only through them; every write in write_escaped/write_with_html_escaping is an HtmlEscape "
    "rendering or dominated by one of seven enumerated safe-content conditions; every from_safe_string site is a "
    "reviewed safe-marking function, or control-dependent on is_safe()/StringInput.safe/auto-escape-on, and inside "
    "such a branch raw text of a value whose safety was not tested on that path is never used as inserted content; "
    "captures are marked safe only when auto-escape is on; the fast-path byte test covers every byte the escaper "
    "escapes, which covers < > & \" ', all within the range pre-check, and replacements are free of raw "
    "metacharacters.  This decides the escaping skeleton (no raw path to the sink, no unjustified safe-marking) for "
    "all templates and contexts; the text transformation of each filter and custom formatters are not decided. Also: wherever a filter escapes a parameter-derived value on one path, every other non-error path is under is_safe()/.safe or a kind test restricted to markup-free kinds (escape-or-justify); the byte classifier is read from the function and its closures and its range pre-check must contain every listed byte. Later additions: a String returned through from_safe_string and extended in place only receives constants, escaper / safe-builder results or text taken under an is_safe() test; the default auto-escape callback maps the documented HTML extensions to Html by equality on the last dot segment. Round 6: (S9) only reviewed markup-neutral transforms may carry the safe flag over with preserve_safety; (S4b) a capture is HTML-safe only when it was captured under HTML escaping (two known findings: set-block and macro results captured under JSON escaping).",
    "DESIGN.md §3 C02",
    "The speedups (v_htmlescape) feature is outside the analysed configurations.  Restoration of the auto-escape mode after scoped constructs is C05.")

CLAIMED["C15"] = (
    "ordering rule on fallible &mut self mutators (mutation-before-failure), tier pairing rule, reviewed table of global mutable state, pool/flag hygiene rules, who-may-mutate rule for COW registries; thorough: compile_fail/compiles witness doctests",
    "Static rule check: in every fallible `&mut self` mutator of LoaderStore/Environment no field mutation can be "
    "followed by a step whose Err is returned (a failed add leaves the environment as it was); inserting into one "
    "template tier evicts the other on that path, remove/clear act on both on every path; the set of statics and "
    "thread-locals with interior mutability equals a reviewed table; pooled code-generator buffers are cleared on "
    "every path before use and only their helpers touch the pools; the serialization flag is set only under its "
    "resetting guard; filters/tests/globals are mutated only through Arc::make_mut.  Thorough adds rustc-checked "
    "witnesses (Send+Sync, no mutation while a Template borrows the Environment, with compiling twins).  These are "
    "the shape conditions that rule out history leaking into later renders; equality of renders across histories "
    "and thread interleavings are not executed. Also: explicit additions use an overwriting map API and the lazy loader fill a keep-first API (reviewed API table); no field reachable from Environment puts an interior-mutable container behind an Arc (clones share only immutable state). (U9) every add_*/set_* method of Environment stores what it was given on every path to a normal return. (U10) State.id comes from an atomic fetch_add on a static that is not thread-local.",
    "DESIGN.md §3 C15",
    "Per-render state lives in State and the borrow checker forbids mutation during renders (witnessed).")

CLAIMED["C12"] = (
    "finite-domain abstract interpretation of the mode-dependent decision functions (decision tables over mode x value class from MIR) + who-may-read/receive rules for the mode + error-discipline rule at every helper call site",
    "Static rule check: the decision tables of handle_undefined, is_true, assert_iterable, "
    "assert_value_not_undefined and Environment::format are extracted from MIR for all 4 modes x {undefined, silent "
    "undefined, defined} (x parent-undefined), must have upward-closed error sets with a mode-independent "
    "continuation (monotonicity) and must equal the documented matrix; every other reader of the mode discriminant "
    "must be a reviewed function and every mode test in the interpreter loop must select an upward-closed set; the "
    "Result of each of the ~60 helper call sites is returned/propagated; a value of type UndefinedBehavior is only "
    "passed to the reviewed functions (never into data); is defined / is undefined / default never assert their "
    "operand.  Together a non-interference argument for 'stricter modes only add errors' over all programs and "
    "contexts; per-site behaviour of third-party callbacks is assumed mode-independent. Also: inside the interpreter a stack value is iterated only through UndefinedBehavior::try_iter (two reviewed exceptions); every path through the Emit handler passes the {Strict, SemiStrict} test or Environment::format. Later additions: (M8) in the GetAttr / GetItem handlers a failed lookup passes handle_undefined(x.is_undefined()) for the container x before anything is pushed. (M9) the constant folder never produces an undefined value (its effect is decided by the mode at run time). (M10) builtin filters/functions that iterate or print a raw Value operand ask the undefined behaviour first (reviewed table for the rest); M8 covers slicing. Value::to_string() of a raw operand counts as printing.  Tables, handler arms and the who-may tables are read through crate-private helpers (inline views).",
    "DESIGN.md §3 C12",
    "Host-registered filters/functions/objects are assumed not to consult the undefined behavior.")

CLAIMED["C05"] = (
    "path-sensitive typestate analysis of the code generator over MIR (counter/stack abstract state, bottom-up summaries, recursive SCC verified neutral, agreement at joins) + scope-coverage rule for break/continue + parser in_loop reset rule + VM pairing / restore / handler rules",
    "Static typestate check on every CFG path of every CodeGenerator method: frame, capture and auto-escape opening "
    "instructions are balanced by their closers and the pending-block stack (Branch/Loop/ScBool/Scope) is properly "
    "nested, so every instruction stream the compiler can emit is balanced; wherever child statements are compiled "
    "inside a still-open scope that scope is registered so that break/continue close it before jumping, the closing "
    "routine emits the matching instruction per scope kind, bodies that are separate evaluations (blocks, macros) "
    "and the for-else body are parsed with in_loop reset; in the VM every nested-evaluation helper closes what it "
    "opens on every path (reviewed error-path exception), with_execution_state writes back what it replaced, and the "
    "handlers of the scope instructions perform exactly their operation.  This decides the property's structural "
    "content for all templates the compiler accepts and all control-flow paths of the emitted code. Also: the scope walk of break/continue and their jump-target searches scan the pending blocks in the same direction; every instruction emitted at the loop end ahead of PopLoopFrame pushes nothing on the interpreter paths of a recursive loop invocation. Later additions: conversely, every closer (decr_depth, reset_closure, BlockStack::pop) is reachable only after its opener succeeded on that path (flags tested twice and never written are case-split). B8: every value assigned to the interpreter's program counter is a jump operand of the fetched instruction, a constant, pc + k, a return address whose every producer (traced across functions) is pc + k of the same interpreter, or a position remembered in an object used only behind a comparison of the running instructions' identity with the identity stored beside it, the pair being built from the interpreter's own state and counter. The span stack is a fourth counter of the B1 typestate. Round 6: (B9) the tracker's scopes end where the engine's frames end and every compiled statement list is walked on its own; (B10) every nested evaluation on the caller's context pushes a frame first (known finding: include).",
    "DESIGN.md §3 C05",
    "Patched jump targets are tied to the pending-block nesting the check verifies; the run-time meaning of frames/captures themselves is trusted.")

CLAIMED["C18"] = (
    "sibling cross-check by labelled events over MIR: (AST node type, payload field) coverage and evaluate/assign order of the assignment tracker vs the code generator",
    "Static rule check: every call of an evaluating function in the code generator and of a visiting function in "
    "the tracker is labelled with the AST node type and payload field its argument derives from (traced through "
    "iterators, closures and pattern matches in MIR); for every node type each field the generator evaluates must "
    "be visited by the tracker (reviewed exclusions: multi-template name expressions), where the generator "
    "evaluates a field before assigning another the tracker must not assign first, and a variable is reported "
    "exactly when it is not assigned.  This decides soundness of the tracker's traversal against the engine's own "
    "evaluation order for all templates; lookups performed by host "
    "objects and by the debug feature around a failing instruction are not decided. Also: every public entry point returns, unfiltered, what find_undeclared computed on every path except the parse-error exit. Later additions: (W5) implicit names: pre-assigned constants must be names the interpreter binds (loop, caller), assigned inside the construct's own scope, loop only after the loop filter was visited, a macro's name only after the macro was visited, and a name the interpreter stores only `if let Some` is Some on every producer path (traced across functions) except under the construct's does-not-mention flag; (W1b) what the code generator evaluates inside an assignment target is visited by the tracker's target walker itself. (W2b) for (target, value) collections the engine evaluates all values before binding any target only if the tracker does not interleave. (W7) every name the tracker found free in a macro body gets an Enclose instruction on every path. (W8) Context::load hands out a loop object only inside the walk over the frames, for the walked frame, after testing with_loop_var.",
    "DESIGN.md §3 C18",
    "One known finding (macro argument defaults) is listed; its repair would change macro closure capture.")

CLAIMED["C07"] = (
    "finite-domain abstract interpretation of Value::eq / cmp / hash / kind and ops::coerce over all 169 ordered pairs of ValueRepr variants (callee summaries extracted from MIR) + comparator lint",
    "Static check of the variant-level clauses of the property: for every ordered pair of the 13 value "
    "representations an abstract interpreter over MIR (discriminants only, summaries of coerce / as_f64 / integer "
    "TryFrom / kind computed from their own MIR) decides whether == can hold, whether cmp can reach an unwrap on a "
    "definite None, and which hashing family each variant uses; it requires that equality never crosses kinds (cmp "
    "is kind-first), that possibly-equal variants hash through the same family, that cmp is defined for every pair "
    "and that comparators handed to sort/min/max are total; (V3) an order of two floats by bit pattern (total_cmp / "
    "to_bits) is only reached on the not-`==` side of a float equality test whose other side returns Equal, so the "
    "order agrees with == on -0.0/0.0.  Other laws over concrete values within one pair "
    "(transitivity, NaN, 2^53 neighbourhood) and the algebra of sort/unique/groupby/batch/slice/reverse are "
    "value-level and NOT decided or claimed. Later additions: (V4) a vector sorted with a stable sort is never reversed afterwards in the same filter; (V5) inside equality / ordering an optional length is never compared as a value (both must be Some); (V2) a comparator whose verdict is a constant for some pairs only is reported; (V7) the member searches of the function the In instruction calls decide by Value == Value. Round 6: (V1e) pairs of object representations that == compares must share a kind after cmp's kind folding; (V9) as_f64 exactness = C08.N7; (V10) every Enumerator arm of Value::reverse reverses (two known findings pinned by test_reverse); V2 requires kind()==String before a comparator uses as_str(). Round 7: (V11) SmallStr.buf is only read as buf[..len]; V2: an element-wise comparison over zip needs a tie-break on the lengths.",
    "DESIGN.md §3 C07",
    "Known findings (true == 1 across kinds and hashes) are listed; host Object::custom_cmp implementations are outside the analysis.")

CLAIMED["C01"] = (
    "call-graph cycle rule with guard-dominated edges removed (parser recursion) + loop-carried AST wrap detection + intra-procedural taint of template-controlled integers into MIR overflow/zero asserts and allocation sizes + presence of explicit limits + provenance rule for byte offsets used to slice strings",
    "Static check of the structural clauses of the property only: (P1) every cycle of the recursive-descent parser's "
    "call graph passes a call site dominated by the depth guard; (P2) parser loops that nest the expression built so "
    "far into a new node are bounded by a counter (13 unbounded ones are listed as known findings); (P3) integers "
    "that come from template values reach overflow-capable arithmetic (MIR Assert Overflow/DivisionByZero) and "
    "allocation sizes only through checked/saturating operations, 128-bit arithmetic on widened operands, a "
    "dominating constant bound, or a reviewed entry with its reason; (P6) the explicit limits the property names are "
    "present and guard what they should; (P7) every byte offset used to slice a str (Index<Range>, split_at) is "
    "derived from the text (search results, lengths, span/cursor offsets) and every literal or quotient component of "
    "it is covered on all paths by an ASCII/boundary test (starts_with/ends_with/strip_prefix with an ASCII constant, "
    "is_char_boundary, checked str::get, ASCII needle of find) or a reviewed entry; (P8) in the builtin modules every "
    "unwrap/expect is of an infallible source, is dominated by a test establishing the success case for its source "
    "(kind()==String / ValueRepr arm / is_safe / escape() result for as_str, is_some on the same value), or is a "
    "reviewed entry.  Interpreter recursion is decided under C11.  These are necessary "
    "conditions that realistic regressions break (a dropped guard, a new unchecked add, an unbounded capacity); "
    "absence of panics over the whole engine, operand-stack discipline inside expressions (statement level: C05.B11) and the stack cost of data recursion (a template can nest a list 50000 deep through a namespace attribute in a loop; dropping, printing, comparing or hashing it overflows a 2 MiB stack - confirmed, see DESIGN.md §3 C01) are "
    "NOT decided. Later additions: (P9) slice/Vec indexing in the builtin modules is in range by construction (whole range, search results, a literal index under a dominating length test, or a reviewed entry); (P10) the interpreter's unsigned counters are only decremented after the matching increment succeeded on the same path; P3 also treats the number of call arguments as template-controlled, checks the divisor of / and %, and requires a constant bound on template-chosen iteration counts; P7 treats character columns like literals (not byte offsets). Round 5: the taint keeps flowing through checked/saturating/wrapping results, closure captures, combinator payloads, coerced integer pairs and the loop object's counters; bounds on checked products count (path-sensitive over matches!-style booleans); (P14) every run-time width/precision handed to Rust's formatter derives from fields whose every producer is a bounded parse with constant + slack <= u16::MAX; (P9) a reviewed indexing entry that leans on a helper is valid only while the helper clamps its result below the bound. (P15) a loop that re-slices its haystack after str::find has a provably non-empty needle. (P3c) every other overflow-capable operation of the builtin modules is discharged by a structural argument (64-bit step, sum of lengths, dominating comparison, literal divisor) or reviewed under a key that includes its type and operand expression. (P3d) integer Iterator::sum / product sites are reviewed.",
    "DESIGN.md §3 C01",
    "Partial claim.  The taint sources are integer parameters of the builtin modules and integer conversions of template values; arithmetic on other integers is out of scope.")

# clauses added in round 8 (appended to the level text of the property)
CLAIMED["C09"] = (
    "sibling-agreement rule over the per-kind arms of ops::slice (def-use traces of the shared helpers' results through "
    "iterator adaptors and closure captures) + constructor / error-exit inventory per match arm over MIR",
    "Static check of the SHAPE around the two shared slicing helpers only: (S1) every call of the forward helper is consumed "
    "alike in every operand arm - offset -> skip, length -> take, then step_by(step), traced through closure captures; (S2) "
    "every call of the backward helper receives (start, stop, |step| of the tested step, the collected operand's own length) "
    "and its indices are mapped to elements; (S3) the string arm never measures or cuts text in bytes; (S4) each arm builds "
    "the result kind of its operand (string / bytes / tuple under is_tuple() / lazy list-like iterable); (S5) the only errors "
    "slice builds are a non-integer bound (propagated conversion), a zero step, and an operand that cannot be sliced - none "
    "inside an arm of a sliceable kind, no unwrap inside a slicing closure; (S6) both helpers get the same converted start / "
    "stop in every arm; (S7) inside the helpers an omitted bound is never encoded as a value an explicit bound can take and then compared with it; (S8) an unknown length is never taken for zero; (S9) subscripts of text count characters.  These are necessary conditions: an arm that leaves the common pipeline (a 'contiguous bytes' fast "
    "path with slice::get, a dropped step_by, a byte length for text, a list for a tuple) selects other elements than its "
    "siblings.  NOT decided: the integer arithmetic inside get_offset_and_len / range_step_backwards, i.e. which elements "
    "a given (len, start, stop, step) selects (after the fixes of DESIGN.md section 5 a scratch enumeration of 133056 combinations agrees with Python; no check decides that), and the negative-index "
    "normalisation of subscripts.",
    "DESIGN.md §3 C09",
    "Partial claim (shape of the arms, not the selected elements).")

CLAIMED["C10"] = (
    "guard-fact (dominating condition) rule per text-shortening operation of the lexer + finite decision tables over the "
    "marker enum / lstrip gate (setting x tag kind) extracted from MIR + who-passes-a-decoded-marker rule",
    "Static check of the WIRING of the whitespace rules only: (E1) every operation of compiler::lexer that shortens template "
    "text - str::trim*, the whitespace skipper, the lstrip helper, the newline skipper, newline slices, found by role - sits "
    "under the condition the property names for its class: all-whitespace trimming only under a '-' marker (Whitespace::Remove "
    "arm, a comparison with \"-\", or the pending-trim flag such a marker set); newline skipping only at a block / comment / "
    "raw tag end without marker and under trim_blocks; lstrip only without marker and under lstrip_blocks through the gate; the "
    "trailing newline cut once, in the constructor, with keep_trailing_newline off; a line-ending newline only for line "
    "statements / comments; (E2) every match on the marker enum honours its three values (Remove -> trim of that side only, "
    "Preserve -> nothing, Default -> only the setting of the same side); (E3) the lstrip gate's decision table over (setting x "
    "tag kind): never for variable tags, never with the setting off, possible for block / comment tags; (E4) the tag ends "
    "lexed by text comparison: '-' trims for block and variable ends, trim_blocks applies at block ends only and not behind a "
    "marker; (E5) the newline skipper advances by one byte, behind a newline test, under trim_blocks, outside loops; (E6) the "
    "pending-trim flag is cleared where it is consumed; (E7) the marker handed to a marker-consuming function is decoded from "
    "the text, never a constant; (E8) no default delimiter literal in lexer code; (E9) a line ending is consumed CR first in every consumer; (E10) every lstrip site asks the line-start gate; (E11) lexer code that singles out the space as indentation knows the tab; (E12) a delimiter search resumes one byte past a rejected candidate.  These are necessary conditions that "
    "regressions of the rule interaction break ('+' folded into the default case, trim_blocks after variable tags, lstrip "
    "for variable tags, a marker ignored at comment / raw ends).  NOT decided: which characters each primitive removes (CR/LF "
    "order, start-of-line detection), the delimiter search (leftmost-longest tie-breaking among prefix-sharing custom "
    "delimiters), byte-exact reproduction of the remaining text.",
    "DESIGN.md §3 C10",
    "Partial claim (wiring of the rules, not the characters removed).")

CLAIMED["C03"] = (
    "borrowed structural clauses: path-sensitive typestate of the code generator (frames / captures / scopes / operand "
    "balance), pairing rules of the interpreter, and the sibling cross-check tracker-vs-generator over the AST that decides "
    "what macros enclose (all over MIR)",
    "Static check of the SCOPING SKELETON of the core constructs only, by running the rules of C05 and the closure-related "
    "rules of C18 as clauses: every frame / capture / auto-escape scope the code generator opens is closed on every path and "
    "break / continue close what they leave (assignments inside loops, with-blocks, macros, blocks are invisible outside); "
    "every statement leaves the operand stack as it found it; the interpreter's pairs are balanced on every path and nested "
    "evaluations restore the state; the assignment tracker that computes macro closures mirrors the engine - pre-assigned "
    "names (loop, caller) are bound where the engine binds them, tracker scopes end where frames end, every free name of a "
    "macro is enclosed, statement lists that run only behind a conditional jump (if / elif / else bodies, for-else) are "
    "walked in a scope of their own so that an assignment in an untaken branch does not hide an outer variable from a macro, "
    "and the loop variable is resolved frame by frame; the rules of C04 (an expression over literals gives what it gives over variables); (L1) an engine iterator that knows its remaining length reports it as an exact size hint (loop.length / revindex / last are defined); (L2) loop.index / index0 / revindex / revindex0 / depth / depth0 / first stand in their documented relations (symbolic extraction from MIR); (L3) whether a for-else branch runs is decided by what the iterator yielded.  NOT decided: rendered output as a function of run-time values - "
    "loop.index / revindex / previtem / nextitem arithmetic, whether an else branch runs, macro argument binding, filters "
    "and tests (no reference interpreter: that is another technique).",
    "DESIGN.md §3 C03",
    "Partial claim (scoping skeleton; the clauses are the checks of C05 / C18 under the prefixes C03.F: / C03.M:).")

ROUND8 = {
    "C01": "(P17) an instruction operand the interpreter uses as an index fits the table it indexes: every value the code generator can store at that payload position is a constant below the table's length (or one the consumer excludes itself), or a cast of a quantity under a dominating comparison that implies it.",
    "C02": "(S9b) a transform that carries the safe flag over through preserve_safety does so on every success return.",
    "C05": "B4 holds every call site of the evaluation closure in with_execution_state to the restore discipline (a fast path included).",
    "C06": "(I2) the set of loaded templates starts empty in every State constructor and only load_blocks adds to it.",
    "C07": "(V12) a de-duplicating filter decides by its seen set for every item, looks up and records the same key, and folds that key through the string view for strings only; (V13) a match on the value representation that names one string representation names the other (reviewed table for the 8 switches that do not).",
    "C11": "(R11) every field incr_depth writes is read by Context::depth(), in every feature configuration incl. MAC (macros without multi_template), which is analysed in both tiers for this rule.",
    "C12": "(M10c) a loop that applies the mode helper to a collection of operands is left only at the end of the collection or with an error.",
    "C14": "(F1d) process_err attaches debug info only where the error has none yet (no disjunction).",
    "C16": "(T9) the serde bridge handles the two string representations alike.",
    "C18": "(W9) a call name the tracker never reports (`super`) is recognised by the CallFunction handler before any context lookup.",
    "C19": "(O9) no function handed a Formatter / Output names a thread-local or a static with interior mutability (positive control).",
    "C20": "(A8) Notifier::handle() answers None only when Weak::upgrade() does; the flag field is found by role.",
}

ROUND9 = {
    "C01": "(P18) the explicit panic sites of lexer / parser / syntax configuration are a reviewed table; (P19) the size hint every engine iterator reports is backed by memory or clamped (one known finding); (P20) every windows / chunks / step_by size is provably non-zero.",
    "C02": "(S4c) every site that turns the text of a finished capture into a value has a safe-marking alternative.",
    "C05": "(B11) operand-stack balance of the code generator: every statement kind leaves the interpreter's operand stack at the depth it found it (symbolic depth walk over all generator paths), expression helpers net +1, and the per-instruction effects are re-derived from the interpreter's handlers.",
    "C04": "(K11) in the interpreter's arithmetic / membership arms the value pushed is the result of the shared operator function only.",
    "C06": "(I11) the template-name expressions of include / import / from-import / extends are visited by the assignment tracker (slice of C18.W1).",
    "C07": "(V14) a filter that sorts and then groups neighbours uses one comparator with the same flags for both.",
    "C08": "(N11) integer <-> float casts in the value core occur only in the exactness-aware conversions.",
    "C12": "(M11) the twin argument conversions (with / without mutable state) both ask the undefined behaviour.",
    "C13": "(G8) nothing inside the engine reads State::fuel_levels.",
    "C15": "(U11) every field of an engine type with interior mutability is in a reviewed table.",
    "C16": "(T10) the serde bridge uses the string view of a value only under kind() == String.",
    "C18": "W3 reads the tracker's expression visitor through wrappers (no extra condition on reporting a variable).",
    "C19": "(O10) the error-path pairing of C05.B3/B4 is a clause (a failed write on a kept State leaves it closed); (O4) take_err hands the original error back only when no io::Error was stored.",
    "C20": "(A9) the template-store rules of C15 (clear empties every tier, a lookup records only loaded templates) are a clause for fast reload.",
}

ROUND11 = {
    "C01": "(P21) assignment targets: what the parser stores where the generator calls compile_assignment is built by target parsers only; (P22) the parser's argument limit leaves room for the generator's narrowing assert.",
    "C02": "(S10) the escaper examines every byte (iteration over the input, or an index that advances by one).",
    "C04": "(K3) over all of compiler::*; (K13) folding never decides which statements are compiled.",
    "C05": "(B12) the closure installed for a frame is fresh, the one taken from it before, or None.",
    "C06": "(I12) every referenced template name goes through the path-join callback against the current template's name.",
    "C07": "(V15) a defaulted unknown length only sizes buffers; (V16) values are sorted with a stable sort.",
    "C12": "(M12) both operands of ==, <, in, ~ are asked about undefined-ness in every dispatch arm.",
    "C13": "(G9) every path of the render family passes the interpreter or an error exit.",
    "C14": "(F12) location records do not depend on the instruction kind; (F13) a reported byte range is a recorded span.",
    "C15": "(U12) add_x and remove_x address the same key.",
    "C16": "(T11) a binary-searched field is sorted where its type is built; (T12) composite serializers record only what they are given.",
    "C18": "(W10) statements that run only behind a conditional jump are walked in a scope of their own.",
    "C19": "(O8) also for closures that captured the formatter.",
    "C20": "(A10) the poll answers `no reload` only after reading the flag.",
}

ROUND12 = {
    "C01": "P3 / P6 read a constant bound through a private checking helper (Ok / Err followed to the test of the verdict).",
    "C02": "(S10) a UTF-8 skip from a helper that is exact on all 256 byte values is accepted; (S3e) a closure or private helper that can mark its parameter safe is never handed raw text of a value outside an is_safe() test of that value.",
    "C03": "(L2) loop counters as symbolic expressions of index0; (L3) the else block of a loop is decided by what the iterator yielded.",
    "C04": "(K13) as_const() only ever feeds a LoadConst; (K14) both evaluators insert the pairs of a map literal in source order.",
    "C05": "B1 neutrality is asked of a compile_* function in the context of its only callers when it is a private piece of them; (B5b) a scope handler performs its operation on every path to the next instruction.",
    "C08": "(N12) the lossy integer-to-float conversion is used only by operators that have no exact integer path.",
    "C12": "M10: the mode helper dominates the site that iterates or prints the operand and is asked about that operand.",
    "C19": "(O6b) no write after a failed write in every function that is handed a formatter or the output, closure calls included.",
    "C06": "I10 follows the ExportLocals handler into a private helper.",
    "C07": "(V17) in every two-operand function returning Ordering an inner comparison keeps the orientation of the operands or its verdict is reversed.",
    "C09": "(S7b) an optional bound is not clamped into range.",
    "C10": "(E12) a search resumes one byte past a rejected candidate; E1 judges trimming helpers at their call sites and leaves the blank skips of tag recognisers alone.",
    "C11": "R1 reads the limit test through a helper shared by check_depth and the charge function; R3 counts a call of the evaluation chain by the interpreter loop itself as a re-entry.",
    "C13": "(G10) a function that takes an engine error and returns one never drops the incoming error (the out-of-fuel error stays in the chain).",
    "C14": "(F14) the code that formats an error has no operation that panics on a short slice without a test of the length it relies on; F7 span balance in context.",
    "C16": "(T13) the entries a composite deserializer shows the visitor are computed from the value, never from the names the target type declares.",
}

NOT_APPLICABLE = {
}

PENDING = "rule engine for this property is not finished / not yet validated both ways in this revision (see DESIGN.md §7); not claimed until it is"


def main():
    props = [json.loads(l)["id"] for l in open(os.path.join(HERE, "properties.jsonl"))]
    checks = []
    na = []
    for p in props:
        if p in CLAIMED:
            tech, text, ref, note = CLAIMED[p]
            if p in ROUND8:
                text = text + " Round 8: " + ROUND8[p]
            if p in ROUND9:
                text = text + " Round 9: " + ROUND9[p]
            if p in ROUND11:
                text = text + " Rounds 10-11: " + ROUND11[p]
            if p in ROUND12:
                text = text + " Rounds 12-13: " + ROUND12[p]
            checks.append({
                "property_id": p,
                "quick_cmd": "./check %s --tier quick" % p,
                "thorough_cmd": "./check %s --tier thorough" % p,
                "evidence_file": "/verif/evidence/%s.json" % p,
                "replay_cmd_template": "./check %s --replay {path}" % p,
                "engine": "mjsa",
                "technique": tech,
                "level_claimed": {"category": "other", "text": text, "design_ref": ref},
                "level_note": note + "  " + TRUST,
            })
        else:
            na.append({"property_id": p, "reason": NOT_APPLICABLE.get(p, PENDING)})
    m = {
        "version": 1,
        "setup_cmd": "cd /verif/driver && CARGO_NET_OFFLINE=true cargo build --offline",
        "hooks": {
            "guard": "minijinja_verif",
            "enable": "none needed: the analysis reads the unmodified source (no hook commits)",
            "baseline_off_cmd": "cd /repo && cargo test --workspace --no-fail-fast --offline",
            "source_commits": [],
            "add_only": True,
        },
        "engines": [
            {"name": "mjsa", "path": "/verif/mjsa", "serves_properties": sorted(CLAIMED),
             "kind_free_text": "static analysis: rustc_private MIR fact extractor (/verif/driver) + Python rule "
                               "library (dominance, call graph, typestate, def-use, guard facts) + positive controls "
                               "(/verif/controls) + compile-fail witnesses (/verif/witness)"},
        ],
        "checks": checks,
        "not_applicable": na,
        "notes": "All checks are static: they compile /repo's working tree with a custom rustc driver and analyse the "
                 "MIR; nothing is rendered or executed.  Exit 2 (CHECKER-BROKEN) means an anchor moved and the rule "
                 "cannot decide; it is never reported as a violation.",
    }
    with open(os.path.join(HERE, "MANIFEST.json"), "w") as f:
        json.dump(m, f, indent=1)
        f.write("\n")


if __name__ == "__main__":
    main()
