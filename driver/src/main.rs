//! mjfacts: rustc_private fact extractor.  Injected with RUSTC_WORKSPACE_WRAPPER; for every crate
//! named in $MJFACTS_CRATES it writes $MJFACTS_OUT/<crate>.json holding the type-checked program
//! in a form the Python rule library can analyse: MIR bodies (blocks, statements, terminators with
//! resolved callees), ADTs, impls, statics, named constants.
#![feature(rustc_private)]
#![allow(clippy::all)]

extern crate rustc_abi;
extern crate rustc_driver;
extern crate rustc_hir;
extern crate rustc_interface;
extern crate rustc_middle;
extern crate rustc_session;
extern crate rustc_span;

mod json;

use json::J;
use rustc_hir::def::DefKind;
use rustc_hir::def_id::{DefId, LOCAL_CRATE};
use rustc_middle::mir::{
    self, AggregateKind, BasicBlockData, Body, Const, Operand, Place, ProjectionElem, Rvalue,
    StatementKind, TerminatorKind,
};
use rustc_middle::ty::{self, Instance, InstanceKind, Ty, TyCtxt, TypingEnv};
use rustc_span::Span;

struct Cb;

impl rustc_driver::Callbacks for Cb {
    fn after_analysis<'tcx>(
        &mut self,
        _compiler: &rustc_interface::interface::Compiler,
        tcx: TyCtxt<'tcx>,
    ) -> rustc_driver::Compilation {
        let crate_name = tcx.crate_name(LOCAL_CRATE).to_string();
        let wanted = std::env::var("MJFACTS_CRATES").unwrap_or_default();
        if !wanted.split(',').any(|c| c == crate_name) {
            return rustc_driver::Compilation::Continue;
        }
        // skip build scripts / test harnesses of the same name
        let out_dir = match std::env::var("MJFACTS_OUT") {
            Ok(d) => d,
            Err(_) => return rustc_driver::Compilation::Continue,
        };
        let facts = ty::print::with_resolve_crate_name!(ty::print::with_no_trimmed_paths!(
            ty::print::with_no_visible_paths!(extract(tcx, &crate_name))
        ));
        let path = format!("{}/{}.json", out_dir, crate_name);
        let mut s = String::with_capacity(64 << 20);
        facts.write(&mut s);
        std::fs::write(&path, s).expect("mjfacts: cannot write fact file");
        rustc_driver::Compilation::Continue
    }
}

fn main() {
    let mut args: Vec<String> = std::env::args().collect();
    // RUSTC_WORKSPACE_WRAPPER passes the real rustc as argv[1]
    if args.len() > 1 && (args[1].ends_with("rustc") || args[1].contains("/rustc")) {
        args.remove(1);
    }
    rustc_driver::run_compiler(&args, &mut Cb);
}

// ------------------------------------------------------------------------------------------

struct Cx<'tcx> {
    tcx: TyCtxt<'tcx>,
}

fn extract<'tcx>(tcx: TyCtxt<'tcx>, crate_name: &str) -> J {
    let cx = Cx { tcx };
    let mut fns = Vec::new();
    let mut consts = Vec::new();
    let mut statics = Vec::new();
    for ldid in tcx.hir_body_owners() {
        let did = ldid.to_def_id();
        let kind = tcx.def_kind(did);
        match kind {
            DefKind::Fn | DefKind::AssocFn | DefKind::Closure => {
                if tcx.is_constructor(did) {
                    continue;
                }
                fns.push(cx.function(did, kind));
            }
            DefKind::Const { .. } | DefKind::AssocConst { .. } => {
                consts.push(cx.named_const(did));
            }
            DefKind::Static { .. } => {
                statics.push(cx.static_item(did));
            }
            _ => {}
        }
    }
    let mut adts = Vec::new();
    let mut impls = Vec::new();
    for id in tcx.hir_free_items() {
        let did = id.owner_id.to_def_id();
        match tcx.def_kind(did) {
            DefKind::Struct | DefKind::Enum | DefKind::Union => adts.push(cx.adt(did)),
            DefKind::Impl { .. } => impls.push(cx.impl_item(did)),
            _ => {}
        }
    }
    J::obj(vec![
        ("crate", J::s(crate_name)),
        ("functions", J::Arr(fns)),
        ("consts", J::Arr(consts)),
        ("statics", J::Arr(statics)),
        ("adts", J::Arr(adts)),
        ("impls", J::Arr(impls)),
    ])
}

impl<'tcx> Cx<'tcx> {
    fn path(&self, did: DefId) -> String {
        self.tcx.def_path_str(did)
    }

    fn loc(&self, span: Span) -> J {
        let sm = self.tcx.sess.source_map();
        // location of the outermost call site (user code), plus the macro chain
        let cs = span.source_callsite();
        let lo = sm.lookup_char_pos(cs.lo());
        let file = match &lo.file.name {
            rustc_span::FileName::Real(r) => match r.local_path() {
                Some(p) => p.to_string_lossy().to_string(),
                None => format!("{:?}", r),
            },
            other => format!("{:?}", other),
        };
        let mut macros = Vec::new();
        let mut s = span;
        let mut guard = 0;
        while s.from_expansion() && guard < 12 {
            let data = s.ctxt().outer_expn_data();
            match data.kind {
                rustc_span::ExpnKind::Macro(_, name) => macros.push(J::s(name.as_str())),
                rustc_span::ExpnKind::Desugaring(d) => macros.push(J::s(&format!("desugar:{:?}", d))),
                rustc_span::ExpnKind::AstPass(p) => macros.push(J::s(&format!("astpass:{:?}", p))),
                rustc_span::ExpnKind::Root => {}
            }
            s = data.call_site;
            guard += 1;
        }
        let mut v = vec![
            ("f", J::s(&file)),
            ("l", J::Int(lo.line as i128)),
            ("c", J::Int(lo.col.0 as i128 + 1)),
        ];
        if !macros.is_empty() {
            v.push(("m", J::Arr(macros)));
        }
        J::obj(v)
    }

    fn ty(&self, t: Ty<'tcx>) -> J {
        J::s(&self.ty_str(t))
    }

    fn ty_str(&self, t: Ty<'tcx>) -> String {
        ty::print::with_no_trimmed_paths!(t.to_string())
    }

    /// structured description of a type: peeled ADT path etc.
    fn ty_info(&self, t: Ty<'tcx>) -> J {
        let mut v = vec![("s", self.ty(t))];
        let mut peeled = t;
        let mut refs = 0;
        loop {
            match peeled.kind() {
                ty::Ref(_, inner, _) => {
                    peeled = *inner;
                    refs += 1;
                }
                ty::RawPtr(inner, _) => {
                    peeled = *inner;
                    refs += 1;
                }
                _ => break,
            }
        }
        if refs > 0 {
            v.push(("refs", J::Int(refs)));
        }
        match peeled.kind() {
            ty::Adt(def, args) => {
                v.push(("adt", J::s(&self.path(def.did()))));
                let a: Vec<J> = args
                    .iter()
                    .filter_map(|a| a.as_type())
                    .map(|t| self.ty(t))
                    .collect();
                if !a.is_empty() {
                    v.push(("args", J::Arr(a)));
                }
            }
            ty::Closure(did, _) => v.push(("closure", J::s(&self.path(*did)))),
            ty::FnDef(did, _) => v.push(("fndef", J::s(&self.path(*did)))),
            ty::Dynamic(preds, ..) => {
                if let Some(p) = preds.principal_def_id() {
                    v.push(("dyn", J::s(&self.path(p))));
                }
            }
            ty::Param(p) => v.push(("param", J::s(p.name.as_str()))),
            ty::Int(_) | ty::Uint(_) | ty::Float(_) | ty::Bool | ty::Char | ty::Str => {
                v.push(("prim", J::s(&peeled.to_string())))
            }
            _ => {}
        }
        // closures / fn items / type parameters nested anywhere in the type
        let mut inner = Vec::new();
        let mut has_param = false;
        for ga in t.walk() {
            if let Some(it) = ga.as_type() {
                match it.kind() {
                    ty::Closure(did, _) | ty::FnDef(did, _) => {
                        let p = self.path(*did);
                        if !inner.contains(&p) {
                            inner.push(p);
                        }
                    }
                    ty::Param(_) => has_param = true,
                    _ => {}
                }
            }
        }
        if !inner.is_empty() {
            v.push(("fns", J::Arr(inner.iter().map(|p| J::s(p)).collect())));
        }
        if has_param {
            v.push(("has_param", J::Bool(true)));
        }
        J::obj(v)
    }

    fn named_const(&self, did: DefId) -> J {
        let tcx = self.tcx;
        let mut v = vec![
            ("path", J::s(&self.path(did))),
            ("ty", self.ty(tcx.type_of(did).instantiate_identity().skip_norm_wip())),
            ("loc", self.loc(tcx.def_span(did))),
        ];
        if tcx.generics_of(did).is_empty() {
            if let Ok(val) = tcx.const_eval_poly(did) {
                if let Some(s) = val.try_to_scalar_int() {
                    v.push(("val", J::s(&format!("{}", scalar_to_i128(s, tcx.type_of(did).instantiate_identity().skip_norm_wip())))));
                }
            }
        }
        J::obj(v)
    }

    fn static_item(&self, did: DefId) -> J {
        let tcx = self.tcx;
        let t = tcx.type_of(did).instantiate_identity().skip_norm_wip();
        let env = TypingEnv::post_analysis(tcx, did);
        J::obj(vec![
            ("path", J::s(&self.path(did))),
            ("ty", self.ty_info(t)),
            ("mut", J::Bool(tcx.is_mutable_static(did))),
            ("freeze", J::Bool(t.is_freeze(tcx, env))),
            ("thread_local", J::Bool(tcx.is_thread_local_static(did))),
            ("loc", self.loc(tcx.def_span(did))),
        ])
    }

    fn adt(&self, did: DefId) -> J {
        let tcx = self.tcx;
        let def = tcx.adt_def(did);
        let mut variants = Vec::new();
        for (vi, v) in def.variants().iter_enumerated() {
            let fields: Vec<J> = v
                .fields
                .iter()
                .map(|f| {
                    J::obj(vec![
                        ("name", J::s(f.name.as_str())),
                        ("ty", self.ty_info(tcx.type_of(f.did).instantiate_identity().skip_norm_wip())),
                        ("pub", J::Bool(f.vis.is_public())),
                    ])
                })
                .collect();
            let mut o = vec![
                ("name", J::s(v.name.as_str())),
                ("idx", J::Int(vi.as_u32() as i128)),
                ("fields", J::Arr(fields)),
            ];
            if def.is_enum() {
                let d = def.discriminant_for_variant(tcx, vi);
                o.push(("discr", J::s(&format!("{}", d.val))));
            }
            variants.push(J::obj(o));
        }
        J::obj(vec![
            ("path", J::s(&self.path(did))),
            (
                "kind",
                J::s(if def.is_enum() {
                    "enum"
                } else if def.is_union() {
                    "union"
                } else {
                    "struct"
                }),
            ),
            ("pub", J::Bool(tcx.visibility(did).is_public())),
            ("variants", J::Arr(variants)),
            ("loc", self.loc(tcx.def_span(did))),
        ])
    }

    fn impl_item(&self, did: DefId) -> J {
        let tcx = self.tcx;
        let self_ty = tcx.type_of(did).instantiate_identity().skip_norm_wip();
        let mut v = vec![
            ("path", J::s(&self.path(did))),
            ("self_ty", self.ty_info(self_ty)),
        ];
        if let Some(tr) = tcx.impl_opt_trait_ref(did) {
            let tr = tr.instantiate_identity().skip_norm_wip();
            v.push(("trait", J::s(&self.path(tr.def_id))));
            v.push(("trait_full", J::s(&ty::print::with_no_trimmed_paths!(tr.to_string()))));
        }
        let mut items = Vec::new();
        for it in tcx.associated_items(did).in_definition_order() {
            if it.is_fn() {
                let mut o = vec![
                    ("name", J::s(it.name().as_str())),
                    ("path", J::s(&self.path(it.def_id))),
                ];
                if let Some(t) = it.trait_item_def_id() {
                    o.push(("trait_item", J::s(&self.path(t))));
                }
                items.push(J::obj(o));
            }
        }
        v.push(("fns", J::Arr(items)));
        J::obj(v)
    }

    fn function(&self, did: DefId, kind: DefKind) -> J {
        let tcx = self.tcx;
        let body: &Body<'tcx> = tcx.optimized_mir(did);
        let env = TypingEnv::post_analysis(tcx, did);
        let mut v = vec![
            ("path", J::s(&self.path(did))),
            (
                "kind",
                J::s(match kind {
                    DefKind::Fn => "fn",
                    DefKind::AssocFn => "assoc",
                    _ => "closure",
                }),
            ),
            ("loc", self.loc(tcx.def_span(did))),
            ("argc", J::Int(body.arg_count as i128)),
        ];
        if matches!(kind, DefKind::Fn | DefKind::AssocFn) {
            v.push(("pub", J::Bool(tcx.visibility(did).is_public())));
            v.push(("name", J::s(tcx.item_name(did).as_str())));
        }
        if kind == DefKind::Closure {
            let parent = tcx.typeck_root_def_id(did);
            v.push(("root", J::s(&self.path(parent))));
            v.push(("parent", J::s(&self.path(tcx.parent(did)))));
        }
        if kind == DefKind::AssocFn {
            let parent = tcx.parent(did);
            if let DefKind::Impl { .. } = tcx.def_kind(parent) {
                v.push(("impl", J::s(&self.path(parent))));
                let st = tcx.type_of(parent).instantiate_identity().skip_norm_wip();
                v.push(("self_ty", self.ty_info(st)));
                if let Some(tr) = tcx.impl_opt_trait_ref(parent) {
                    v.push(("trait", J::s(&self.path(tr.instantiate_identity().skip_norm_wip().def_id))));
                }
            } else {
                v.push(("in_trait", J::s(&self.path(parent))));
            }
        }
        // attributes of interest: #[cfg(test)] functions are not compiled in a check build anyway
        let locals: Vec<J> = body
            .local_decls
            .iter()
            .map(|d| self.ty_info(d.ty))
            .collect();
        v.push(("locals", J::Arr(locals)));
        // debug names of locals
        let mut names = Vec::new();
        for vdi in &body.var_debug_info {
            if let mir::VarDebugInfoContents::Place(p) = vdi.value {
                names.push(J::obj(vec![
                    ("name", J::s(vdi.name.as_str())),
                    ("place", self.place(body, p)),
                ]));
            }
        }
        v.push(("names", J::Arr(names)));
        let blocks: Vec<J> = body
            .basic_blocks
            .iter()
            .map(|bb| self.block(body, env, bb))
            .collect();
        v.push(("blocks", J::Arr(blocks)));
        let mut proms = Vec::new();
        for pb in tcx.promoted_mir(did).iter() {
            let pl: Vec<J> = pb.local_decls.iter().map(|d| self.ty_info(d.ty)).collect();
            let pbl: Vec<J> = pb.basic_blocks.iter().map(|bb| self.block(pb, env, bb)).collect();
            proms.push(J::obj(vec![("locals", J::Arr(pl)), ("blocks", J::Arr(pbl))]));
        }
        if !proms.is_empty() {
            v.push(("promoted", J::Arr(proms)));
        }
        J::obj(v)
    }

    fn place(&self, body: &Body<'tcx>, p: Place<'tcx>) -> J {
        let tcx = self.tcx;
        let mut proj = Vec::new();
        for (base, elem) in p.as_ref().iter_projections() {
            let j = match elem {
                ProjectionElem::Deref => J::s("*"),
                ProjectionElem::Field(f, fty) => {
                    let bt = base.ty(&body.local_decls, tcx);
                    let mut o = vec![("f", J::Int(f.as_u32() as i128))];
                    if let ty::Adt(def, _) = bt.ty.kind() {
                        let vi = bt.variant_index.unwrap_or(rustc_abi::FIRST_VARIANT);
                        if !def.is_enum() || bt.variant_index.is_some() {
                            if let Some(fd) = def.variant(vi).fields.get(f) {
                                o.push(("n", J::s(fd.name.as_str())));
                            }
                        }
                        o.push(("of", J::s(&self.path(def.did()))));
                    }
                    o.push(("ty", self.ty(fty)));
                    J::obj(o)
                }
                ProjectionElem::Index(l) => J::obj(vec![("idx", J::Int(l.as_u32() as i128))]),
                ProjectionElem::ConstantIndex { offset, from_end, .. } => J::obj(vec![
                    ("cidx", J::Int(offset as i128)),
                    ("from_end", J::Bool(from_end)),
                ]),
                ProjectionElem::Subslice { from, to, from_end } => J::obj(vec![
                    ("sub", J::Arr(vec![J::Int(from as i128), J::Int(to as i128)])),
                    ("from_end", J::Bool(from_end)),
                ]),
                ProjectionElem::Downcast(name, vi) => J::obj(vec![
                    (
                        "dc",
                        J::s(&name.map(|s| s.to_string()).unwrap_or_else(|| format!("#{}", vi.as_u32()))),
                    ),
                    ("vi", J::Int(vi.as_u32() as i128)),
                ]),
                ProjectionElem::OpaqueCast(_) => J::s("opaque"),
                ProjectionElem::UnwrapUnsafeBinder(_) => J::s("unbinder"),
            };
            proj.push(j);
        }
        if proj.is_empty() {
            J::obj(vec![("l", J::Int(p.local.as_u32() as i128))])
        } else {
            J::obj(vec![("l", J::Int(p.local.as_u32() as i128)), ("p", J::Arr(proj))])
        }
    }

    fn constant(&self, env: TypingEnv<'tcx>, c: &Const<'tcx>) -> J {
        let tcx = self.tcx;
        let t = c.ty();
        let mut v = vec![("ty", self.ty(t))];
        match t.kind() {
            ty::FnDef(did, args) => {
                v.push(("fn", J::s(&self.path(*did))));
                v.push(("fn_full", J::s(&ty::print::with_no_trimmed_paths!(tcx.def_path_str_with_args(*did, args)))));
                return J::obj(v);
            }
            _ => {}
        }
        // named constant?
        if let Const::Unevaluated(u, _) = c {
            v.push(("named", J::s(&self.path(u.def))));
            if let Some(p) = u.promoted {
                v.push(("promoted", J::Int(p.as_u32() as i128)));
            }
        }
        if let Some(s) = c.try_eval_scalar_int(tcx, env) {
            v.push(("int", J::s(&format!("{}", scalar_to_i128(s, t)))));
        } else if let Some(val) = c.try_eval_scalar(tcx, env) {
            // pointer or similar
            let _ = val;
        }
        // string / byte slices
        let is_strlike = match t.kind() {
            ty::Ref(_, inner, _) => match inner.kind() {
                ty::Str => true,
                ty::Slice(e) => *e == tcx.types.u8,
                _ => false,
            },
            _ => false,
        };
        if is_strlike {
            if let Ok(cv) = c.eval(tcx, env, rustc_span::DUMMY_SP) {
                let sliceish = matches!(cv, mir::ConstValue::Slice { .. } | mir::ConstValue::Indirect { .. });
                if let Some(bytes) = if sliceish { cv.try_get_slice_bytes_for_diagnostics(tcx) } else { None } {
                    match std::str::from_utf8(bytes) {
                        Ok(s) => v.push(("str", J::s(s))),
                        Err(_) => v.push(("bytes", J::Arr(bytes.iter().map(|b| J::Int(*b as i128)).collect()))),
                    }
                }
            }
        }
        v.push(("d", J::s(&ty::print::with_no_trimmed_paths!(format!("{}", c)))));
        J::obj(v)
    }

    fn operand(&self, body: &Body<'tcx>, env: TypingEnv<'tcx>, op: &Operand<'tcx>) -> J {
        match op {
            Operand::Copy(p) => J::obj(vec![("cp", self.place(body, *p))]),
            Operand::Move(p) => J::obj(vec![("mv", self.place(body, *p))]),
            Operand::Constant(c) => J::obj(vec![("c", self.constant(env, &c.const_))]),
            #[allow(unreachable_patterns)]
            _ => J::obj(vec![("other", J::s(&format!("{:?}", op)))]),
        }
    }

    fn rvalue(&self, body: &Body<'tcx>, env: TypingEnv<'tcx>, rv: &Rvalue<'tcx>) -> J {
        let tcx = self.tcx;
        match rv {
            Rvalue::Use(op, ..) => J::obj(vec![("k", J::s("use")), ("op", self.operand(body, env, op))]),
            Rvalue::Repeat(op, n) => J::obj(vec![
                ("k", J::s("repeat")),
                ("op", self.operand(body, env, op)),
                ("n", J::s(&format!("{}", n))),
            ]),
            Rvalue::Ref(_, bk, p) => J::obj(vec![
                ("k", J::s("ref")),
                ("mut", J::Bool(matches!(bk, mir::BorrowKind::Mut { .. }))),
                ("place", self.place(body, *p)),
            ]),
            Rvalue::ThreadLocalRef(did) => J::obj(vec![("k", J::s("tls")), ("static", J::s(&self.path(*did)))]),
            Rvalue::RawPtr(k, p) => J::obj(vec![
                ("k", J::s("rawptr")),
                ("mut", J::Bool(format!("{:?}", k).contains("Mut"))),
                ("place", self.place(body, *p)),
            ]),
            Rvalue::Cast(kind, op, t) => J::obj(vec![
                ("k", J::s("cast")),
                ("kind", J::s(&format!("{:?}", kind).split('(').next().unwrap_or("").to_string())),
                ("op", self.operand(body, env, op)),
                ("from", self.ty(op.ty(&body.local_decls, tcx))),
                ("from_info", self.ty_info(op.ty(&body.local_decls, tcx))),
                ("to", self.ty(*t)),
            ]),
            Rvalue::BinaryOp(op, ab) => J::obj(vec![
                ("k", J::s("bin")),
                ("op", J::s(&format!("{:?}", op))),
                ("a", self.operand(body, env, &ab.0)),
                ("b", self.operand(body, env, &ab.1)),
                ("ty", self.ty(ab.0.ty(&body.local_decls, tcx))),
            ]),
            Rvalue::UnaryOp(op, a) => J::obj(vec![
                ("k", J::s("un")),
                ("op", J::s(&format!("{:?}", op))),
                ("a", self.operand(body, env, a)),
                ("ty", self.ty(a.ty(&body.local_decls, tcx))),
            ]),
            Rvalue::Discriminant(p) => {
                let pt = p.ty(&body.local_decls, tcx).ty;
                let mut v = vec![("k", J::s("discr")), ("place", self.place(body, *p))];
                if let ty::Adt(def, _) = pt.kind() {
                    v.push(("adt", J::s(&self.path(def.did()))));
                }
                J::obj(v)
            }
            Rvalue::Aggregate(kind, ops) => {
                let mut v = vec![("k", J::s("agg"))];
                match &**kind {
                    AggregateKind::Array(_) => v.push(("agg", J::s("array"))),
                    AggregateKind::Tuple => v.push(("agg", J::s("tuple"))),
                    AggregateKind::Adt(did, vi, _, _, _) => {
                        v.push(("agg", J::s("adt")));
                        v.push(("adt", J::s(&self.path(*did))));
                        let def = tcx.adt_def(*did);
                        v.push(("variant", J::s(def.variant(*vi).name.as_str())));
                        let names: Vec<J> =
                            def.variant(*vi).fields.iter().map(|f| J::s(f.name.as_str())).collect();
                        v.push(("fields", J::Arr(names)));
                    }
                    AggregateKind::Closure(did, _) => {
                        v.push(("agg", J::s("closure")));
                        v.push(("closure", J::s(&self.path(*did))));
                    }
                    AggregateKind::Coroutine(did, _) | AggregateKind::CoroutineClosure(did, _) => {
                        v.push(("agg", J::s("coroutine")));
                        v.push(("closure", J::s(&self.path(*did))));
                    }
                    AggregateKind::RawPtr(..) => v.push(("agg", J::s("rawptr"))),
                }
                v.push(("ops", J::Arr(ops.iter().map(|o| self.operand(body, env, o)).collect())));
                J::obj(v)
            }
            Rvalue::CopyForDeref(p) => J::obj(vec![
                ("k", J::s("use")),
                ("op", J::obj(vec![("cp", self.place(body, *p))])),
            ]),
            Rvalue::WrapUnsafeBinder(op, _) => {
                J::obj(vec![("k", J::s("use")), ("op", self.operand(body, env, op))])
            }
        }
    }

    fn callee(&self, body: &Body<'tcx>, env: TypingEnv<'tcx>, func: &Operand<'tcx>) -> J {
        let tcx = self.tcx;
        let fty = func.ty(&body.local_decls, tcx);
        match fty.kind() {
            ty::FnDef(did, args) => {
                let mut v = vec![
                    ("path", J::s(&self.path(*did))),
                    ("full", J::s(&ty::print::with_no_trimmed_paths!(tcx.def_path_str_with_args(*did, args)))),
                    ("krate", J::s(tcx.crate_name(did.krate).as_str())),
                ];
                // self type of a trait method call
                if let Some(tr) = tcx.trait_of_assoc(*did) {
                    v.push(("trait", J::s(&self.path(tr))));
                    if let Some(st) = args.get(0).and_then(|a| a.as_type()) {
                        v.push(("self_ty", self.ty_info(st)));
                    }
                }
                let targs: Vec<J> = args.iter().filter_map(|a| a.as_type()).map(|t| self.ty_info(t)).collect();
                if !targs.is_empty() {
                    v.push(("targs", J::Arr(targs)));
                }
                let resolved = std::panic::catch_unwind(std::panic::AssertUnwindSafe(|| {
                    Instance::try_resolve(tcx, env, *did, args)
                }));
                if let Ok(Ok(Some(inst))) = resolved {
                    let rdid = inst.def_id();
                    match inst.def {
                        InstanceKind::Virtual(..) => v.push(("virtual", J::Bool(true))),
                        InstanceKind::Item(_) => {
                            if rdid != *did {
                                v.push(("resolved", J::s(&self.path(rdid))));
                            }
                        }
                        InstanceKind::ClosureOnceShim { .. }
                        | InstanceKind::FnPtrShim(..)
                        | InstanceKind::ReifyShim(..) => {
                            v.push(("shim", J::s(&format!("{:?}", inst.def).split('(').next().unwrap_or("").to_string())));
                        }
                        InstanceKind::DropGlue(_, t) => {
                            if let Some(t) = t {
                                v.push(("drop_glue", self.ty(t)));
                            }
                        }
                        InstanceKind::CloneShim(_, t) => v.push(("clone_shim", self.ty(t))),
                        _ => {
                            if rdid != *did {
                                v.push(("resolved", J::s(&self.path(rdid))));
                            }
                        }
                    }
                }
                J::obj(v)
            }
            _ => {
                // call through a function pointer / closure value held in a local
                let mut v = vec![("indirect", self.ty_info(fty))];
                if let Some(p) = func.place() {
                    v.push(("place", self.place(body, p)));
                }
                J::obj(v)
            }
        }
    }

    fn block(&self, body: &Body<'tcx>, env: TypingEnv<'tcx>, bb: &BasicBlockData<'tcx>) -> J {
        let mut stmts = Vec::new();
        for st in &bb.statements {
            match &st.kind {
                StatementKind::Assign(b) => {
                    let (p, rv) = &**b;
                    stmts.push(J::obj(vec![
                        ("k", J::s("assign")),
                        ("place", self.place(body, *p)),
                        ("rv", self.rvalue(body, env, rv)),
                        ("loc", self.loc(st.source_info.span)),
                    ]));
                }
                StatementKind::SetDiscriminant { place, variant_index } => {
                    stmts.push(J::obj(vec![
                        ("k", J::s("setdiscr")),
                        ("place", self.place(body, **place)),
                        ("vi", J::Int(variant_index.as_u32() as i128)),
                        ("loc", self.loc(st.source_info.span)),
                    ]));
                }
                StatementKind::Intrinsic(i) => {
                    stmts.push(J::obj(vec![
                        ("k", J::s("intrinsic")),
                        ("d", J::s(&format!("{:?}", i))),
                        ("loc", self.loc(st.source_info.span)),
                    ]));
                }
                _ => {}
            }
        }
        let term = bb.terminator();
        let tl = self.loc(term.source_info.span);
        let t = match &term.kind {
            TerminatorKind::Goto { target } => J::obj(vec![("k", J::s("goto")), ("t", J::Int(target.as_u32() as i128))]),
            TerminatorKind::SwitchInt { discr, targets } => {
                let mut arms = Vec::new();
                for (val, tgt) in targets.iter() {
                    arms.push(J::Arr(vec![J::s(&format!("{}", val)), J::Int(tgt.as_u32() as i128)]));
                }
                J::obj(vec![
                    ("k", J::s("switch")),
                    ("discr", self.operand(body, env, discr)),
                    ("ty", self.ty(discr.ty(&body.local_decls, self.tcx))),
                    ("arms", J::Arr(arms)),
                    ("otherwise", J::Int(targets.otherwise().as_u32() as i128)),
                ])
            }
            TerminatorKind::Return => J::obj(vec![("k", J::s("return"))]),
            TerminatorKind::Unreachable => J::obj(vec![("k", J::s("unreachable"))]),
            TerminatorKind::UnwindResume => J::obj(vec![("k", J::s("resume"))]),
            TerminatorKind::UnwindTerminate(_) => J::obj(vec![("k", J::s("terminate"))]),
            TerminatorKind::Drop { place, target, .. } => J::obj(vec![
                ("k", J::s("drop")),
                ("place", self.place(body, *place)),
                ("t", J::Int(target.as_u32() as i128)),
            ]),
            TerminatorKind::Call { func, args, destination, target, fn_span, .. } => {
                let mut v = vec![
                    ("k", J::s("call")),
                    ("callee", self.callee(body, env, func)),
                    ("args", J::Arr(args.iter().map(|a| self.operand(body, env, &a.node)).collect())),
                    ("dest", self.place(body, *destination)),
                    ("fn_loc", self.loc(*fn_span)),
                ];
                if let Some(t) = target {
                    v.push(("t", J::Int(t.as_u32() as i128)));
                }
                J::obj(v)
            }
            TerminatorKind::TailCall { func, args, .. } => J::obj(vec![
                ("k", J::s("tailcall")),
                ("callee", self.callee(body, env, func)),
                ("args", J::Arr(args.iter().map(|a| self.operand(body, env, &a.node)).collect())),
            ]),
            TerminatorKind::Assert { cond, expected, msg, target, .. } => {
                let (kind, ops): (String, Vec<J>) = match &**msg {
                    mir::AssertKind::BoundsCheck { len, index } => (
                        "BoundsCheck".into(),
                        vec![self.operand(body, env, len), self.operand(body, env, index)],
                    ),
                    mir::AssertKind::Overflow(op, a, b) => (
                        format!("Overflow:{:?}", op),
                        vec![self.operand(body, env, a), self.operand(body, env, b)],
                    ),
                    mir::AssertKind::OverflowNeg(a) => ("OverflowNeg".into(), vec![self.operand(body, env, a)]),
                    mir::AssertKind::DivisionByZero(a) => ("DivisionByZero".into(), vec![self.operand(body, env, a)]),
                    mir::AssertKind::RemainderByZero(a) => ("RemainderByZero".into(), vec![self.operand(body, env, a)]),
                    other => (format!("{:?}", other).split(|c| c == '(' || c == ' ' || c == '{').next().unwrap_or("").to_string(), vec![]),
                };
                J::obj(vec![
                    ("k", J::s("assert")),
                    ("cond", self.operand(body, env, cond)),
                    ("expected", J::Bool(*expected)),
                    ("kind", J::s(&kind)),
                    ("ops", J::Arr(ops)),
                    ("t", J::Int(target.as_u32() as i128)),
                ])
            }
            TerminatorKind::FalseEdge { real_target, .. } => {
                J::obj(vec![("k", J::s("goto")), ("t", J::Int(real_target.as_u32() as i128))])
            }
            TerminatorKind::FalseUnwind { real_target, .. } => {
                J::obj(vec![("k", J::s("goto")), ("t", J::Int(real_target.as_u32() as i128))])
            }
            other => J::obj(vec![("k", J::s("other")), ("d", J::s(&format!("{:?}", other)))]),
        };
        let mut v = vec![("s", J::Arr(stmts)), ("t", t), ("tl", tl)];
        if bb.is_cleanup {
            v.push(("cleanup", J::Bool(true)));
        }
        J::obj(v)
    }
}

fn scalar_to_i128<'tcx>(s: ty::ScalarInt, t: Ty<'tcx>) -> i128 {
    let size = s.size();
    match t.kind() {
        ty::Int(_) => s.to_int(size),
        _ => {
            let u = s.to_uint(size);
            if u > i128::MAX as u128 {
                // keep the bit pattern; rules never need u128 > i128::MAX
                i128::MAX
            } else {
                u as i128
            }
        }
    }
}
