//! Type-level witnesses.  Each `compile_fail` witness has a compiling twin that differs only in the offending line,
//! so a witness cannot pass merely because its paths are wrong.  Run with `cargo +nightly test --doc` (error codes
//! are only checked on nightly).

/// C15.U6: Environment, Template, Value and Error can be shared between threads.
/// ```
/// fn assert_send_sync<T: Send + Sync>() {}
/// assert_send_sync::<minijinja::Environment<'static>>();
/// assert_send_sync::<minijinja::Template<'static, 'static>>();
/// assert_send_sync::<minijinja::Value>();
/// assert_send_sync::<minijinja::Error>();
/// ```
pub struct SendSync;

/// C15.U6: an environment cannot be mutated while a template borrowed from it is alive.
/// ```compile_fail,E0502
/// let mut env = minijinja::Environment::new();
/// env.add_template("a", "x").unwrap();
/// let tmpl = env.get_template("a").unwrap();
/// env.add_template("b", "y").unwrap(); // mutable borrow while `tmpl` borrows `env`
/// let _ = tmpl.render(());
/// ```
pub struct NoMutationWhileBorrowed;

/// Twin of [`NoMutationWhileBorrowed`]: the same program without the overlapping mutation compiles.
/// ```
/// let mut env = minijinja::Environment::new();
/// env.add_template("a", "x").unwrap();
/// env.add_template("b", "y").unwrap();
/// let tmpl = env.get_template("a").unwrap();
/// let _ = tmpl.render(());
/// ```
pub struct NoMutationWhileBorrowedTwin;

/// C02: the safe-string marker type is not nameable from outside the crate.
/// ```compile_fail,E0603
/// let _ = minijinja::value::StringType::Safe;
/// ```
pub struct StringTypePrivate;

/// Twin: the public way to build a safe string compiles.
/// ```
/// let _ = minijinja::value::Value::from_safe_string("<b>".to_string());
/// ```
pub struct StringTypePrivateTwin;

/// C19: `Output` has no public constructor.
/// ```compile_fail,E0624
/// let mut s = String::new();
/// let _ = minijinja::Output::new(&mut s);
/// ```
pub struct OutputNoPublicConstructor;

/// Twin: naming the type itself is fine.
/// ```
/// fn takes(_o: &mut minijinja::Output) {}
/// let _ = takes;
/// ```
pub struct OutputNoPublicConstructorTwin;
