"""Intra-procedural def/use helpers over MIR: definitions, backward origin tracing, guard facts."""
from . import cfg
from .facts import op_place, op_local, Call


class Def:
    __slots__ = ("kind", "bb", "idx", "rv", "call", "place")

    def __init__(self, kind, bb, idx=None, rv=None, call=None, place=None):
        self.kind = kind      # 'stmt' | 'call' | 'part' | 'partcall' | 'arg'
        self.bb = bb
        self.idx = idx
        self.rv = rv
        self.call = call
        self.place = place

    def __repr__(self):
        return "Def(%s bb%s %s)" % (self.kind, self.bb, self.rv["k"] if self.rv else (self.call.name if self.call else ""))


def defs(fn):
    """local -> [Def]; whole-local and partial (projected) assignments, reachable blocks only"""
    d = getattr(fn, "_defs", None)
    if d is not None:
        return d
    d = {}
    stores = []
    fn._stores = stores
    for l in range(1, fn.argc + 1):
        d.setdefault(l, []).append(Def("arg", -1, l))
    calls = {c.bb: c for c in fn.calls()}
    for bb in sorted(fn.reachable):
        for i, s in enumerate(fn.stmts(bb)):
            if s["k"] == "assign":
                p = s["place"]
                kind = "part" if "p" in p else "stmt"
                if "p" in p and p["p"][0] == "*":
                    # a store through a pointer is not a definition of the pointer local
                    stores.append(Def("store", bb, i, rv=s["rv"], place=p))
                    continue
                d.setdefault(p["l"], []).append(Def(kind, bb, i, rv=s["rv"], place=p))
            elif s["k"] == "setdiscr":
                p = s["place"]
                d.setdefault(p["l"], []).append(Def("part", bb, i, rv={"k": "setdiscr", "vi": s["vi"]}, place=p))
        c = calls.get(bb)
        if c is not None and c.dest is not None:
            p = c.dest
            kind = "partcall" if "p" in p else "call"
            if "p" in p and p["p"][0] == "*":
                stores.append(Def("storecall", bb, None, call=c, place=p))
                continue
            d.setdefault(p["l"], []).append(Def(kind, bb, None, call=c, place=p))
    fn._defs = d
    return d


def stores(fn):
    defs(fn)
    return fn._stores


def whole_defs(fn, local):
    return [x for x in defs(fn).get(local, []) if x.kind in ("stmt", "call", "arg")]


def promoted_rvalue(fn, const):
    """for a constant that names a promoted body: the rvalue stored behind the returned reference"""
    if const is None or "promoted" not in const:
        return None
    pr = fn.raw.get("promoted", [])
    owner = const.get("named")
    if owner:
        # a promoted body of another function (code spliced in by inline.view keeps naming its own promoteds)
        from .facts import norm_path
        g = fn.prog.fns.get(norm_path(owner))
        if g is not None and g.path != fn.path:
            pr = g.raw.get("promoted", [])
    i = const["promoted"]
    if i >= len(pr):
        return None
    body = pr[i]
    vals = {}
    for b in body["blocks"]:
        for s in b["s"]:
            if s["k"] == "assign" and "p" not in s["place"]:
                vals[s["place"]["l"]] = s["rv"]
    rv = vals.get(0)
    seen = 0
    while rv is not None and seen < 6:
        seen += 1
        if rv["k"] == "ref":
            rv = vals.get(rv["place"]["l"])
        elif rv["k"] == "use" and op_place(rv["op"]) is not None:
            rv = vals.get(op_place(rv["op"])["l"])
        else:
            return rv
    return rv



def const_char_set(fn, op):
    """characters of a constant `[char; N]` / `&[char]` / `char` search pattern (through `[..]`, `as_slice`, deref); empty
    when the operand is anything else"""
    out = set()
    os_ = origins(fn, op, through_calls=lambda k: 0 if (k.name.endswith("::index") or k.name.endswith("::as_slice")
                                                         or k.name.endswith("::deref")) else None)
    for o in os_:
        if o.kind != "const" or o.const is None:
            return set()
        rv = promoted_rvalue(fn, o.const)
        if rv is not None and rv.get("k") == "agg":
            for x in rv.get("ops", []):
                c = x.get("c")
                if c is None or "int" not in c or c.get("ty") != "char":
                    return set()
                out.add(int(c["int"]))
        elif "int" in o.const and o.const.get("ty") == "char":
            out.add(int(o.const["int"]))
        else:
            return set()
    return out


class Origin:
    """root of a backward trace"""
    __slots__ = ("kind", "bb", "idx", "call", "rv", "arg", "const", "proj")

    def __init__(self, kind, bb=None, idx=None, call=None, rv=None, arg=None, const=None, proj=()):
        self.kind = kind     # 'arg' | 'call' | 'agg' | 'const' | 'bin' | 'un' | 'discr' | 'cast' | 'other' | 'undef'
        self.bb = bb
        self.idx = idx
        self.call = call
        self.rv = rv
        self.arg = arg
        self.const = const
        self.proj = proj     # field names applied between root and use (outermost last)

    def key(self):
        return (self.kind, self.bb, self.idx, self.arg, str(self.const) if self.const else None, self.proj)

    def __repr__(self):
        if self.kind == "call":
            return "Origin(call %s bb%d %s)" % (self.call.name, self.bb, ".".join(self.proj))
        if self.kind == "arg":
            return "Origin(arg %d %s)" % (self.arg, ".".join(self.proj))
        if self.kind == "const":
            return "Origin(const %s)" % (self.const.get("str", self.const.get("int", self.const.get("d"))),)
        return "Origin(%s bb%s)" % (self.kind, self.bb)


def _proj_names(place):
    out = []
    for e in place.get("p", []):
        if isinstance(e, dict):
            if "f" in e:
                out.append(str(e.get("n", e["f"])))
            elif "dc" in e:
                out.append("as " + e["dc"])
    return tuple(out)


def origins(fn, start, through_casts=True, through_calls=None, max_steps=4000, within=None):
    """Backward trace of a value: follows copies, moves, borrows, derefs, field reads (recording field names),
    casts; stops at calls, aggregates, constants, arithmetic, parameters.
    `start` is a local number or an operand.  `through_calls`: optional predicate Call -> index of the argument to
    continue through (e.g. Deref::deref, Clone::clone, Option::as_ref) or None."""
    out = {}
    work = []
    if isinstance(start, int):
        work.append((start, ()))
    else:
        if "c" in start:
            o = Origin("const", const=start["c"])
            return [o]
        p = op_place(start)
        work.append((p["l"], _proj_names(p)))
    seen = set()
    d = defs(fn)
    steps = 0
    while work and steps < max_steps:
        steps += 1
        l, proj = work.pop()
        if (l, proj) in seen:
            continue
        seen.add((l, proj))
        dl = d.get(l, [])
        if within is not None:
            # flow-sensitive approximation: prefer the definitions inside the given region (e.g. one match arm)
            inside = [x for x in dl if x.bb in within]
            if inside:
                dl = inside
        if not dl:
            o = Origin("undef", idx=l, proj=proj)
            out[o.key()] = o
            continue
        for df in dl:
            if df.kind == "arg":
                o = Origin("arg", arg=l, proj=proj)
                out[o.key()] = o
            elif df.kind in ("call", "partcall"):
                c = df.call
                nxt = through_calls(c) if through_calls else None
                if nxt == 0 and c.name.endswith("Iterator::zip") and len(c.args) >= 2:
                    # the items of a zip are pairs: position 0 comes from the receiver, position 1 from the argument.
                    # The projection read off the item (behind the `Some(..)` of `next()`) says which one is meant.
                    pr = list(proj)
                    k_ = 0
                    while k_ + 1 < len(pr) and pr[k_] in ("as Some", "as Continue", "as Ok") and pr[k_ + 1] == "0":
                        k_ += 2
                    if k_ < len(pr) and pr[k_] in ("0", "1"):
                        which = [int(pr[k_])]
                        rest = tuple(pr[:k_] + pr[k_ + 1:])
                    else:
                        which = [0, 1]
                        rest = proj
                    for w_ in which:
                        a = c.args[w_]
                        if "c" not in a:
                            p = op_place(a)
                            work.append((p["l"], _proj_names(p) + rest))
                    continue
                if nxt is not None and nxt < len(c.args):
                    a = c.args[nxt]
                    if "c" in a:
                        o = Origin("const", const=a["c"], proj=proj)
                        out[o.key()] = o
                    else:
                        p = op_place(a)
                        work.append((p["l"], _proj_names(p) + proj))
                else:
                    o = Origin("call", bb=df.bb, call=c, proj=proj)
                    out[o.key()] = o
            else:
                rv = df.rv
                k = rv["k"]
                extra = _proj_names(df.place) if df.kind == "part" else ()
                if df.kind == "part" and proj and extra:
                    # field-sensitive: a write to another field does not define the field being read
                    if proj[0] != extra[0]:
                        continue
                    proj_rest = proj[1:]
                    if k == "use" and "c" not in rv["op"]:
                        p = op_place(rv["op"])
                        work.append((p["l"], _proj_names(p) + proj_rest))
                        continue
                if k == "use":
                    op = rv["op"]
                    if "c" in op:
                        o = Origin("const", bb=df.bb, idx=df.idx, const=op["c"], proj=proj)
                        out[o.key()] = o
                    else:
                        p = op_place(op)
                        work.append((p["l"], _proj_names(p) + proj))
                elif k == "ref" or k == "rawptr":
                    p = rv["place"]
                    work.append((p["l"], _proj_names(p) + proj))
                elif k == "cast" and through_casts:
                    op = rv["op"]
                    if "c" in op:
                        o = Origin("const", bb=df.bb, idx=df.idx, const=op["c"], proj=proj)
                        out[o.key()] = o
                    else:
                        p = op_place(op)
                        work.append((p["l"], _proj_names(p) + proj))
                elif k == "agg":
                    # a downcast read off an enum value that was built here: `(x as Holds).0` of `Holds(v)` is v, and of
                    # `Broken` nothing at all (that definition cannot be the one the read sees)
                    if proj and proj[0].startswith("as ") and df.kind == "stmt" and rv.get("agg") == "adt" and "variant" in rv \
                            and len(proj) > 1:
                        want_ = {proj[0][3:]}
                        if proj[0] == "as Continue":        # read behind `?` (Try::branch maps Some / Ok to Continue)
                            want_ |= {"Some", "Ok"}
                        elif proj[0] == "as Break":
                            want_ |= {"None", "Err"}
                        if rv["variant"] not in want_:
                            continue
                        proj = proj[1:]
                    # see through tuple / struct construction when a field of the aggregate is what is read
                    if proj and df.kind == "stmt" and rv.get("agg") in ("tuple", "adt"):
                        idx = None
                        if proj[0].isdigit() and rv.get("agg") == "tuple":
                            idx = int(proj[0])
                        elif rv.get("agg") == "adt" and proj[0] in rv.get("fields", []):
                            idx = rv["fields"].index(proj[0])
                        elif rv.get("agg") == "adt" and proj[0].isdigit() and int(proj[0]) < len(rv["ops"]):
                            idx = int(proj[0])
                        if idx is not None and idx < len(rv["ops"]):
                            op = rv["ops"][idx]
                            if "c" in op:
                                o = Origin("const", bb=df.bb, idx=df.idx, const=op["c"], proj=proj[1:])
                                out[o.key()] = o
                            else:
                                p = op_place(op)
                                work.append((p["l"], _proj_names(p) + proj[1:]))
                            continue
                    o = Origin("agg", bb=df.bb, idx=df.idx, rv=rv, proj=proj + extra)
                    out[o.key()] = o
                else:
                    o = Origin(k if k in ("bin", "un", "discr", "cast") else "other", bb=df.bb, idx=df.idx, rv=rv,
                               proj=proj)
                    out[o.key()] = o
    return list(out.values())


def guards(fn, bb):
    """Dominating switch conditions of bb: [(switch_bb, frozenset(labels through which bb is reachable))],
    only those where not every arm reaches bb.  Labels are the switch values as strings, plus 'otherwise'."""
    dom = cfg.dominators(fn)
    out = []
    for s in sorted(dom.get(bb, ())):
        if s == bb:
            continue
        t = fn.term(s)
        if t["k"] != "switch":
            continue
        labels = [(v, x) for v, x in t["arms"]] + [("otherwise", t["otherwise"])]
        reach_cache = {}
        taken = set()
        for v, x in labels:
            if x not in reach_cache:
                reach_cache[x] = bb in cfg.reach_from(fn, x, avoid={s})
            if reach_cache[x]:
                taken.add(v)
        if len(taken) < len(labels):
            out.append((s, frozenset(taken)))
    return out


class Cond:
    """what a switch discriminates on"""
    __slots__ = ("kind", "call", "rv", "place", "adt", "neg", "bb")

    def __init__(self, kind, bb, call=None, rv=None, place=None, adt=None, neg=False):
        self.kind = kind    # 'call' | 'bin' | 'discr' | 'local' | 'const' | 'other'
        self.bb = bb
        self.call = call
        self.rv = rv
        self.place = place
        self.adt = adt
        self.neg = neg

    def __repr__(self):
        return "Cond(%s%s %s)" % ("!" if self.neg else "", self.kind,
                                  self.call.name if self.call else (self.adt or (self.rv or {}).get("op")))


def cond_of(fn, sbb):
    """describe the discriminant of the switch at sbb"""
    t = fn.term(sbb)
    op = t["discr"]
    neg = False
    for _ in range(8):
        if "c" in op:
            return Cond("const", sbb, neg=neg)
        p = op_place(op)
        if "p" in p:
            return Cond("local", sbb, place=p, neg=neg)
        wd = whole_defs(fn, p["l"])
        if len(wd) != 1:
            return Cond("local", sbb, place=p, neg=neg)
        df = wd[0]
        if df.kind == "call":
            return Cond("call", sbb, call=df.call, neg=neg)
        if df.kind == "arg":
            return Cond("local", sbb, place=p, neg=neg)
        rv = df.rv
        if rv["k"] == "use":
            op = rv["op"]
            continue
        if rv["k"] == "un" and rv["op"] == "Not":
            neg = not neg
            op = rv["a"]
            continue
        if rv["k"] == "discr":
            return Cond("discr", sbb, rv=rv, place=rv["place"], adt=rv.get("adt"), neg=neg)
        if rv["k"] == "bin":
            return Cond("bin", sbb, rv=rv, neg=neg)
        return Cond("other", sbb, rv=rv, neg=neg)
    return Cond("other", sbb, neg=neg)


def variant_labels(prog, adt_path, labels):
    """map switch labels of a discriminant switch to variant names; 'otherwise' -> the variants not listed"""
    a = prog.adts.get(adt_path)
    if a is None:
        return None
    by_discr = {v["discr"]: v["name"] for v in a["variants"] if "discr" in v}
    return by_discr


def const_str(op, fn=None):
    """the string value of a constant operand (following a promoted reference), else None"""
    c = op.get("c")
    if c is None:
        return None
    if "str" in c:
        return c["str"]
    if fn is not None and "promoted" in c:
        rv = promoted_rvalue(fn, c)
        if rv is not None and rv["k"] == "use" and "c" in rv["op"] and "str" in rv["op"]["c"]:
            return rv["op"]["c"]["str"]
    return None


def bool_true_labels(taken):
    """for a switch on a bool (arms '0' -> false, otherwise -> true): is the guarded block on the true side,
    the false side, or both"""
    t = set(taken)
    if t == {"0"}:
        return False
    if "0" not in t and t:
        return True
    return None


def closure_captures(prog, cl):
    """for a closure Fn: list (per capture index) of lists of Origins in the function that builds the closure"""
    from .facts import norm_path
    host = prog.fns.get(cl.parent) if cl.parent else None
    if host is None:
        return []
    for bb, i, s in host.all_stmts():
        rv = s.get("rv")
        if rv and rv["k"] == "agg" and rv.get("closure") and norm_path(rv["closure"]) == cl.path:
            return [origins(host, o) for o in rv["ops"]]
    return []


def enum_eq(fn, cond):
    """for a Cond that is `<E as PartialEq>::eq(a, b)` where one side is a constant enum variant:
    (variant name, origins of the other side); else None"""
    if cond.kind != "call" or not cond.call.name.endswith(("PartialEq>::eq", "PartialEq>::ne", "PartialEq::eq", "PartialEq::ne")):
        return None
    var = None
    other = []
    for a in cond.call.args:
        hit = None
        for o in origins(fn, a):
            if o.kind == "const":
                rv = promoted_rvalue(fn, o.const)
                if rv is not None and rv.get("k") == "agg" and "variant" in rv:
                    hit = rv["variant"]
            elif o.kind == "agg" and "variant" in o.rv and not o.rv["ops"]:
                hit = o.rv["variant"]
        if hit is not None and var is None:
            var = hit
        else:
            other += origins(fn, a)
    if var is None:
        return None
    return var, other


def true_side(fn, cond_bb, cond):
    """edges taken when the condition (after negations / `ne`) holds"""
    from . import cfg as _cfg
    val = True
    if cond.neg:
        val = not val
    if cond.kind == "call" and cond.call.name.endswith("::ne"):
        val = not val
    return _cfg.bool_edges(fn, cond_bb, val)


def matches_variants(prog, fn, sbb, adt):
    """for a switch on a bool produced by `matches!(x, A | B)` over enum `adt`: (set of variant names for which the
    bool is true); None if the switch is not of that shape"""
    t = fn.term(sbb)
    p = op_place(t["discr"])
    if p is None or "p" in p:
        return None
    l = p["l"]
    # follow plain moves / copies (a flag handed to a helper that was spliced in travels through a few temporaries)
    wd = whole_defs(fn, l)
    for _ in range(8):
        if len(wd) == 1 and wd[0].kind == "stmt" and wd[0].rv["k"] == "use" and op_place(wd[0].rv["op"]) is not None \
                and "p" not in op_place(wd[0].rv["op"]):
            l = op_place(wd[0].rv["op"])["l"]
            wd = whole_defs(fn, l)
        else:
            break
    if len(wd) < 2:
        return None
    a = prog.adts.get(adt)
    if a is None:
        return None
    true_vars = set()
    for d in wd:
        if d.kind != "stmt" or d.rv["k"] != "use" or "c" not in d.rv["op"]:
            return None
        val = d.rv["op"]["c"].get("int")
        if val not in ("0", "1"):
            return None
        if val == "1":
            got = None
            for (sb, taken) in guards(fn, d.bb):
                cd = cond_of(fn, sb)
                if cd.kind == "discr" and cd.adt == adt:
                    lab = {v for v, x in fn.term(sb)["arms"]}
                    names = set()
                    for v in a["variants"]:
                        key = v["discr"] if v["discr"] in lab else "otherwise"
                        if key in taken:
                            names.add(v["name"])
                    got = names if got is None else (got & names)
            if got is None:
                return None
            true_vars |= got
    return true_vars


def taken_variants(prog, fn, sbb, taken, adt):
    """variant names of enum `adt` that flow through the `taken` labels of the discriminant switch at sbb"""
    a = prog.adts.get(adt)
    if a is None:
        return None
    lab = {v for v, x in fn.term(sbb)["arms"]}
    names = set()
    for v in a["variants"]:
        key = v["discr"] if v["discr"] in lab else "otherwise"
        if key in taken:
            names.add(v["name"])
    return names


def _single_def_block(fn, local, want, depth=0):
    """the one block in which `local` (followed through plain copies) is given the value `want` - ('variant', name) or
    ('bool', '0'/'1') - when all its other definitions give it something else; None otherwise"""
    if depth > 4:
        return None
    hits, unknown = [], False
    for d in whole_defs(fn, local):
        if d.kind != "stmt":
            unknown = True
            continue
        rv = d.rv
        if rv["k"] == "agg" and "variant" in rv:
            if want[0] == "variant" and rv["variant"] == want[1]:
                hits.append(d.bb)
        elif rv["k"] == "use" and "c" in rv["op"]:
            if want[0] == "bool" and str(rv["op"]["c"].get("int")) == want[1]:
                hits.append(d.bb)
        elif rv["k"] == "use":
            q = op_place(rv["op"])
            if q is not None and "p" not in q:
                sub = _single_def_block(fn, q["l"], want, depth + 1)
                if sub is None:
                    unknown = True
                else:
                    hits.append(sub)
            else:
                unknown = True
        else:
            unknown = True
    if unknown or len(set(hits)) != 1:
        return None
    return hits[0]


def guard_facts(prog, fn, bb, _depth=0):
    """normalised list of dominating conditions of block bb:
       ('variant', place-proj-tuple, adt, frozenset(variant names))
       ('call', callee name, bool truth value on the path, Call)
       ('matches', adt, frozenset(variants), bool)
       ('local', local, truth)   ('bin', op, truth, rv)
    A test of a value that was *computed* from conditions (`let found = if cond { Some(x) } else { None }; if let Some(..)
    = found`, the verdict of a helper read in place) also contributes the conditions under which that value was built."""
    out = []
    for (sb, taken) in guards(fn, bb):
        cd = cond_of(fn, sb)
        side = bool_true_labels(taken)
        if _depth < 3:
            want = None
            pl = None
            if cd.kind == "discr" and cd.place is not None and "p" not in cd.place and len(taken) == 1:
                names = {"core::option::Option": {"0": "None", "1": "Some"}, "core::result::Result": {"0": "Ok", "1": "Err"}}.get(cd.adt or "")
                lab = next(iter(taken))
                if names and lab in names:
                    want, pl = ("variant", names[lab]), cd.place["l"]
            elif cd.kind == "local" and cd.place is not None and "p" not in cd.place and side is not None:
                want, pl = ("bool", "1" if (side != cd.neg) else "0"), cd.place["l"]
            if want is not None:
                db = _single_def_block(fn, pl, want)
                if db is not None and db != bb:
                    out += guard_facts(prog, fn, db, _depth + 1)
        if cd.kind == "discr" and cd.adt in prog.adts:
            vs = taken_variants(prog, fn, sb, taken, cd.adt)
            out.append(("variant", _proj_names(cd.place), cd.adt, frozenset(vs), cd.place["l"]))
            continue
        if cd.kind == "discr":
            # std enums (Option/Result): labels as they are
            out.append(("stdvariant", cd.adt, frozenset(taken), cd.place))
            continue
        mv = None
        if cd.kind == "local":
            for adt in ("minijinja::value::ValueKind", "minijinja::utils::AutoEscape", "minijinja::value::ValueRepr",
                        "minijinja::utils::UndefinedBehavior", "minijinja::value::object::ObjectRepr",
                        "minijinja::value::UndefinedType", "minijinja::value::StringType"):
                mv = matches_variants(prog, fn, sb, adt)
                if mv is not None:
                    if side is not None:
                        out.append(("matches", adt, frozenset(mv), side != cd.neg, sb))
                    break
        if mv is not None:
            continue
        if side is None:
            continue
        truth = side != cd.neg
        if cd.kind == "call":
            if cd.call.name.endswith("::ne"):
                truth = not truth
            out.append(("call", cd.call.name, truth, cd.call))
            # `x == Enum::Variant` written with `==` instead of `matches!`: the same fact as a one-variant `matches`
            ee = enum_eq(fn, cd)
            if ee is not None:
                adt = (cd.call.self_ty or {}).get("adt")
                if adt in prog.adts:
                    out.append(("matches", adt, frozenset([ee[0]]), truth, sb))
        elif cd.kind == "bin":
            out.append(("bin", cd.rv["op"], truth, cd.rv))
        elif cd.kind == "local":
            out.append(("local", cd.place, truth, sb))
    return out


# ---------------------------------------------------------------------------------------------------------------------
# cross-function provenance

def _fake_operand(local, proj):
    p = []
    for n in proj:
        if n.startswith("as "):
            p.append({"dc": n[3:]})
        else:
            p.append({"f": n, "n": n})
    return {"cp": {"l": local, "p": p}}


_XPASS = {
    "core::option::Option::take": 0,
    "core::option::Option::as_ref": 0,
    "core::option::Option::as_mut": 0,
    "core::option::Option::cloned": 0,
    "core::option::Option::copied": 0,
    "<alloc::sync::Arc<T, A> as core::ops::deref::Deref>::deref": 0,
    "core::mem::take": 0,
}


def _xpass(c):
    n = c.name
    if n in _XPASS:
        return _XPASS[n]
    if n.endswith("as core::clone::Clone>::clone") or n.endswith("::deref") or n.endswith("::deref_mut"):
        return 0
    return None


def xorigins(prog, fn, start, depth=5, through_calls=_xpass, max_leaves=400):
    """Backward trace across functions: like origins(), but a parameter is followed to the argument at every call
    site of the function, a call into a function of the program is followed into what that function returns, and a
    read of a variant's field looks into the aggregates that built the enum (definitions building another variant
    are infeasible for that read and dropped).  `then_some`, `Option::take`, `clone`, `deref` pass their operand.
    Returns [(Fn, Origin)] leaves; a leaf of kind 'arg' remains where the function has no visible caller (or is a
    closure) or the depth bound is reached."""
    leaves = []
    seen = set()
    work = [(fn, start, depth)]
    while work and len(leaves) < max_leaves:
        f, st, d = work.pop()
        for o in origins(f, st, through_calls=through_calls):
            key = (f.path, o.key())
            if key in seen:
                continue
            seen.add(key)
            if o.kind == "arg" and d > 0 and f.kind != "closure" and 1 <= o.arg <= f.argc:
                sites = prog.callers().get(f.path, [])
                sites = [c for c in sites if len(c.args) >= o.arg]
                if not sites:
                    leaves.append((f, o))
                    continue
                for c in sites:
                    a = c.args[o.arg - 1]
                    if "c" in a:
                        leaves.append((c.fn, Origin("const", bb=c.bb, const=a["c"], proj=o.proj)))
                    else:
                        p = op_place(a)
                        work.append((c.fn, _fake_operand(p["l"], _proj_names(p) + o.proj), d - 1))
            elif o.kind == "call" and o.call.name == "core::bool::<impl bool>::then_some" and len(o.call.args) == 2:
                # Some(value) or None: a read of the payload sees the value
                if o.proj[:2] == ("as Some", "0"):
                    a = o.call.args[1]
                    if "c" in a:
                        leaves.append((f, Origin("const", bb=o.bb, const=a["c"], proj=o.proj[2:])))
                    else:
                        p = op_place(a)
                        work.append((f, _fake_operand(p["l"], _proj_names(p) + o.proj[2:]), d))
                else:
                    leaves.append((f, o))
            elif o.kind == "call" and d > 0 and prog.has_fn(o.call.name) and prog.fn(o.call.name).kind != "closure" \
                    and prog.fn(o.call.name).raw.get("blocks"):
                g = prog.fn(o.call.name)
                work.append((g, _fake_operand(0, o.proj), d - 1))
            elif o.kind == "agg" and o.proj and o.proj[0].startswith("as ") and o.rv.get("agg") == "adt":
                if o.rv.get("variant") != o.proj[0][3:]:
                    continue        # this definition builds another variant: not what the read sees
                rest = o.proj[1:]
                if not rest:
                    leaves.append((f, o))
                    continue
                idx = None
                if rest[0].isdigit() and int(rest[0]) < len(o.rv["ops"]):
                    idx = int(rest[0])
                elif rest[0] in o.rv.get("fields", []):
                    idx = o.rv["fields"].index(rest[0])
                if idx is None:
                    leaves.append((f, o))
                    continue
                op = o.rv["ops"][idx]
                if "c" in op:
                    leaves.append((f, Origin("const", bb=o.bb, const=op["c"], proj=rest[1:])))
                else:
                    p = op_place(op)
                    work.append((f, _fake_operand(p["l"], _proj_names(p) + rest[1:]), d))
            else:
                leaves.append((f, o))
    return leaves


def field_producers(prog, field):
    """Every place in the program that gives a struct field of that name a value: [(Fn, bb, adt|None, operand|None,
    call|None)] - the operand at the field's position in each aggregate that has such a field, and every direct
    assignment (or call result) to a place ending in that field."""
    out = []
    for f in prog.fns.values():
        for bb, i, s in f.all_stmts():
            if s.get("k") != "assign":
                continue
            rv = s["rv"]
            if rv["k"] == "agg" and rv.get("agg") == "adt" and field in rv.get("fields", []):
                out.append((f, bb, rv.get("adt"), rv["ops"][rv["fields"].index(field)], None))
            pr = s["place"].get("p", [])
            if pr and isinstance(pr[-1], dict) and pr[-1].get("n") == field:
                out.append((f, bb, pr[-1].get("of"), rv.get("op") if rv["k"] == "use" else None, None))
        for c in f.calls():
            pr = (c.dest or {}).get("p", [])
            if pr and isinstance(pr[-1], dict) and pr[-1].get("n") == field:
                out.append((f, c.bb, pr[-1].get("of"), None, c))
    return out


def backward_calls(prog, fn, start, depth=6, _seen=None, library=None):
    """Projection-insensitive backward slice of a value: the calls of *program* functions whose results can flow into
    it.  Library combinators (`then`, `map`, `transpose`, `flatten`, `?`, `unwrap_or` ...) are looked through - into
    their arguments and into the return values of closures passed to them.  Returns (calls, other_leaves) where
    other_leaves are the non-constant, non-parameter origins that are not calls (e.g. arithmetic).  The library calls
    that were looked through are appended to `library` when a list is given."""
    from .facts import norm_path
    if _seen is None:
        _seen = set()
    calls, leaves = [], []
    for o in origins(fn, start):
        key = (fn.path, o.key())
        if key in _seen:
            continue
        _seen.add(key)
        if o.kind == "call":
            c = o.call
            if prog.has_fn(c.name) and prog.fn(c.name).kind != "closure":
                calls.append(c)
                continue
            if library is not None:
                library.append(c)
            if depth <= 0:
                leaves.append((fn, o))
                continue
            for a in c.args:
                if "c" in a:
                    continue
                sub = origins(fn, a)
                cl = [x for x in sub if x.kind == "agg" and x.rv.get("closure")]
                if cl:
                    for x in cl:
                        g = prog.fns.get(norm_path(x.rv["closure"]))
                        if g is not None:
                            cs, ls = backward_calls(prog, g, 0, depth - 1, _seen, library)
                            calls += cs
                            leaves += ls
                else:
                    cs, ls = backward_calls(prog, fn, a, depth - 1, _seen, library)
                    calls += cs
                    leaves += ls
        elif o.kind == "bin":
            for side in ("a", "b"):
                if "c" not in o.rv[side]:
                    cs, ls = backward_calls(prog, fn, o.rv[side], depth - 1, _seen, library)
                    calls += cs
                    leaves += ls
        elif o.kind in ("const", "arg"):
            if o.kind == "arg":
                leaves.append((fn, o))
        else:
            leaves.append((fn, o))
    return calls, leaves
