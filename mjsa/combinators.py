"""Option / Result combinators as control flow.

`x.map_or(d, |v| ..)` is `match x { Some(v) => .., None => d }` written with a library function whose body the facts do
not contain.  A rule that reads the match form (a guard on the discriminant of `x`, the payload `v` traced to `x as
Some`) would raise an alarm on the combinator form of the same code.  This table says, for the std combinators, which
argument is a closure run on which variant of the receiver (its first parameter is that variant's payload) and which is
a plain value used on which variant; the two helpers answer the questions rules ask:

  closure_binding(prog, f)        closure `f` is handed to a combinator -> (host fn, call, variant it runs on)
  default_binding(host, call, k)  argument k of the combinator call is the value used on which variant
"""
from . import flow

# name -> {argument index: (variant the argument is used on, "closure" | "value")}
TABLE = {
    "core::option::Option::map": {1: ("Some", "closure")},
    "core::option::Option::and_then": {1: ("Some", "closure")},
    "core::option::Option::filter": {1: ("Some", "closure")},
    "core::option::Option::map_or": {1: ("None", "value"), 2: ("Some", "closure")},
    "core::option::Option::map_or_else": {1: ("None", "closure"), 2: ("Some", "closure")},
    "core::option::Option::unwrap_or": {1: ("None", "value")},
    "core::option::Option::unwrap_or_else": {1: ("None", "closure")},
    "core::option::Option::ok_or": {1: ("None", "value")},
    "core::option::Option::ok_or_else": {1: ("None", "closure")},
    "core::option::Option::or": {1: ("None", "value")},
    "core::option::Option::or_else": {1: ("None", "closure")},
    "core::result::Result::map": {1: ("Ok", "closure")},
    "core::result::Result::and_then": {1: ("Ok", "closure")},
    "core::result::Result::map_err": {1: ("Err", "closure")},
    "core::result::Result::or_else": {1: ("Err", "closure")},
    "core::result::Result::unwrap_or_else": {1: ("Err", "closure")},
    "core::result::Result::unwrap_or": {1: ("Err", "value")},
    "core::result::Result::map_or": {1: ("Err", "value"), 2: ("Ok", "closure")},
    "core::result::Result::map_or_else": {1: ("Err", "closure"), 2: ("Ok", "closure")},
}


def _hosts(prog, f):
    root = prog.fns.get(f.root) if f.root else None
    hs = ([root] if root is not None else []) + [h for h in prog.closures_of(f.root) if h is not f]
    return hs


def closure_binding(prog, f):
    """for a closure handed to exactly one combinator call: (host, call, variant); else None.  The closure runs only
    when the receiver `call.args[0]` is `variant`, and its first own parameter (local 2) is that variant's payload."""
    if f.kind != "closure":
        return None
    found = []
    for h in _hosts(prog, f):
        for c in h.calls():
            for j, a in enumerate(c.args):
                if any(o.kind == "agg" and o.rv.get("closure") == f.path for o in flow.origins(h, a)):
                    found.append((h, c, j))
    if len(found) != 1:
        return None
    h, c, j = found[0]
    role = TABLE.get(c.name, {}).get(j)
    if role is None or role[1] != "closure":
        return None
    return h, c, role[0]


def default_binding(call, k):
    """the variant of the receiver on which argument k (a plain value) of this combinator call is the result; else None"""
    role = TABLE.get(call.name, {}).get(k)
    return role[0] if role is not None and role[1] == "value" else None


def payload_origins(prog, f, o, **kw):
    """an origin that is the first own parameter of a closure handed to a combinator is the payload of the receiver:
    [(host, origin of the receiver, variant)]; [] when `o` is not such a parameter"""
    if o.kind != "arg" or o.arg != 2 or f.kind != "closure":
        return []
    b = closure_binding(prog, f)
    if b is None:
        return []
    h, c, variant = b
    return [(h, r, variant) for r in flow.origins(h, c.args[0], **kw)]
