"""Debug pretty-printer: python3 -m mjsa.dump [--repo DIR] [--config MAX] <substring-of-fn-path> ..."""
import sys

from . import facts


def pl(p):
    s = "_%d" % p["l"]
    for e in p.get("p", []):
        if e == "*":
            s = "(*%s)" % s
        elif isinstance(e, dict):
            if "f" in e:
                s = "%s.%s" % (s, e.get("n", e["f"]))
            elif "dc" in e:
                s = "(%s as %s)" % (s, e["dc"])
            elif "idx" in e:
                s = "%s[_%d]" % (s, e["idx"])
            else:
                s = "%s%s" % (s, e)
        else:
            s = "%s.%s" % (s, e)
    return s


def op(o):
    if "cp" in o:
        return pl(o["cp"])
    if "mv" in o:
        return "move " + pl(o["mv"])
    if "c" in o:
        c = o["c"]
        if "fn" in c:
            return "fn:" + c["fn"]
        if "str" in c:
            return repr(c["str"])
        if "int" in c:
            return "%s_%s" % (c["int"], c["ty"]) + ("(%s)" % c["named"] if "named" in c else "")
        return "const " + c.get("d", "?")
    return str(o)


def rv(r):
    k = r["k"]
    if k == "use":
        return op(r["op"])
    if k == "ref":
        return ("&mut " if r["mut"] else "&") + pl(r["place"])
    if k == "cast":
        return "%s as %s (%s)" % (op(r["op"]), r["to"], r["kind"])
    if k == "bin":
        return "%s(%s, %s)" % (r["op"], op(r["a"]), op(r["b"]))
    if k == "un":
        return "%s(%s)" % (r["op"], op(r["a"]))
    if k == "discr":
        return "discriminant(%s)" % pl(r["place"])
    if k == "agg":
        if r["agg"] == "adt":
            return "%s::%s(%s)" % (r["adt"], r["variant"], ", ".join(op(o) for o in r["ops"]))
        if r["agg"] == "closure":
            return "closure %s(%s)" % (r["closure"], ", ".join(op(o) for o in r["ops"]))
        return "%s(%s)" % (r["agg"], ", ".join(op(o) for o in r["ops"]))
    return str(r)


def dump_fn(f, out=sys.stdout):
    out.write("fn %s  [%s]  argc=%d\n" % (f.path, f.loc, f.argc))
    for i, l in enumerate(f.locals):
        nm = f.local_name(i)
        out.write("   let _%d: %s%s\n" % (i, l["s"], "  // " + nm if nm else ""))
    for i, b in enumerate(f.blocks):
        if i not in f.reachable:
            continue
        out.write(" bb%d:\n" % i)
        for s in b["s"]:
            if s["k"] == "assign":
                out.write("    %s = %s      // L%d %s\n" % (pl(s["place"]), rv(s["rv"]), s["loc"]["l"],
                                                          ",".join(s["loc"].get("m", []))))
            else:
                out.write("    %s\n" % s)
        t = b["t"]
        k = t["k"]
        tl = b["tl"]
        suffix = "   // L%d %s" % (tl["l"], ",".join(tl.get("m", [])))
        if k == "call":
            c = t["callee"]
            nm = c.get("resolved") or c.get("path") or ("indirect " + str(c.get("indirect", {}).get("s")))
            if c.get("virtual"):
                nm = "dyn " + nm
            out.write("    %s = %s(%s) -> %s%s\n" % (pl(t["dest"]), nm, ", ".join(op(a) for a in t["args"]),
                                                   "bb%d" % t["t"] if "t" in t else "!", suffix))
        elif k == "switch":
            out.write("    switch %s [%s, otherwise: bb%d]%s\n" % (op(t["discr"]), ", ".join(
                "%s: bb%d" % (v, x) for v, x in t["arms"]), t["otherwise"], suffix))
        elif k in ("goto",):
            out.write("    goto bb%d\n" % t["t"])
        elif k == "drop":
            out.write("    drop(%s) -> bb%d\n" % (pl(t["place"]), t["t"]))
        elif k == "assert":
            out.write("    assert(%s == %s, %s %s) -> bb%d%s\n" % (op(t["cond"]), t["expected"], t["kind"],
                                                                [op(o) for o in t["ops"]], t["t"], suffix))
        else:
            out.write("    %s%s\n" % (k, suffix))


def main():
    args = sys.argv[1:]
    repo = "/repo"
    config = "MAX"
    crates = ("minijinja", "minijinja_contrib", "minijinja_autoreload")
    pats = []
    i = 0
    exact = False
    while i < len(args):
        if args[i] == "--repo":
            repo = args[i + 1]
            i += 2
        elif args[i] == "--config":
            config = args[i + 1]
            i += 2
        elif args[i] == "--controls":
            repo = None
            i += 1
        elif args[i] == "--exact":
            exact = True
            i += 1
        elif args[i] == "--list":
            pats.append(("list", args[i + 1]))
            i += 2
        else:
            pats.append(("dump", args[i]))
            i += 1
    if repo is None:
        prog = facts.Program(facts.extract_controls(), crates=("mjsa_controls",))
    else:
        prog = facts.Program(facts.extract(repo, config), crates)
    for kind, p in pats:
        for k in sorted(prog.fns):
            if (k == p) if exact else (p in k):
                if kind == "list":
                    print(k, prog.fns[k].loc)
                else:
                    dump_fn(prog.fns[k])


if __name__ == "__main__":
    main()
