"""Whole-program call graph over the extracted crates.

Edges:
  direct    resolved callee (Instance::try_resolve) or declared path when local
  cha       unresolved trait-method call -> every impl of that trait method in the analysed crates
  closure   function that builds a closure -> the closure body (the closure may be invoked by any callee it is
            passed to; attributing the call to the builder is a sound over-approximation for cycle/reachability rules)
  fnref     function that mentions a fn item as a value -> that function
"""
from .facts import norm_path
from . import query


class CallGraph:
    def __init__(self, prog):
        self.prog = prog
        self.succ = {k: set() for k in prog.fns}
        self.edge_sites = {}      # (src, dst) -> [(bb, kind)]
        # trait method -> impl fns
        self.impls_of = {}
        for i in prog.impls:
            for m in i.get("fns", []):
                ti = m.get("trait_item")
                if ti:
                    self.impls_of.setdefault(norm_path(ti), []).append(norm_path(m["path"]))
        for f in prog.fns.values():
            for c in f.calls():
                tgts = []
                if c.indirect or not c.path:
                    pass
                elif c.resolved and c.resolved in prog.fns:
                    tgts = [(c.resolved, "direct")]
                elif c.trait:
                    # trait method rustc could not resolve to one impl here (generic or dyn receiver), or resolved
                    # to an impl outside the analysed crates
                    if not c.resolved or c.virtual:
                        tgts = [(t, "cha") for t in self.impls_of.get(c.path, []) if t in prog.fns]
                        if c.path in prog.fns:      # provided (default) method body
                            tgts.append((c.path, "direct"))
                elif c.path in prog.fns:
                    tgts = [(c.path, "direct")]
                for t, kind in tgts:
                    self._add(f.key, t, c.bb, kind)
            for bb, i, s in f.all_stmts():
                rv = s.get("rv")
                if rv and rv["k"] == "agg" and rv.get("closure"):
                    t = norm_path(rv["closure"])
                    if t in prog.fns:
                        self._add(f.key, t, bb, "closure")
            for bb, o in query.all_operands(f):
                c = o.get("c")
                if c is not None and "fn" in c:
                    t = norm_path(c["fn"])
                    if t in prog.fns:
                        self._add(f.key, t, bb, "fnref")
                    elif t in self.impls_of:
                        for t2 in self.impls_of[t]:
                            if t2 in prog.fns:
                                self._add(f.key, t2, bb, "cha")

    # -- higher-order edges -----------------------------------------------------------------
    def add_callback_edges(self):
        """Resolution of calls through function values.
          * fn-pointer calls            -> every fn/closure coerced to a fn pointer (incl. promoted vtables)
          * `F: Fn*` generic calls      -> the closures / fn items bound to the generic parameters of the enclosing
                                           function at its call sites, propagated through generic forwarding
                                           (fixpoint over instantiation edges)
          * `dyn Fn*` virtual calls     -> every closure / fn item unsize-coerced into a `dyn Fn*`
        all filtered by arity."""
        prog = self.prog
        ptr_targets = set()
        dyn_targets = set()

        def scan(f, blocks, locals_):
            for b in blocks:
                for s in b["s"]:
                    rv = s.get("rv")
                    if rv and rv["k"] == "cast" and rv["kind"].startswith("PointerCoercion"):
                        fns = [norm_path(x) for x in rv.get("from_info", {}).get("fns", [])]
                        if "dyn " in rv["to"]:
                            dyn_targets.update(fns)
                        elif "fn(" in rv["to"]:
                            ptr_targets.update(fns)
        for f in prog.fns.values():
            scan(f, f.blocks, f.locals)
            for pr in f.raw.get("promoted", []):
                scan(f, pr["blocks"], pr["locals"])
        self.ptr_targets = {t for t in ptr_targets if t in prog.fns}
        self.dyn_targets = {t for t in dyn_targets if t in prog.fns}

        # candidate function values bound to the generics of each function
        cand = {k: set() for k in prog.fns}
        inherit = {k: set() for k in prog.fns}      # src -> dsts that inherit src's candidates
        for f in prog.fns.values():
            if f.kind == "closure" and f.parent in prog.fns:
                inherit[f.parent].add(f.key)
            for c in f.calls():
                if c.indirect or not c.path:
                    continue
                fns = set()
                has_param = False
                for ti in c.callee.get("targs", []):
                    for x in ti.get("fns", []):
                        fns.add(norm_path(x))
                    if ti.get("has_param"):
                        has_param = True
                if not fns and not has_param:
                    continue
                tgts = [b for b in self.succ[f.key] if any(bb == c.bb for bb, _ in self.edge_sites.get((f.key, b), []))]
                for g in tgts:
                    cand[g] |= fns
                    if has_param:
                        inherit[f.key].add(g)
        changed = True
        while changed:
            changed = False
            for a, ds in inherit.items():
                if not cand[a]:
                    continue
                for d in ds:
                    if not cand[a] <= cand[d]:
                        cand[d] |= cand[a]
                        changed = True
        self.cand = cand

        def arity_of(t):
            g = prog.fns[t]
            return g.argc - 1 if g.kind == "closure" else g.argc

        for f in prog.fns.values():
            for c in f.calls():
                if c.indirect:
                    n = len(c.args)
                    for t in self.ptr_targets:
                        if arity_of(t) == n:
                            self._add(f.key, t, c.bb, "fnptr")
                elif c.path and c.path.startswith("core::ops::function::Fn") and not (c.resolved and c.resolved in prog.fns):
                    targs = c.callee.get("targs", [])
                    ar = _tuple_arity(targs[1]["s"]) if len(targs) >= 2 else None
                    st = c.self_ty or {}
                    if c.virtual or "dyn" in st or "dyn " in st.get("s", ""):
                        pool = self.dyn_targets
                        kind = "dyn-callback"
                    else:
                        pool = {t for t in cand[f.key] if t in prog.fns}
                        # a concrete closure type as Self that rustc left unresolved
                        for x in st.get("fns", []):
                            if norm_path(x) in prog.fns:
                                pool.add(norm_path(x))
                        kind = "generic-callback"
                    for t in pool:
                        if ar is None or arity_of(t) == ar:
                            self._add(f.key, t, c.bb, kind)

    def _add(self, a, b, bb, kind):
        self.succ[a].add(b)
        self.edge_sites.setdefault((a, b), []).append((bb, kind))

    def reach(self, starts, removed_edges=(), stop=()):
        removed = set(removed_edges)
        stop = set(stop)
        seen = set(starts)
        st = list(starts)
        while st:
            a = st.pop()
            if a in stop:
                continue
            for b in self.succ.get(a, ()):
                if (a, b) in removed or b in seen:
                    continue
                seen.add(b)
                st.append(b)
        return seen

    def path(self, src, dst, removed_edges=(), first_hop_required=True):
        """a shortest call path src -> ... -> dst (src may equal dst: a cycle), or None"""
        removed = set(removed_edges)
        prev = {}
        st = [src]
        seen = set()
        frontier = [src]
        while frontier:
            nxt = []
            for a in frontier:
                for b in sorted(self.succ.get(a, ())):
                    if (a, b) in removed:
                        continue
                    if b == dst:
                        p = [b, a]
                        while p[-1] != src:
                            p.append(prev[p[-1]])
                        return list(reversed(p))
                    if b not in seen:
                        seen.add(b)
                        prev[b] = a
                        nxt.append(b)
            frontier = nxt
        return None

    def sccs(self, nodes=None):
        """Tarjan; returns list of SCCs (lists) that contain a cycle"""
        nodes = list(nodes) if nodes is not None else list(self.succ)
        nodeset = set(nodes)
        index = {}
        low = {}
        onst = set()
        st = []
        out = []
        counter = [0]
        for root in nodes:
            if root in index:
                continue
            work = [(root, iter(sorted(self.succ.get(root, ()))))]
            index[root] = low[root] = counter[0]
            counter[0] += 1
            st.append(root)
            onst.add(root)
            while work:
                v, it = work[-1]
                adv = False
                for w in it:
                    if w not in nodeset:
                        continue
                    if w not in index:
                        index[w] = low[w] = counter[0]
                        counter[0] += 1
                        st.append(w)
                        onst.add(w)
                        work.append((w, iter(sorted(self.succ.get(w, ())))))
                        adv = True
                        break
                    elif w in onst:
                        low[v] = min(low[v], index[w])
                if adv:
                    continue
                work.pop()
                if work:
                    u = work[-1][0]
                    low[u] = min(low[u], low[v])
                if low[v] == index[v]:
                    comp = []
                    while True:
                        w = st.pop()
                        onst.discard(w)
                        comp.append(w)
                        if w == v:
                            break
                    if len(comp) > 1 or v in self.succ.get(v, ()):
                        out.append(comp)
        return out


def _tuple_arity(ts):
    ts = ts.strip()
    if not (ts.startswith("(") and ts.endswith(")")):
        return None
    inner = ts[1:-1].strip()
    if not inner:
        return 0
    depth = 0
    n = 1
    for i, ch in enumerate(inner):
        if ch in "(<[":
            depth += 1
        elif ch in ")>]" and not (ch == ">" and i > 0 and inner[i - 1] == "-"):
            depth -= 1
        elif ch == "," and depth == 0:
            n += 1
    if inner.endswith(","):
        n -= 1
    return n


def get(prog, callbacks=True):
    g = getattr(prog, "_cg", None)
    if g is None:
        g = CallGraph(prog)
        if callbacks:
            g.add_callback_edges()
        prog._cg = g
    return g
