"""Result / Option flow: where does the Err (or None) branch of a call's result go?"""
from . import cfg, flow
from .facts import op_place

TRY_BRANCH = ("<core::result::Result<T, E> as core::ops::try_trait::Try>::branch",
              "<core::option::Option<T> as core::ops::try_trait::Try>::branch")


def _uses_of_local(fn, local):
    """(kind, bb, obj) for every read of `local` (whole or projected) in reachable blocks"""
    out = []
    for bb in sorted(fn.reachable):
        for i, s in enumerate(fn.stmts(bb)):
            if s["k"] != "assign":
                continue
            rv = s["rv"]
            for o in _rv_operands(rv):
                p = op_place(o)
                if p is not None and p["l"] == local:
                    out.append(("stmt", bb, (i, s)))
            if rv["k"] in ("ref", "discr", "rawptr") and rv["place"]["l"] == local:
                out.append(("stmt", bb, (i, s)))
        t = fn.term(bb)
        if t["k"] == "call":
            for a in t["args"]:
                p = op_place(a)
                if p is not None and p["l"] == local:
                    out.append(("call", bb, t))
        elif t["k"] == "switch":
            p = op_place(t["discr"])
            if p is not None and p["l"] == local:
                out.append(("switch", bb, t))
    return out


def _rv_operands(rv):
    k = rv["k"]
    if k in ("use", "cast", "repeat"):
        return [rv["op"]]
    if k == "bin":
        return [rv["a"], rv["b"]]
    if k == "un":
        return [rv["a"]]
    if k == "agg":
        return rv["ops"]
    return []


def uses(fn, local):
    u = getattr(fn, "_uses", None)
    if u is None:
        u = {}
        fn._uses = u
    if local not in u:
        u[local] = _uses_of_local(fn, local)
    return u[local]


class Split:
    """how the Result/Option stored in a local is consumed"""
    def __init__(self):
        self.switches = []      # (switch_bb, ok_targets(set), err_targets(set), via) ; via in 'match' | 'try'
        self.consumers = []     # Call names the value is passed to (unwrap, ok, map_err, ...)
        self.returned = False   # flows into _0 (returned as-is)
        self.other = []         # anything else


def result_split(fn, local, depth=0, seen=None):
    """Follow the value in `local` (a Result/Option/ControlFlow) forward through moves, `Try::branch`, and
    references to the discriminant switches that decide ok/err."""
    sp = Split()
    seen = seen if seen is not None else set()
    if local in seen or depth > 6:
        return sp
    seen.add(local)
    for kind, bb, obj in uses(fn, local):
        if kind == "stmt":
            i, s = obj
            rv = s["rv"]
            dst = s["place"]
            if rv["k"] == "discr" and "p" not in rv["place"]:
                # find the switch on this discriminant local
                dl = dst["l"]
                for k2, b2, o2 in uses(fn, dl):
                    if k2 == "switch":
                        t = o2
                        arms = dict((v, x) for v, x in t["arms"])
                        ok_t = {x for v, x in t["arms"] if v == "0"}
                        err_t = {x for v, x in t["arms"] if v == "1"}
                        # Option: 0 = None, 1 = Some ; caller interprets by type
                        other = t["otherwise"]
                        sp.switches.append((b2, ok_t, err_t, other, fn.locals[local].get("adt")))
                    elif k2 == "stmt":
                        pass
            elif rv["k"] in ("use",) and "p" not in dst and op_place(rv["op"]) is not None and "p" not in op_place(rv["op"]):
                if dst["l"] == 0:
                    sp.returned = True
                else:
                    sub = result_split(fn, dst["l"], depth + 1, seen)
                    _merge(sp, sub)
            elif rv["k"] == "ref" and "p" not in rv["place"] and "p" not in dst:
                sub = result_split(fn, dst["l"], depth + 1, seen)
                _merge(sp, sub)
            elif rv["k"] == "use" and op_place(rv["op"]) is not None and "p" in op_place(rv["op"]):
                # payload extraction `(x as Ok).0` — not a consumer of the error
                pass
            else:
                sp.other.append(("stmt", bb))
        elif kind == "call":
            c = [k for k in fn.calls() if k.bb == bb][0]
            if c.name in TRY_BRANCH or c.name.endswith("::Try>::branch"):
                if c.dest is not None and "p" not in c.dest:
                    sub = result_split(fn, c.dest["l"], depth + 1, seen)
                    _merge(sp, sub)
            else:
                sp.consumers.append(c)
        elif kind == "switch":
            pass
    return sp


def _merge(a, b):
    a.switches += b.switches
    a.consumers += b.consumers
    a.returned = a.returned or b.returned
    a.other += b.other


def ok_err_blocks(fn, call):
    """for a call returning Result: (set(ok successor blocks), set(err successor blocks)) from its match/`?`;
    None when the result is not split by a discriminant switch in this function"""
    if call.dest is None or "p" in call.dest:
        return None
    sp = result_split(fn, call.dest["l"])
    if not sp.switches:
        return None
    ok, err = set(), set()
    for (sb, ok_t, err_t, other, adt) in sp.switches:
        # `if let Err(e) = x` lists only arm 1: the Ok side is `otherwise` (and vice versa)
        ok |= ok_t if ok_t else ({other} if err_t else set())
        err |= err_t if err_t else ({other} if ok_t else set())
    return ok, err


# ---------------------------------------------------------------------------------------------
# disposition of a Result-valued call

PASS_THROUGH = (
    "core::result::Result::map_err", "core::result::Result::map", "core::result::Result::and_then",
    "core::result::Result::or_else", "core::result::Result::map_or_else",
    "<core::result::Result<T, E> as core::ops::try_trait::Try>::branch",
)
SWALLOW = (
    "core::result::Result::ok", "core::result::Result::unwrap_or", "core::result::Result::unwrap_or_default",
    "core::result::Result::unwrap_or_else", "core::result::Result::is_ok", "core::result::Result::is_err",
    "core::result::Result::err", "core::result::Result::map_or", "core::result::Result::or",
)
PANIC = ("core::result::Result::unwrap", "core::result::Result::expect")



def _carries(fn, op, call, depth=0):
    """the operand is (derived by calls from) the result of `call`"""
    if depth > 4:
        return False
    for o in flow.origins(fn, op):
        if o.kind == "call":
            if o.call.bb == call.bb:
                return True
            if any(("c" not in a) and _carries(fn, a, call, depth + 1) for a in o.call.args):
                return True
    return False


def err_arm_returns_err(fn, err_target, same_error_as=None):
    """from the Err arm of a match on a Result: every path to a return assigns an Err to the return place.  With
    `same_error_as` (a Call): the Err that is returned carries the error of that call - its payload, possibly handed
    through converting calls (`From::from`, `take_err(err)`), not some other error that happens to be around"""
    reach = cfg.reach_from(fn, err_target)
    rets = [b for b in fn.returns() if b in reach]
    if not rets:
        # diverges (panic) — not a propagation
        return False, "diverges"
    marks = set()
    bad = []
    for b in reach:
        for s in fn.stmts(b):
            if s["k"] == "assign" and s["place"] == {"l": 0}:
                rv = s["rv"]
                if rv["k"] == "agg" and rv.get("adt") == "core::result::Result" and rv.get("variant") == "Err":
                    if same_error_as is None or _carries(fn, rv["ops"][0], same_error_as):
                        marks.add(b)
                elif rv["k"] == "agg" and rv.get("adt") == "core::result::Result":
                    bad.append(b)
                elif rv["k"] == "use":
                    marks.add(b)      # a whole Result moved into the return place
        t = fn.term(b)
        if t["k"] == "call" and t.get("dest") == {"l": 0}:
            marks.add(b)              # from_residual / a propagating callee
    ok = cfg.paths_must_pass(fn, err_target, marks, rets)
    return ok, ("ok" if ok else "a path from the Err arm returns without an Err value")



def _or_else_keeps_failing(fn, c):
    """the closure given to Result::or_else only converts the error (every value it returns is an `Err(..)`)"""
    from .facts import norm_path
    if len(c.args) < 2:
        return False
    for o in flow.origins(fn, c.args[1]):
        if o.kind == "agg" and o.rv.get("closure"):
            cl = fn.prog.fns.get(norm_path(o.rv["closure"]))
            if cl is None:
                return False
            rets = flow.origins(cl, 0)
            return bool(rets) and all(r.kind == "agg" and r.rv.get("variant") == "Err" for r in rets)
    return False



def _is_drop_glue(fn, sb, target):
    """the switch at sb belongs to drop elaboration (`if discriminant(res) == Err { fields were moved out } else
    { drop(res) }` at the end of a scope): everything reachable from its arms only drops values, clears drop flags and
    returns"""
    for arm in set(fn.succ[sb]):
        for b in cfg.reach_from(fn, arm):
            t = fn.term(b)
            if t["k"] not in ("drop", "goto", "return", "resume", "unreachable", "switch"):
                return False
            for s_ in fn.stmts(b):
                if s_["k"] != "assign":
                    continue
                rv = s_["rv"]
                if rv["k"] == "use" and "c" in rv["op"]:
                    continue      # drop flag / unit
                if rv["k"] == "discr":
                    continue
                return False
    return True


def disposition(fn, call, _seen=None, _depth=0, same_error=False):
    """how the Result produced by `call` is consumed: list of (kind, detail, bb)
       kinds: 'returned' | 'propagated' | 'swallowed' | 'panics' | 'dropped' | 'matched-not-propagated' | 'escapes'"""
    out = []
    _seen = _seen if _seen is not None else set()
    if call.dest is None:
        return [("dropped", "no destination", call.bb)]
    if call.dest == {"l": 0}:
        return [("returned", "", call.bb)]
    if "p" in call.dest:
        return [("escapes", "stored into a place", call.bb)]
    if (call.bb) in _seen or _depth > 6:
        return []
    _seen.add(call.bb)
    sp = result_split(fn, call.dest["l"])
    if sp.returned:
        out.append(("returned", "", call.bb))
    for (sb, zero_t, one_t, other, adt) in sp.switches:
        # Result: 0 = Ok, 1 = Err ; ControlFlow (after Try::branch): 0 = Continue, 1 = Break
        errs = set(one_t)
        if not errs:
            errs = {other}
        for e in errs:
            if _is_drop_glue(fn, sb, e):
                continue          # drop elaboration re-reads the discriminant at scope end: not a decision of the code
            ok, why = err_arm_returns_err(fn, e, same_error_as=(call if same_error else None))
            out.append(("propagated" if ok else "matched-not-propagated", why, e))
    for c in sp.consumers:
        if c.name == "core::result::Result::or_else" and not _or_else_keeps_failing(fn, c):
            # `res.or_else(|_| second_attempt())`: the error is answered with another attempt, whose result replaces it
            out.append(("swallowed", c.name + " with a closure that can succeed", c.bb))
        elif c.name in PASS_THROUGH or c.name.endswith("::Try>::branch"):
            out += disposition(fn, c, _seen, _depth + 1, same_error=False)
        elif c.name in SWALLOW:
            out.append(("swallowed", c.name, c.bb))
        elif c.name in PANIC:
            out.append(("panics", c.name, c.bb))
        elif c.name.startswith("core::mem::drop") or c.name.startswith("core::mem::forget"):
            out.append(("dropped", c.name, c.bb))
        else:
            out.append(("escapes", "passed to " + c.name, c.bb))
    for k, b in sp.other:
        out.append(("escapes", "used by a statement", b))
    if not out:
        out.append(("dropped", "result never inspected", call.bb))
    return out
