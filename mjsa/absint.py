"""Finite-domain abstract interpretation of leaf functions: decision tables over enum discriminants.

The only tracked facts are the discriminants (or boolean values) of a few designated inputs; every other branch is
explored on all arms.  The result for one assignment of the inputs is the set of outcomes reachable
({'err', 'ok'} by default: whether a path assigns `Err(..)` to the return place)."""
import itertools

from . import flow
from .facts import op_place


def classify_switch(fn, sbb, classify):
    """key of the designated input this switch discriminates on (or None), and how labels map to domain values"""
    t = fn.term(sbb)
    cd = flow.cond_of(fn, sbb)
    if cd.kind == "discr":
        os_ = flow.origins(fn, {"cp": cd.place})
        for o in os_:
            k = classify(o, cd.adt)
            if k is not None:
                return k, "discr", cd.adt
    if cd.kind == "local" and cd.place is not None:
        for o in flow.origins(fn, {"cp": cd.place}):
            k = classify(o, "bool")
            if k is not None:
                return k, "bool", None
    return None, None, None


def decision_table(prog, fn, classify, domains, outcome=None):
    """domains: {key: [(label, discr-string or bool)]}; returns {assignment tuple (in key order): frozenset(outcomes)}"""
    keys = sorted(domains)
    table = {}
    sw = {}
    for bb in sorted(fn.reachable):
        if fn.term(bb)["k"] == "switch":
            sw[bb] = classify_switch(fn, bb, classify)
    err_blocks = set()
    for bb, i, s in fn.all_stmts():
        if s["k"] == "assign" and s["place"] == {"l": 0} and s["rv"]["k"] == "agg" and s["rv"].get("variant") == "Err":
            err_blocks.add(bb)
    for combo in itertools.product(*[domains[k] for k in keys]):
        assign = {k: v for k, v in zip(keys, combo)}
        outs = set()
        seen = set()
        stack = [(0, False)]
        while stack:
            bb, erred = stack.pop()
            if (bb, erred) in seen:
                continue
            seen.add((bb, erred))
            erred = erred or bb in err_blocks
            t = fn.term(bb)
            if t["k"] == "return":
                outs.add("err" if erred else "ok")
                continue
            if t["k"] == "switch":
                key, kind, adt = sw.get(bb, (None, None, None))
                if key is not None and key in assign:
                    label, val = assign[key]
                    if kind == "bool":
                        want = "0" if not val else None
                        tgt = None
                        for v, x in t["arms"]:
                            if (v == "0") == (not val):
                                tgt = x
                        if tgt is None:
                            tgt = t["otherwise"]
                        stack.append((tgt, erred))
                        continue
                    else:
                        # val is a set of discriminant strings this abstract value may have
                        vals = val if isinstance(val, (set, frozenset, list, tuple)) else [val]
                        tgts = set()
                        listed = {v: x for v, x in t["arms"]}
                        for dv in vals:
                            tgts.add(listed.get(dv, t["otherwise"]))
                        for x in tgts:
                            stack.append((x, erred))
                        continue
            succ = fn.succ[bb]
            if not succ:
                outs.add("diverge")
            for x in succ:
                stack.append((x, erred))
        table[tuple(assign[k][0] for k in keys)] = frozenset(outs)
    return keys, table


def discr_of(prog, adt, variant):
    for v in prog.adt(adt)["variants"]:
        if v["name"] == variant:
            return v["discr"]
    raise KeyError(variant)
