"""Finite-domain abstract interpretation of leaf functions: decision tables over enum discriminants.

The only tracked facts are the discriminants (or boolean values) of a few designated inputs; every other branch is
explored on all arms.  The result for one assignment of the inputs is the set of outcomes reachable
({'err', 'ok'} by default: whether a path assigns `Err(..)` to the return place)."""
import itertools

from . import flow
from .facts import op_place


def classify_switch(fn, sbb, classify):
    """key of the designated input this switch discriminates on (or None), and how labels map to domain values"""
    t = fn.term(sbb)
    cd = flow.cond_of(fn, sbb)
    if cd.kind == "discr":
        os_ = flow.origins(fn, {"cp": cd.place})
        for o in os_:
            k = classify(o, cd.adt)
            if k is not None:
                return k, "discr", cd.adt
    if cd.kind == "local" and cd.place is not None:
        for o in flow.origins(fn, {"cp": cd.place}):
            k = classify(o, "bool")
            if k is not None:
                return k, "bool", None
    return None, None, None


def decision_table(prog, fn, classify, domains, outcome=None):
    """domains: {key: [(label, discr-string or bool)]}; returns {assignment tuple (in key order): frozenset(outcomes)}"""
    keys = sorted(domains)
    table = {}
    sw = {}
    for bb in sorted(fn.reachable):
        if fn.term(bb)["k"] == "switch":
            sw[bb] = classify_switch(fn, bb, classify)
    err_blocks = set()
    for bb, i, s in fn.all_stmts():
        if s["k"] == "assign" and s["place"] == {"l": 0} and s["rv"]["k"] == "agg" and s["rv"].get("variant") == "Err":
            err_blocks.add(bb)
    calls_by_bb = {c.bb: c for c in fn.calls()}
    for combo in itertools.product(*[domains[k] for k in keys]):
        assign = {k: v for k, v in zip(keys, combo)}
        outs = set()
        seen = set()
        stack = [(0, False, ())]
        while stack:
            bb, erred, envt = stack.pop()
            if (bb, erred, envt) in seen:
                continue
            seen.add((bb, erred, envt))
            erred = erred or bb in err_blocks
            # boolean verdicts computed on the way (`let refuse = ..; if refuse { .. }`, a helper's return value after
            # inlining): locals that hold a known constant on this path
            env = dict(envt)
            for s_ in fn.stmts(bb):
                if s_["k"] != "assign":
                    continue
                l_ = s_["place"]["l"]
                if "p" in s_["place"]:
                    env.pop(l_, None)
                    continue
                rv_ = s_["rv"]
                val_ = None
                if rv_["k"] == "agg" and rv_.get("adt") == "core::result::Result" and rv_.get("variant") in ("Ok", "Err"):
                    val_ = rv_["variant"]
                elif rv_["k"] == "use":
                    c_ = rv_["op"].get("c")
                    if c_ is not None and "int" in c_:
                        val_ = str(c_["int"])
                    else:
                        p_ = op_place(rv_["op"])
                        if p_ is not None and "p" not in p_ and p_["l"] in env:
                            val_ = env[p_["l"]]
                if val_ is None:
                    env.pop(l_, None)
                else:
                    env[l_] = val_
            t = fn.term(bb)
            if t["k"] == "call" and t.get("dest") is not None:
                env.pop(t["dest"]["l"], None)
                # `mode == Enum::Variant` on a designated input: its verdict under this assignment
                c_ = calls_by_bb.get(bb)
                if c_ is not None and c_.name.endswith(("PartialEq>::eq", "PartialEq>::ne", "PartialEq::eq", "PartialEq::ne")) and "p" not in t["dest"]:
                    ee_ = flow.enum_eq(fn, flow.Cond("call", bb, call=c_))
                    if ee_ is not None:
                        adt_ = (c_.self_ty or {}).get("adt")
                        for o_ in ee_[1]:
                            k_ = classify(o_, adt_)
                            if k_ is not None and k_ in assign:
                                same = (assign[k_][0] == ee_[0])
                                env[t["dest"]["l"]] = "1" if (same != c_.name.endswith("::ne")) else "0"
            envt = tuple(sorted(env.items()))
            if t["k"] == "return":
                # the variant of the returned Result when the path tells (a verdict built in a helper read in place and
                # handed back through copies), else whether an `Err(..)` was assigned to the return place on the way
                if env.get(0) in ("Ok", "Err"):
                    outs.add("err" if env[0] == "Err" else "ok")
                else:
                    outs.add("err" if erred else "ok")
                continue
            if t["k"] == "switch":
                dp_ = op_place(t["discr"])
                if dp_ is not None and "p" not in dp_ and dp_["l"] in env:
                    listed_ = {v: x for v, x in t["arms"]}
                    stack.append((listed_.get(env[dp_["l"]], t["otherwise"]), erred, envt))
                    continue
                key, kind, adt = sw.get(bb, (None, None, None))
                if key is not None and key in assign:
                    label, val = assign[key]
                    if kind == "bool":
                        want = "0" if not val else None
                        tgt = None
                        for v, x in t["arms"]:
                            if (v == "0") == (not val):
                                tgt = x
                        if tgt is None:
                            tgt = t["otherwise"]
                        stack.append((tgt, erred, envt))
                        continue
                    else:
                        # val is a set of discriminant strings this abstract value may have
                        vals = val if isinstance(val, (set, frozenset, list, tuple)) else [val]
                        tgts = set()
                        listed = {v: x for v, x in t["arms"]}
                        for dv in vals:
                            tgts.add(listed.get(dv, t["otherwise"]))
                        for x in tgts:
                            stack.append((x, erred, envt))
                        continue
            succ = fn.succ[bb]
            if not succ:
                outs.add("diverge")
            for x in succ:
                stack.append((x, erred, envt))
        table[tuple(assign[k][0] for k in keys)] = frozenset(outs)
    return keys, table


def discr_of(prog, adt, variant):
    for v in prog.adt(adt)["variants"]:
        if v["name"] == variant:
            return v["discr"]
    raise KeyError(variant)


# ---------------------------------------------------------------------------------------------
# path-sensitive exploration with abstract enum values

STD_DISCR = {"None": "0", "Some": "1", "Ok": "0", "Err": "1", "Continue": "0", "Break": "1",
             "Less": "-1", "Equal": "0", "Greater": "1"}
STD_ENUMS = ("core::option::Option", "core::result::Result", "core::ops::control_flow::ControlFlow")


def std_models(name, argvals):
    """variant-set transfer functions of a few std combinators; argvals: list of abstract values (frozenset or None)"""
    a0 = argvals[0] if argvals else None
    if a0 is None:
        return None
    m = None
    if name == "core::result::Result::ok":
        m = {"Ok": "Some", "Err": "None"}
    elif name in ("core::option::Option::ok_or_else", "core::option::Option::ok_or"):
        m = {"Some": "Ok", "None": "Err"}
    elif name.endswith("Try>::branch"):
        m = {"Some": "Continue", "None": "Break", "Ok": "Continue", "Err": "Break"}
    elif name in ("core::option::Option::map", "core::result::Result::map", "core::result::Result::map_err",
                  "core::option::Option::as_ref", "core::option::Option::as_mut", "core::result::Result::as_ref",
                  "core::option::Option::cloned", "core::option::Option::copied"):
        m = {"Some": "Some", "None": "None", "Ok": "Ok", "Err": "Err"}
    if m is None:
        return None
    return frozenset(m[v] for v in a0 if v in m) or None


def explore(prog, fn, assign, classify, models=None, watch=(), max_paths=20000):
    """Enumerate paths of fn under the abstract assignment.
    assign: {key: set of discriminant strings}
    classify(origin, adt) -> key or None        (for `discriminant(place)` of designated inputs)
    models(call, argvals, argkeys) -> frozenset(variant names) or None     (user callee summaries)
    watch: callee names whose reachability (with abstract argument values) is recorded.
    Returns (set of abstract return values, list of (callee, tuple(argvals)) reached)."""
    calls = {c.bb: c for c in fn.calls()}
    rets = set()
    watched = set()
    seen = set()
    stack = [(0, ())]
    npaths = 0

    def aval(env, op):
        p = op_place(op)
        if p is None or "p" in p:
            return None
        return env.get(p["l"])

    def key_of(op):
        for o in flow.origins(fn, op, through_calls=lambda k: 0 if k.name.endswith("::clone") or k.name.endswith("::deref") else None):
            k = classify(o, None)
            if k is None and o.kind == "arg" and not o.proj:
                # the whole designated value (not its `.0` field) is passed on
                k = classify(flow.Origin("arg", arg=o.arg, proj=("0",)), None)
            if k is not None:
                return k
        return None

    while stack:
        bb, envt = stack.pop()
        if (bb, envt) in seen:
            continue
        seen.add((bb, envt))
        npaths += 1
        if npaths > max_paths:
            rets.add("?budget")
            break
        env = dict(envt)
        for s in fn.stmts(bb):
            if s["k"] != "assign" or "p" in s["place"]:
                if s["k"] == "assign" and s["place"]["l"] in env and "p" in s["place"]:
                    env.pop(s["place"]["l"], None)
                continue
            l = s["place"]["l"]
            rv = s["rv"]
            val = None
            if rv["k"] == "agg" and rv.get("agg") == "adt" and (rv.get("adt") in STD_ENUMS or rv.get("adt") == "core::cmp::Ordering"):
                val = ("V", frozenset([rv["variant"]]))
            elif rv["k"] == "agg" and rv.get("agg") == "tuple":
                comps = tuple(aval(env, o) for o in rv["ops"])
                if any(c is not None for c in comps):
                    val = ("T", comps)
            elif rv["k"] == "ref" and rv["place"].get("p", []) in ([], ["*"]) and rv["place"]["l"] in env:
                val = env[rv["place"]["l"]]
            elif rv["k"] == "use":
                p = op_place(rv["op"])
                if p is not None and "p" not in p and p["l"] in env:
                    val = env[p["l"]]
                elif p is not None and p.get("p") == ["*"] and p["l"] in env:
                    val = env[p["l"]]
                elif "c" in rv["op"] and "int" in rv["op"]["c"] and rv["op"]["c"].get("ty") == "bool":
                    val = ("B", frozenset([rv["op"]["c"]["int"]]))
            elif rv["k"] == "discr":
                pl = rv["place"]
                base = env.get(pl["l"])
                pr = pl.get("p", [])
                if base is not None and base[0] == "T" and len(pr) == 1 and isinstance(pr[0], dict) and "f" in pr[0] \
                        and pr[0]["f"] < len(base[1]) and base[1][pr[0]["f"]] is not None and base[1][pr[0]["f"]][0] == "V":
                    val = ("D", frozenset(STD_DISCR[v] for v in base[1][pr[0]["f"]][1] if v in STD_DISCR))
                elif "p" not in pl and pl["l"] in env and env[pl["l"]][0] == "V":
                    val = ("D", frozenset(STD_DISCR[v] for v in env[pl["l"]][1] if v in STD_DISCR))
                else:
                    for o in flow.origins(fn, {"cp": pl}):
                        k = classify(o, rv.get("adt"))
                        if k is not None and k in assign:
                            val = ("D", frozenset(assign[k]))
            if val is not None:
                env[l] = val
            else:
                env.pop(l, None)
        t = fn.term(bb)
        k = t["k"]
        if k == "return":
            r = env.get(0)
            rets.add(r[1] if r else None)
            continue
        if k == "call":
            c = calls.get(bb)
            if c is not None:
                argvals = []
                for a in c.args:
                    v = aval(env, a)
                    argvals.append(v[1] if v and v[0] in ("V", "K") else None)
                if c.name in watch:
                    watched.add((c.name, tuple(argvals)))
                res = std_models(c.name, argvals)
                if res is None and c.name.endswith(("PartialEq>::eq", "PartialEq>::ne", "PartialEq::eq", "PartialEq::ne")) and len(c.args) == 2:
                    # `x == Enum::Variant` / `x != Enum::Variant` on a tracked variant set
                    ee_ = flow.enum_eq(fn, flow.Cond("call", bb, call=c))
                    if ee_ is not None:
                        tracked = [a_ for a_ in argvals if a_ is not None]
                        if len(tracked) == 1:
                            av_ = tracked[0]
                            truth = set()
                            if ee_[0] in av_:
                                truth.add("1")
                            if av_ - {ee_[0]}:
                                truth.add("0")
                            if c.name.endswith("::ne"):
                                truth = {"1" if x == "0" else "0" for x in truth}
                            res = ("B", frozenset(truth))
                if res is None and models is not None:
                    res = models(c, argvals, [key_of(a) for a in c.args], assign)
                if c.dest is not None and "p" not in c.dest:
                    if res is not None:
                        tagk = "V"
                        if isinstance(res, tuple) and res and res[0] in ("K", "B"):
                            tagk, res = res[0], res[1]
                        env[c.dest["l"]] = (tagk, frozenset(res))
                    else:
                        env.pop(c.dest["l"], None)
            if "t" in t:
                stack.append((t["t"], tuple(sorted(env.items()))))
            continue
        if k == "switch":
            p = op_place(t["discr"])
            v = env.get(p["l"]) if p is not None and "p" not in p else None
            tg = None
            if v is not None and v[0] in ("D", "B"):
                listed = {x: y for x, y in t["arms"]}
                tg = set()
                for dv in v[1]:
                    if dv == "-1" and "-1" not in listed and "255" in listed:
                        dv = "255"      # i8 discriminant printed unsigned
                    tg.add(listed.get(dv, t["otherwise"]))
            if tg is None:
                tg = set(fn.succ[bb])
            for x in tg:
                stack.append((x, tuple(sorted(env.items()))))
            continue
        for x in fn.succ[bb]:
            stack.append((x, tuple(sorted(env.items()))))
    return rets, watched
