"""Operand-stack balance of the code generator (C05.B11).

Every statement the generator compiles must leave the interpreter's operand stack as it found it: a value that is pushed
and never consumed (`{% do f() %}` without a `DiscardTop`) stays on the stack of the running instructions; inside a
recursive loop or an expression that is being evaluated it becomes an operand of the *enclosing* expression.

The analysis walks every CFG path of every `CodeGenerator` method with a symbolic depth

        depth = constant + sum(coefficient * len(collection))

where a collection is a payload field of the AST node being compiled (identified by where it comes from, not by name).
  * `add(Instruction::V(..))` changes the depth by the effect of V on the fall-through path (table EFFECT; for the
    variable-arity instructions the payload must be a constant or `len()` of a collection);
  * a natural loop that iterates a collection X and changes the depth by d per iteration contributes d * len(X);
  * `compile_expr` (and the helpers its arms delegate to) is +1, `compile_assignment` is -1: axioms of the expression
    level, verified where the helper's own walk is decidable;
  * other generator methods are summarised bottom-up (recursion: assumed neutral, then verified).
States must agree where paths meet.  The fall-through effects are what the interpreter's handlers do; for the fixed-arity
instructions that is re-derived from the handler's MIR (pops and pushes on every non-failing path through the arm).
"""
from . import cfg, flow, arms
from .facts import op_place, const_int, norm_path

GEN = "minijinja::compiler::codegen::CodeGenerator"
INSTR = "minijinja::compiler::instructions::Instruction"
ADD = (GEN + "::add", GEN + "::add_with_span", "minijinja::compiler::instructions::Instructions::add",
       "minijinja::compiler::instructions::Instructions::add_with_line", "minijinja::compiler::instructions::Instructions::add_with_span")
POISON = "?"
RESYNC = "resync"
# the one generator method that pushes a run-time determined number of operands and *returns* that number (plus the
# operands its caller already pushed): its effect is a symbol of the call site, its result the same symbol
CALL_ARGS = GEN + "::compile_call_args"

# fall-through effect on the operand stack; "n": the variant's count payload (position), applied as coef * n + const
EFFECT = {
    "EmitRaw": 0, "StoreLocal": -1, "Lookup": 1, "GetAttr": 0, "SetAttr": -2, "GetItem": -1, "Slice": -3, "LoadConst": 1,
    "BuildMap": ("n", 0, -2, 1), "BuildKwargs": ("n", 0, -2, 1), "MergeKwargs": ("n", 0, -1, 1),
    "BuildList": ("n", 0, -1, 1), "BuildTuple": ("n", 0, -1, 1), "UnpackList": ("n", 0, 1, -1),
    "Add": -1, "Sub": -1, "Mul": -1, "Div": -1, "IntDiv": -1, "Rem": -1, "Pow": -1, "Neg": 0, "Eq": -1, "Ne": -1, "Gt": -1,
    "Gte": -1, "Lt": -1, "Lte": -1, "Not": 0, "StringConcat": -1, "In": -1, "CompareAndPreserve": 0,
    "ApplyFilter": ("n", 1, -1, 1), "PerformTest": ("n", 1, -1, 1), "Emit": -1, "PushLoop": -1, "PushWith": 0,
    "Iterate": 1, "PushDidNotIterate": 1, "PopFrame": 0, "PopLoopFrame": 0, "Jump": 0, "JumpIfFalse": -1,
    "JumpIfFalseOrPop": -1, "JumpIfTrueOrPop": -1, "PushAutoEscape": -1, "PopAutoEscape": 0, "BeginCapture": 0,
    "EndCapture": 1, "CallFunction": ("n", 1, -1, 1), "CallMethod": ("n", 1, -1, 1), "CallObject": ("n", 0, -1, 1),
    "DupTop": 1, "DiscardTop": -1, "FastSuper": 0, "FastRecurse": -1, "Swap": 0, "CallBlock": 0, "LoadBlocks": -1,
    "Include": -1, "ExportLocals": 0, "BuildMacro": -1, "Return": 0, "IsUndefined": 0, "Enclose": 0, "GetClosure": 1,
}
EXPR_AXIOM = {GEN + "::compile_expr": 1, GEN + "::compile_assignment": -1}
OPAQUE_ZERO = (GEN + "::close_scopes_up_to_loop", GEN + "::set_line", GEN + "::set_line_from_span", GEN + "::push_span",
               GEN + "::pop_span", GEN + "::next_instruction")


def add(a, b):
    if a == POISON or b == POISON:
        return POISON
    out = dict(a)
    for k, v in b:
        out[k] = out.get(k, 0) + v
    return tuple(sorted((k, v) for k, v in out.items() if v != 0))


def scale(a, k):
    if a == POISON:
        return POISON
    return tuple(sorted((s, v * k) for s, v in a if v * k != 0))


def const(n):
    return (("", n),) if n else ()


def show(a):
    if a == POISON:
        return "?"
    if not a:
        return "0"
    return " ".join(("%+d" % v) if s == "" else ("%+d*len(%s)" % (v, s)) for s, v in a)


class Analysis:
    def __init__(self, prog, report):
        self.prog = prog
        self.report = report
        self.summaries = {}
        self.problems = {}
        self._params, self._facts = {}, {}
        self.prev = {}
        self.assumed = set()
        self.sites = 0
        # expression helpers: what compile_expr's arms delegate to (called from compile_expr on the generator itself)
        self.expr_helpers = dict(EXPR_AXIOM)
        ce = prog.fns.get(GEN + "::compile_expr")
        if ce is not None:
            for c in ce.calls():
                t = c.resolved or c.path
                if t and t.startswith(GEN + "::") and t.split("::")[-1].startswith("compile_") and t not in self.expr_helpers \
                        and prog.has_fn(t) and t != CALL_ARGS:
                    self.expr_helpers[t] = 1

    def run(self, paths):
        """summaries of all generator methods, iterated over the recursion (compile_stmt <-> compile_macro_expression ..)"""
        for _ in range(5):
            self.summaries, self.problems = {}, {}
            for p_ in paths:
                self.summary(p_)
            cur = {k: v for k, v in self.summaries.items()}
            if cur == self.prev:
                break
            self.prev = cur
        return self.summaries

    # ---- symbols ------------------------------------------------------------------------
    def coll_key(self, f, op):
        """identity of an AST collection an operand refers to: the payload path it is read from"""
        thru = lambda k: 0 if k.name.split("::")[-1] in ("iter", "into_iter", "rev", "as_slice", "deref", "as_ref", "iter_mut",
                                                          "enumerate", "by_ref", "clone", "borrow") else None
        ks = set()
        for o in flow.origins(f, op, through_calls=thru):
            if o.kind == "arg" and o.proj:
                ks.add("%d:%s" % (o.arg, ".".join(p for p in o.proj if p != "*")))
            else:
                return None
        return ks.pop() if len(ks) == 1 else None

    def count_term(self, f, op):
        """symbolic value of a count operand: a constant or len() of a collection (behind Some / casts / try_from)"""
        c = const_int(op)
        if c is not None:
            return const(c)
        thru = lambda k: 0 if k.name.split("::")[-1] in ("try_from", "try_into", "unwrap", "from", "into", "ok", "expect") else None
        terms = set()
        for o in flow.origins(f, op, through_calls=thru):
            if o.kind == "const":
                v = const_int({"c": o.const})
                terms.add(const(v) if v is not None else POISON)
            elif o.kind == "call" and (o.call.resolved or o.call.path) == CALL_ARGS and len(o.call.args) >= 3:
                extra = const_int(o.call.args[2])
                terms.add(add((("args@%d" % o.call.bb, 1),), const(extra)) if extra is not None else POISON)
            elif o.kind == "call" and o.call.name.endswith("::len") and o.call.args:
                k = self.coll_key(f, o.call.args[0])
                terms.add(((k, 1),) if k else POISON)
            elif o.kind == "agg" and o.rv.get("variant") == "Some" and o.rv["ops"]:
                terms.add(self.count_term(f, o.rv["ops"][0]))
            elif o.kind == "agg" and o.rv.get("variant") == "None":
                terms.add(POISON)          # a dynamic count (splat): decided at run time
            else:
                terms.add(POISON)
        return terms.pop() if len(terms) == 1 else POISON

    # ---- effects ------------------------------------------------------------------------
    def instr_effect(self, f, c):
        vs = set()
        aggs = []
        for o in flow.origins(f, c.args[1]):
            if o.kind == "agg" and o.rv.get("adt") == INSTR:
                vs.add(o.rv["variant"])
                aggs.append(o)
            else:
                vs.add("?")
        if len(vs) != 1 or "?" in vs:
            effs = {repr(EFFECT.get(v)) for v in vs}
            if len(effs) == 1 and "?" not in vs and not isinstance(EFFECT.get(next(iter(vs))), tuple):
                return const(EFFECT[next(iter(vs))])
            return POISON
        v = next(iter(vs))
        if v == "FastRecurse":
            return ("strip-args",)
        if v == "Return":
            return ("end-of-body",)
        e = EFFECT.get(v)
        if e is None:
            return POISON
        if not isinstance(e, tuple):
            return const(e)
        _, pos, coef, k0 = e
        agg = aggs[0]
        if pos >= len(agg.rv["ops"]):
            return POISON
        if v in ("BuildList", "BuildTuple") and any(o.kind == "agg" and o.rv.get("variant") == "None"
                                                    for o in flow.origins(f, agg.rv["ops"][pos])):
            # the run-time counted form: a counter (`LoadConst(0)`) was pushed, items piled up above it, the instruction
            # takes the counter and that many items: the depth is the one at the counter's push, plus the list
            return RESYNC
        n = self.count_term(f, agg.rv["ops"][pos])
        return add(scale(n, coef), const(k0))

    def call_effect(self, f, c):
        name = c.name
        if name in ADD:
            self.sites += 1
            return self.instr_effect(f, c)
        t = c.resolved or c.path
        if t in OPAQUE_ZERO:
            return ()
        if t == CALL_ARGS:
            return (("args@%d" % c.bb, 1),)
        if t in self.expr_helpers:
            if t == GEN + "::compile_expr" and len(c.args) > 1 and any(
                    "filter" in o.proj for o in flow.origins(f, c.args[1])):
                # the filter of a `{% filter %}` / `{% set x | f %}` block is a Filter node without an operand of its own:
                # it transforms the captured value that is already on the stack
                return ()
            return const(self.expr_helpers[t])
        if t and t.startswith(GEN + "::") and self.prog.has_fn(t) and c.args and self.is_self(f, c.args[0]):
            g = self.prog.fn(t)
            bparams = []
            for i_ in range(2, g.argc + 1):
                if g.locals[i_].get("prim") == "bool" and i_ - 1 < len(c.args):
                    v_ = self.truth(f, c.args[i_ - 1], self._params, self._facts)
                    if v_ is not None:
                        bparams.append((i_, v_))
            s = self.summary(t, tuple(bparams))
            if s is None:
                # recursion: the value the previous round found for it (neutral in the first round), iterated to a fixpoint
                self.assumed.add(t)
                k_ = (t, tuple(bparams)) if bparams else t
                return self.prev.get(k_, ())
            return s
        return ()

    def is_counter_push(self, f, c):
        """`add(Instruction::LoadConst(Value::from(0usize)))`: the counter of a run-time counted list"""
        for o in flow.origins(f, c.args[1]):
            if o.kind == "agg" and o.rv.get("adt") == INSTR and o.rv.get("variant") == "LoadConst" and o.rv["ops"]:
                for q in flow.origins(f, o.rv["ops"][0]):
                    if q.kind == "call" and q.call.args and const_int(q.call.args[0]) == 0:
                        return True
        return False

    def variant_of(self, f, c):
        vs = {o.rv["variant"] for o in flow.origins(f, c.args[1]) if o.kind == "agg" and o.rv.get("adt") == INSTR}
        return vs.pop() if len(vs) == 1 else None

    def is_self(self, f, op):
        return any(o.kind == "arg" and o.arg == 1 and not any(p == "instructions" for p in o.proj) for o in flow.origins(f, op))

    # ---- per function ---------------------------------------------------------------------
    def summary(self, path, params=()):
        key = (path, tuple(params)) if params else path
        if key in self.summaries:
            return self.summaries[key]
        self.summaries[key] = None
        f = self.prog.fn(path)
        # correlated conditions: the same emptiness test decides an argument here and a branch there
        # (`end_for_loop(!else_body.is_empty())` .. `if !else_body.is_empty() { start_if() .. }`): the walk is split on it
        keys = sorted({self.coll_key(f, c.args[0]) for c in f.calls() if c.name.endswith("::is_empty") and c.args} - {None})[:2]
        outs = []
        probs = []
        import itertools
        for vals in itertools.product((True, False), repeat=len(keys)):
            res = self.walk(f, dict(params), dict(zip(keys, vals)))
            outs.append(res)
            probs += self.problems.get(f.path, [])
        self.problems[f.path] = probs
        uniq = {o for o in outs}
        res = outs[0] if len(uniq) == 1 else (POISON if POISON in uniq else outs[0])
        if len(uniq) > 1 and POISON not in uniq:
            self.problems[f.path].append(("cases", sorted(uniq, key=str)[0], sorted(uniq, key=str)[-1]))
        self.summaries[key] = res
        return res

    def truth(self, f, op, params, facts, depth=0):
        """value of a bool operand under the assumed parameter values / emptiness facts, or None"""
        c = const_int(op)
        if c is not None:
            return bool(c)
        pl = op_place(op)
        if pl is None or "p" in pl or depth > 6:
            return None
        vals = set()
        for d in flow.whole_defs(f, pl["l"]):
            if d.kind == "arg":
                vals.add(params.get(pl["l"]))
            elif d.kind == "stmt" and d.rv["k"] == "un" and d.rv.get("op") == "Not":
                v = self.truth(f, d.rv["a"], params, facts, depth + 1)
                vals.add(None if v is None else (not v))
            elif d.kind == "stmt" and d.rv["k"] == "use":
                vals.add(self.truth(f, d.rv["op"], params, facts, depth + 1))
            elif d.kind in ("call", "partcall") and d.call.name.endswith("::is_empty") and d.call.args:
                vals.add(facts.get(self.coll_key(f, d.call.args[0])))
            else:
                vals.add(None)
        return vals.pop() if len(vals) == 1 else None

    def walk(self, f, params=None, facts=None):
        params = params or {}
        facts = facts or {}
        self._params, self._facts = params, facts
        calls = {c.bb: c for c in f.calls()}
        loops = cfg.natural_loops(f)
        back = set(cfg.back_edges(f))
        rets = set(f.returns())
        live = {b for b in f.reachable if rets & cfg.reach_from(f, b)}
        header_of = {}
        for h, body in loops:
            header_of[h] = set(body) | {h}
        delta = {h: () for h in header_of}
        sym = {}
        for h, body in header_of.items():
            ks = set()
            for c in f.calls():
                if c.bb in body and c.name.endswith("::next") and c.args:
                    k = self.coll_key(f, c.args[0])
                    if k:
                        ks.add(k)
            sym[h] = ks.pop() if len(ks) == 1 else None
        final = None
        problems = []
        for _ in range(4):
            problems = []
            state_in = {0: ()}
            edge_out = {}
            work = [0]
            new_delta = dict(delta)
            exits = []
            while work:
                bb = work.pop(0)
                st = state_in[bb]
                c = calls.get(bb)
                if c is not None:
                    eff = self.call_effect(f, c)
                    if eff == ("strip-args",):
                        st = POISON if st == POISON else tuple((k, v) for k, v in st if not k.startswith("args@"))
                    elif eff == ("end-of-body",):
                        # the instructions between `Jump(!0)` and `Return` are the body of a macro: a separate evaluation
                        # with an operand stack of its own; the enclosing code goes on at the depth it had at the Jump
                        base = None
                        doms = cfg.dominators(f).get(bb, ())
                        for k0 in sorted(calls.values(), key=lambda q: -len(cfg.dominators(f).get(q.bb, ()))):
                            if k0.bb in doms and k0.bb != bb and k0.name in ADD and self.variant_of(f, k0) == "Jump" and k0.bb in state_in:
                                base = state_in[k0.bb]
                                break
                        st = POISON if base is None else base
                    elif eff == RESYNC:
                        base = None
                        doms = cfg.dominators(f).get(bb, ())
                        for k0 in sorted(calls.values(), key=lambda q: -len(cfg.dominators(f).get(q.bb, ()))):
                            if k0.bb in doms and k0.bb != bb and k0.name in ADD and self.is_counter_push(f, k0) and k0.bb in state_in:
                                base = state_in[k0.bb]
                                break
                        st = POISON if base is None or base == POISON else add(base, const(1))
                    else:
                        st = add(st, eff)
                if f.term(bb)["k"] == "return":
                    exits.append((bb, st))
                succs = f.succ[bb]
                t_ = f.term(bb)
                if t_["k"] == "switch" and t_.get("ty") == "bool":
                    tv = self.truth(f, t_["discr"], params, facts)
                    if tv is not None:
                        listed = {v: x for v, x in t_["arms"]}
                        succs = [listed.get("1" if tv else "0", t_["otherwise"])] if ("1" if tv else "0") in listed else [t_["otherwise"]]
                for s_ in succs:
                    if (bb, s_) in back:
                        hd = state_in.get(s_)
                        if hd is not None:
                            d = POISON if (st == POISON or hd == POISON) else add(st, scale(hd, -1))
                            new_delta[s_] = d
                        continue
                    out = st
                    # leaving loops: add the contribution of the iterations
                    for h, body in header_of.items():
                        if bb in body and s_ not in body:
                            d = delta.get(h, ())
                            if d == POISON:
                                out = POISON
                            elif d:
                                out = add(out, scale(d, 1) if False else self._times(d, sym.get(h)))
                    edge_out[(bb, s_)] = out
                    if s_ in state_in:
                        if state_in[s_] != out and s_ in live and POISON not in (state_in[s_], out):
                            problems.append((s_, state_in[s_], out))
                        elif out == POISON or state_in[s_] == POISON:
                            if state_in[s_] != POISON:
                                state_in[s_] = POISON
                                work.append(s_)
                    else:
                        state_in[s_] = out
                        work.append(s_)
            if new_delta == delta:
                final = exits
                break
            delta = new_delta
            final = exits
        self.problems[f.path] = problems
        self.states = getattr(self, "states", {})
        self.states[f.path] = state_in
        self.edges = getattr(self, "edges", {})
        self.edges[f.path] = edge_out
        outs = {st for _, st in (final or [])}
        if not outs:
            return ()
        if len(outs) > 1:
            if POISON in outs:
                return POISON
            self.problems[f.path].append(("exits", sorted(outs, key=str)[0], sorted(outs, key=str)[-1]))
            return sorted(outs, key=str)[0]
        return next(iter(outs))

    def _times(self, d, s):
        """d per iteration times len(s): only a constant d can be multiplied by a symbol"""
        if s is None or any(k != "" for k, _ in d):
            return POISON
        return tuple(sorted((s, v) for _, v in d))


def handler_effects(prog):
    """{variant: set of net effects (pushes - pops) over the non-failing paths of the interpreter's arm}; a variant whose arm
    has a loop or touches the stack through other calls is left out (variable arity)"""
    ev = prog.fns.get("minijinja::vm::Executor::eval_impl")
    if ev is None:
        return {}
    sw = arms.enum_switches(prog, ev, INSTR)
    if not sw:
        return {}
    regs = arms.arm_regions(prog, ev, sw[0][0], INSTR)
    entries = arms.variant_targets(prog, ev, sw[0][0], INSTR)
    calls = {c.bb: c for c in ev.calls()}
    loops = cfg.natural_loops(ev)
    out = {}
    goes_on = {}
    errs = {bb for bb, i, st in ev.all_stmts() if st["k"] == "assign" and st["place"] == {"l": 0} and st["rv"]["k"] == "agg"
            and st["rv"].get("variant") == "Err"}
    for v, reg in regs.items():
        entry = entries.get(v)
        if entry is None:
            continue
        if any(h in reg and h != sw[0][0] and (set(b) & reg) for h, b in loops if h in reg):
            continue
        nets = set()
        stack = [(entry, 0, frozenset())]
        odd = False
        steps = 0
        while stack and steps < 20000:
            steps += 1
            bb, net, seen = stack.pop()
            if bb in seen:
                continue
            c = calls.get(bb)
            if c is not None and "context::Stack::" not in c.name and any(
                    (ev.locals[op_place(a)["l"]].get("s", "").endswith("context::Stack") or "context::Stack" in ev.locals[op_place(a)["l"]].get("s", ""))
                    for a in c.args if op_place(a) and "p" not in op_place(a)):
                odd = True          # the stack is handed to another function (variable arity)
            if c is not None and "context::Stack::" in c.name:
                last = c.name.split("::")[-1]
                if last == "pop":
                    net -= 1
                elif last == "push":
                    net += 1
                elif last in ("peek", "reverse_top", "is_empty", "len"):
                    pass
                else:
                    odd = True
            if bb in errs:
                continue
            for s_ in ev.succ[bb]:
                if s_ not in reg:
                    # a normal exit goes on to the next instruction (the dispatch is reachable again without returning);
                    # shared clean-up blocks on the way to `return Err` are not
                    if s_ not in goes_on:
                        goes_on[s_] = sw[0][0] in cfg.reach_from(ev, s_, avoid=set(ev.returns()))
                    if goes_on[s_]:
                        nets.add(net)
                    continue
                stack.append((s_, net, seen | {bb}))
        if not odd and nets:
            out[v] = nets
    return out


STMT = "minijinja::compiler::ast::Stmt"


def check_statements(ctx, prog, tag, rule="C05.B11."):
    """B11: every statement leaves the operand stack as it found it; every expression helper leaves exactly one value."""
    an = Analysis(prog, None)
    gens = sorted(k for k, f in prog.fns.items() if k.startswith(GEN + "::") and f.kind != "closure")
    an.run(gens)
    n = 0
    skip = {GEN + "::add", GEN + "::add_with_span", GEN + "::new", GEN + "::new_subgenerator", CALL_ARGS}
    for g in gens:
        if g in skip:
            continue
        sm = an.summaries.get(g)
        nm = g.split("::")[-1]
        probs = [p_ for p_ in an.problems.get(g, []) if p_[0] not in ("exits", "cases")]
        if g in an.expr_helpers:
            want = const(an.expr_helpers[g])
            if sm == POISON or probs:
                ctx.count("C05.B11 expression helpers whose walk is not decidable (variable arity / jumps): assumed" + tag)
                continue
            n += 1
            ctx.ob(rule + "expression-leaves-exactly-its-value", tag + nm, sm == want,
                   "%s changes the operand stack by %s, the code that calls it counts on %s" % (nm, show(sm), show(want)),
                   prog.fn(g).loc)
            continue
        if not nm.startswith(("compile_", "finish")):
            continue            # bracket helpers (start_if, sc_bool, end_for_loop ..): accounted for where they are used
        n += 1
        if nm == "compile_stmt":
            # per statement kind
            f = prog.fn(g)
            sw = arms.enum_switches(prog, f, STMT)
            st_in = an.states.get(g, {})
            if sw:
                regs = arms.arm_regions(prog, f, sw[0][0], STMT)
                base = st_in.get(sw[0][0], ())
                calls = {c.bb: c for c in f.calls()}
                for v, reg in sorted(regs.items()):
                    eo = an.edges.get(g, {})
                    outs = {eo[(b, s_)] for b in reg for s_ in f.succ[b] if s_ not in reg and (b, s_) in eo
                            and not (cfg.reach_from(f, s_) & reg) and (set(f.returns()) & cfg.reach_from(f, s_))}
                    bad = sorted({show(add(o, scale(base, -1))) for o in outs if o != POISON and o != base})
                    ctx.ob(rule + "statement-leaves-the-operand-stack-as-it-found-it", "%scompile_stmt|%s" % (tag, v), not bad,
                           "compiling a `%s` statement changes the depth of the operand stack by %s: the value stays on the stack of "
                           "the running instructions; inside a recursive loop or an expression that is being evaluated it "
                           "becomes an operand of the enclosing expression" % (v, bad), f.where(min(reg)) if reg else f.loc)
                continue
        ok = not probs      # its net effect is accounted for where it is called; here: its own paths agree
        ctx.ob(rule + "statement-leaves-the-operand-stack-as-it-found-it", tag + nm, ok,
               "%s changes the depth of the operand stack by %s%s: a value it pushes is never consumed (or the other way round)"
               % (nm, show(sm), (" and its paths disagree at a join: %s" % [(show(a), show(b)) for _, a, b in probs][:2]) if probs else ""),
               prog.fn(g).loc)
    # the fall-through effects are what the handlers do
    he = handler_effects(prog)
    BRANCHING = {"Iterate", "JumpIfFalseOrPop", "JumpIfTrueOrPop", "PopLoopFrame", "PushDidNotIterate"}
    MODELLED = {"FastRecurse": "the argument it leaves is consumed by the PushLoop it jumps to"}
    for v, nets in sorted(he.items()):
        e = EFFECT.get(v)
        if isinstance(e, tuple) or e is None or v in MODELLED:
            continue
        n += 1
        ok = (e in nets) if v in BRANCHING else nets == {e}
        ctx.ob(rule + "handler-effect-is-what-the-generator-counts-on", tag + v, ok,
               "the interpreter's %s arm changes the operand stack by %s on its non-failing paths, the code generator's "
               "accounting assumes %+d" % (v, sorted(nets), e), "")
    return n
