"""Path-sensitive typestate over one function: which events have happened on *this* path when a call is reached.

The reachability rules (`pairs.py`, the must-pass-through rules of C11) decide "a closer runs only after its opener
succeeded" on the shape of the CFG.  That breaks down as soon as the success of the opener is kept in a variable
(`let mut rv = push_frame(..); if rv.is_ok() { rv = incr_depth(..) } if rv.is_err() { undo }`) or handled in a closure
(`incr_depth(..).map_err(|e| { pop_frame(); e })`): the paths that matter are told apart by the *value* of a Result,
not by a branch of their own.  This explorer walks the paths of a function with

    env     what is known about Result / Option / bool locals on this path (a set of variants / a truth value),
            followed through moves, references, `is_ok` / `is_err` / `is_some` / `is_none`, `!`, `?`, discriminant reads;
    state   a small tuple the client updates at calls (`on_call`), e.g. (open frames, charged depth units);

forking at a call whose outcome matters (the client returns several (state, result) alternatives), pruning switch arms
the env rules out, and running closures handed to `map_err` / `map` / `and_then` / `or_else` / `unwrap_or_else` on the
side of the Result on which std runs them.  Nothing is executed: env and state are finite, every (block, env, state)
is visited once.
"""
from . import flow
from .facts import op_place, norm_path

STD_DISCR = {"None": "0", "Some": "1", "Ok": "0", "Err": "1", "Continue": "0", "Break": "1"}
UNDISCR = {"core::result::Result": {"0": "Ok", "1": "Err"}, "core::option::Option": {"0": "None", "1": "Some"},
           "core::ops::control_flow::ControlFlow": {"0": "Continue", "1": "Break"}}
PRED = {"core::result::Result::is_ok": ("Ok",), "core::result::Result::is_err": ("Err",),
        "core::option::Option::is_some": ("Some",), "core::option::Option::is_none": ("None",)}
# combinator -> (variant on which the closure runs, variant of the result when it does not run / None = unchanged)
CLOSURE_ON = {
    "core::result::Result::map_err": ("Err", {"Ok": ("Ok",), "Err": ("Err",)}),
    "core::result::Result::map": ("Ok", {"Ok": ("Ok",), "Err": ("Err",)}),
    "core::result::Result::and_then": ("Ok", {"Ok": ("Ok", "Err"), "Err": ("Err",)}),
    "core::result::Result::or_else": ("Err", {"Ok": ("Ok",), "Err": ("Ok", "Err")}),
    "core::result::Result::unwrap_or_else": ("Err", None),
    "core::option::Option::map": ("Some", {"Some": ("Some",), "None": ("None",)}),
    "core::option::Option::and_then": ("Some", {"Some": ("Some", "None"), "None": ("None",)}),
    "core::option::Option::or_else": ("None", {"Some": ("Some",), "None": ("Some", "None")}),
    "core::option::Option::unwrap_or_else": ("None", None),
    "core::option::Option::ok_or_else": ("None", {"Some": ("Ok",), "None": ("Err",)}),
}
PASS = {"core::result::Result::ok": {"Ok": "Some", "Err": "None"},
        "core::option::Option::ok_or": {"Some": "Ok", "None": "Err"},
        "core::result::Result::as_ref": None, "core::option::Option::as_ref": None, "core::result::Result::as_mut": None,
        "core::option::Option::as_mut": None}


_ENUM_LIMIT = [4]


def _names_of(prog, adt):
    """{discriminant string: variant name} of a std sum type or of an enum of the program (an outcome type a maintainer
    introduced: `enum ChainLink { Holds(Value), Broken }`)"""
    if adt in UNDISCR:
        return UNDISCR[adt]
    a = getattr(prog, "adts", {}).get(adt) if adt else None
    if a and a.get("kind") == "enum" and 2 <= len(a["variants"]) <= _ENUM_LIMIT[0]:
        return {str(v["discr"]): v["name"] for v in a["variants"]}
    return None


def _discrs(prog, adt, names):
    m = _names_of(prog, adt)
    if m is None:
        return frozenset(STD_DISCR[x] for x in names if x in STD_DISCR)
    inv = {v: k for k, v in m.items()}
    return frozenset(inv[x] for x in names if x in inv)


class _Stack(list):
    """work list that drops successors reached over a removed edge (the current block is set by the walker)"""

    def __init__(self, removed):
        super().__init__()
        self.removed = set(removed)
        self.cur = None

    def append(self, item):
        if self.cur is not None and (self.cur, item[0]) in self.removed:
            return
        super().append(item)


class Result:
    def __init__(self):
        self.exits = []          # (state, variants of the returned value or None, block)
        self.budget_hit = False
        self.ran = set()         # closures whose bodies were walked as part of a combinator call
        self.visited = set()     # blocks reached on some feasible path
        self.visited_states = set()   # (block, client state) pairs reached


def _freeze(env):
    return tuple(sorted(env.items(), key=lambda kv: str(kv[0])))


def _val(env, op):
    p = op_place(op)
    if p is None:
        c = op.get("c")
        if c is not None and "int" in c and c.get("ty") == "bool":
            return ("B", frozenset([str(c["int"])]))
        return None
    if "p" in p and p["p"] != ["*"]:
        # `(x as Variant).0`: the payload of a one-field variant built on this path, when its own variant is known
        pr = [e for e in p["p"] if e != "*"]
        if len(pr) == 2 and isinstance(pr[0], dict) and "dc" in pr[0] and isinstance(pr[1], dict) and pr[1].get("f") == 0:
            v = env.get(p["l"])
            if v is not None and v[0] == "V" and len(v) > 2 and v[2] is not None:
                return v[2]
        return None
    return env.get(p["l"])


def explore(prog, fn, state0, on_call, on_return=None, max_states=60000, _depth=0, env0=None, removed_edges=(), enum_limit=None):
    """walk the paths of fn.  on_call(call, state, env_lookup) -> None (no effect) | list of (state', variants or None):
    alternatives for the outcome of that call (`variants`: the Result / Option variants the destination can hold, or a
    truth value as ("B", "0"/"1")).  Returns a Result with the exits."""
    if enum_limit is not None and _depth == 0:
        # how large an enum of the program may be for its variants to be tracked (small outcome types by default; a rule
        # that designates a bigger enum - an operator kind - asks for it)
        old_limit = _ENUM_LIMIT[0]
        _ENUM_LIMIT[0] = enum_limit
        try:
            return explore(prog, fn, state0, on_call, on_return, max_states, _depth, env0, removed_edges, None)
        finally:
            _ENUM_LIMIT[0] = old_limit
    res = Result()
    calls = {c.bb: c for c in fn.calls()}
    seen = set()
    stack = _Stack(removed_edges)
    stack.append((0, _freeze(env0 or {}), state0))
    n = 0
    while stack:
        bb, envt, st = stack.pop()
        stack.cur = bb
        key = (bb, envt, st)
        if key in seen:
            continue
        seen.add(key)
        res.visited.add(bb)
        res.visited_states.add((bb, st))
        n += 1
        if n > max_states:
            res.budget_hit = True
            break
        env = dict(envt)
        for s in fn.stmts(bb):
            if s["k"] != "assign":
                continue
            pl = s["place"]
            if "p" in pl:
                if pl["p"] != ["*"]:
                    env.pop(pl["l"], None)
                continue
            l = pl["l"]
            rv = s["rv"]
            val = None
            k = rv["k"]
            env.pop("alias:%d" % l, None)
            if k == "agg" and rv.get("agg") == "adt" and _names_of(prog, rv.get("adt")) is not None:
                inner = _val(env, rv["ops"][0]) if len(rv.get("ops", [])) == 1 else None
                val = ("V", frozenset([rv["variant"]]), inner) if (inner is not None and inner[0] == "V") else ("V", frozenset([rv["variant"]]))
            elif k == "use":
                val = _val(env, rv["op"])
            elif k == "ref" and rv["place"].get("p", []) in ([], ["*"]):
                val = env.get(rv["place"]["l"])
                base_ = env.get("alias:%d" % rv["place"]["l"], ("A", rv["place"]["l"]))
                env["alias:%d" % l] = base_
            elif k == "un" and rv.get("op") == "Not":
                v = _val(env, rv["a"])
                if v is not None and v[0] == "B":
                    val = ("B", frozenset("1" if x == "0" else "0" for x in v[1]))
            elif k == "bin" and rv.get("op") in ("Eq", "Ne"):
                # `a == b` / `a != b` on two known truth values (`left.is_true() != matches!(op, ScAnd)`)
                va, vb = _val(env, rv["a"]), _val(env, rv["b"])
                if va is not None and vb is not None and va[0] == "B" and vb[0] == "B" and len(va[1]) == 1 and len(vb[1]) == 1:
                    same = next(iter(va[1])) == next(iter(vb[1]))
                    val = ("B", frozenset(["1" if (same == (rv["op"] == "Eq")) else "0"]))
            elif k == "discr":
                p = rv["place"]
                if p.get("p", []) in ([], ["*"]):
                    v = env.get(p["l"])
                    if v is not None and v[0] == "V":
                        val = ("D", _discrs(prog, rv.get("adt"), v[1]))
            if val is not None:
                env[l] = val
            else:
                env.pop(l, None)
        t = fn.term(bb)
        k = t["k"]
        if k == "return":
            v = env.get(0)
            res.exits.append((st, v[1] if v is not None and v[0] == "V" else None, bb))
            if on_return is not None:
                on_return(st, v[1] if v is not None and v[0] == "V" else None, bb)
            continue
        if k == "call":
            c = calls.get(bb)
            alts = [(st, None)]
            if c is not None:
                name = c.name
                a0 = _val(env, c.args[0]) if c.args else None
                if name in PRED and a0 is not None and a0[0] == "V":
                    # one alternative per variant the value can have, with the value narrowed to it
                    ap = op_place(c.args[0])
                    alts = []
                    for x in sorted(a0[1]):
                        narrowed = {}
                        if ap is not None and "p" not in ap:
                            narrowed[ap["l"]] = ("V", frozenset([x]))
                            al = env.get("alias:%d" % ap["l"])
                            if al is not None:
                                narrowed[al[1]] = ("V", frozenset([x]))
                        alts.append((st, ("B", frozenset(["1" if x in PRED[name] else "0"])), narrowed))
                elif name.endswith("Try>::branch") and a0 is not None and a0[0] == "V":
                    m = {"Ok": "Continue", "Some": "Continue", "Err": "Break", "None": "Break"}
                    mapped = frozenset(m[x] for x in a0[1] if x in m)
                    alts = [(st, ("V", mapped, a0[2]) if (len(a0) > 2 and mapped == frozenset(["Continue"])) else ("V", mapped))]
                elif name in PASS and a0 is not None and a0[0] == "V":
                    m = PASS[name]
                    alts = [(st, ("V", frozenset((m[x] if m else x) for x in a0[1] if (m is None or x in m))))]
                elif name in CLOSURE_ON and len(c.args) > 1:
                    runs_on, outmap = CLOSURE_ON[name]
                    cl = None
                    for o in flow.origins(fn, c.args[1]):
                        if o.kind == "agg" and o.rv.get("closure"):
                            cl = prog.fns.get(norm_path(o.rv["closure"]))
                    variants = a0[1] if (a0 is not None and a0[0] == "V") else None
                    all_v = [x for x in (outmap or {runs_on: None}).keys()] if variants is None else list(variants)
                    if variants is None and outmap is None:
                        all_v = [runs_on, "other"]
                    alts = []
                    for v in all_v:
                        outv = ("V", frozenset(outmap[v])) if (outmap and v in outmap) else None
                        if v == runs_on and cl is not None and _depth < 3:
                            sub = explore(prog, cl, st, on_call, None, max_states, _depth + 1)
                            res.budget_hit |= sub.budget_hit
                            res.ran |= {cl.path} | sub.ran
                            for (st2, _, _) in sub.exits or [(st, None, None)]:
                                alts.append((st2, outv))
                        else:
                            alts.append((st, outv))
                else:
                    r = on_call(c, st, lambda op: _val(env, op))
                    if r is not None:
                        alts = []
                        for st2, v in r:
                            if v is None:
                                alts.append((st2, None))
                            elif isinstance(v, tuple) and v and v[0] == "B":
                                alts.append((st2, ("B", frozenset([v[1]]))))
                            else:
                                alts.append((st2, ("V", frozenset(v))))
            if "t" not in t:
                continue
            d = t.get("dest")
            full = None
            if d is not None and "p" not in d:
                adt_ = fn.locals[d["l"]].get("adt")
                if _names_of(prog, adt_) is not None:
                    full = ("V", frozenset(_names_of(prog, adt_).values()))
            for alt in alts:
                st2, v = alt[0], alt[1]
                e2 = dict(env)
                if len(alt) > 2:
                    e2.update(alt[2])
                if d is not None and "p" not in d:
                    e2.pop("alias:%d" % d["l"], None)
                    if v is not None:
                        e2[d["l"]] = v
                    elif full is not None:
                        e2[d["l"]] = full          # some Result / Option: told apart later by is_ok / match
                    else:
                        e2.pop(d["l"], None)
                stack.append((t["t"], _freeze(e2), st2))
            continue
        envt2 = _freeze(env)
        if k == "switch":
            p = op_place(t["discr"])
            v = env.get(p["l"]) if (p is not None and "p" not in p) else None
            tg = None
            if v is not None and v[0] in ("D", "B") and len(v[1]) == 1:
                listed = {x: y for x, y in t["arms"]}
                tg = {listed.get(dv, t["otherwise"]) for dv in v[1]}
            if tg is None and t.get("ty") == "bool":
                # a flag that comes from outside (a parameter, a captured variable) has one value on a path: the second
                # test of it takes the same side as the first
                cd = flow.cond_of(fn, bb)
                if cd.kind == "local" and cd.place is not None:
                    src_ = flow.origins(fn, {"cp": cd.place})
                    if src_ and all(o.kind == "arg" for o in src_):
                        fk = "flag:" + ";".join(sorted("%s.%s" % (o.arg, ".".join(o.proj)) for o in src_))
                        listed = {x: y for x, y in t["arms"]}
                        for truth in ("1", "0"):
                            if fk in env and env[fk] != ("F", truth):
                                continue
                            raw = truth if not cd.neg else ("0" if truth == "1" else "1")
                            x = listed.get(raw, t["otherwise"]) if raw == "0" else (
                                listed.get("1", t["otherwise"]) if "1" in listed else t["otherwise"])
                            e2 = dict(env)
                            e2[fk] = ("F", truth)
                            stack.append((x, _freeze(e2), st))
                        continue
            if tg is None:
                tg = set(fn.succ[bb])
                # refine a tracked local by the arm taken (`match rv { Ok(..) => .., Err(..) => .. }`)
                src = None
                if p is not None and "p" not in p:
                    for d_ in flow.whole_defs(fn, p["l"]):
                        if d_.kind == "stmt" and d_.rv["k"] == "discr" and d_.rv["place"].get("p", []) in ([], ["*"]):
                            src = (d_.rv["place"]["l"], d_.rv.get("adt"))
                if src is not None and _names_of(prog, src[1]) is not None:
                    names = _names_of(prog, src[1])
                    listed = {x: y for x, y in t["arms"]}
                    known = env.get(src[0])
                    # a value that comes from outside (a parameter, a captured variable) keeps its variant along a path:
                    # the second `if let Some(..) = extra` agrees with the first
                    ok_ = flow.origins(fn, {"cp": {"l": src[0]}})
                    akey = None
                    if ok_ and all(o.kind == "arg" for o in ok_):
                        akey = "argv:" + ";".join(sorted("%s.%s" % (o.arg, ".".join(o.proj)) for o in ok_))
                        if known is None and akey in env:
                            known = env[akey]
                    for dv, name_ in names.items():
                        if known is not None and known[0] == "V" and name_ not in known[1]:
                            continue
                        x = listed.get(dv, t["otherwise"])
                        e2 = dict(env)
                        e2[src[0]] = ("V", frozenset([name_]))
                        if akey is not None:
                            e2[akey] = ("V", frozenset([name_]))
                        al = env.get("alias:%d" % src[0])
                        if al is not None:
                            e2[al[1]] = ("V", frozenset([name_]))
                        stack.append((x, _freeze(e2), st))
                    continue
                if v is not None and v[0] in ("D", "B"):
                    listed = {x: y for x, y in t["arms"]}
                    tg = {listed.get(dv, t["otherwise"]) for dv in v[1]}
            for x in tg:
                stack.append((x, envt2, st))
            continue
        for x in fn.succ[bb]:
            stack.append((x, envt2, st))
    return res
