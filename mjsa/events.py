"""Labelled event sequences for sibling cross-checks over one AST: which payload field of which AST node type is
handed to which family of functions, and in which (intra-procedural, back-edge free) order."""
from . import cfg, flow
from .facts import op_place, norm_path

AST = "minijinja::compiler::ast::"
ITER_PASS = ("::next", "::into_iter", "::iter", "::iter_mut", "::rev", "::zip", "::enumerate", "::as_ref", "::as_deref",
             "::unwrap", "::unwrap_or", "::deref", "::as_slice", "::chain", "::skip", "::take", "::peekable", "::by_ref",
             "::from_ref", "::clone", "::copied", "::cloned", "::map")


def _through(k):
    n = k.name
    if n.endswith("Try>::branch"):
        return 0
    for s in ITER_PASS:
        if n.endswith(s):
            return 0
    return None


def ast_fields(prog):
    names = set()
    for path, a in prog.adts.items():
        if path.startswith(AST):
            for v in a["variants"]:
                for f in v["fields"]:
                    if not f["name"].isdigit():
                        names.add(f["name"])
    return names


def payload_type_of_variant(prog, enum_path, variant):
    a = prog.adts.get(enum_path)
    if not a:
        return None
    for v in a["variants"]:
        if v["name"] == variant and v["fields"]:
            t = v["fields"][0]["ty"]
            return _ast_type(t)
    return None


def _ast_type(tinfo):
    """AST struct type named by a type info (peels refs and Spanned<..>)"""
    s = tinfo.get("s", "")
    adt = tinfo.get("adt")
    if adt and adt.startswith(AST):
        if adt == AST + "Spanned":
            for a in tinfo.get("args", []):
                base = a.split("<")[0]
                if base.startswith(AST):
                    return base
            return None
        return adt
    return None


class Event:
    __slots__ = ("kind", "T", "field", "fn", "bb", "site", "sink")

    def __init__(self, kind, T, field, fn, bb, site):
        self.kind = kind      # 'eval' | 'assign'
        self.T = T            # AST node type, e.g. minijinja::compiler::ast::WithBlock
        self.field = field    # tuple of field names (with tuple positions), e.g. ('assignments', '1')
        self.fn = fn          # the non-closure function the event is ordered in
        self.bb = bb          # block in that function
        self.site = site      # printable location of the real call
        self.sink = None      # callee the event was seen at (compile_expr, compile_stmt, track_walk ..)

    def key(self):
        return (self.kind, self.T, self.field)

    def __repr__(self):
        return "%s %s.%s @%s" % (self.kind, self.T.split("::")[-1], ".".join(self.field), self.site)


class Labeller:
    def __init__(self, prog):
        self.prog = prog
        self.fields = ast_fields(prog)

    def labels(self, f, op, depth=0):
        """[(T, fieldpath)] for an operand of function f"""
        out = []
        if depth > 4:
            return out
        for o in flow.origins(f, op, through_calls=_through):
            if o.kind != "arg":
                continue
            proj = list(o.proj)
            # closure: element parameter or capture -> resolve in the host
            if f.kind == "closure":
                host = self.prog.fns.get(f.parent)
                if host is None:
                    continue
                hostcall, closure_arg_idx = _closure_site(self.prog, host, f)
                if o.arg == 1 and proj and proj[0].isdigit():
                    caps = flow.closure_captures(self.prog, f)
                    ci = int(proj[0])
                    if ci < len(caps):
                        for co in caps[ci]:
                            for (T, fp) in self._from_origin(host, co, depth):
                                out.append((T, fp + self._named(proj[1:])))
                    continue
                if o.arg >= 2 and hostcall is not None:
                    # element of the iterator the closure is applied to: label of the receiver
                    recv = hostcall.args[0]
                    for (T, fp) in self.labels(host, recv, depth + 1):
                        out.append((T, fp + self._named(proj)))
                    continue
                continue
            out += [(T, fp) for (T, fp) in self._from_origin(f, o, depth)]
        # dedupe
        seen = []
        for x in out:
            if x not in seen:
                seen.append(x)
        return seen

    def _named(self, proj):
        """keep named AST fields; keep a tuple position only for the pair-lists (assignments, names) after dropping
        the `Some(..)` wrappers introduced by iteration"""
        clean = []
        i = 0
        proj = list(proj)
        while i < len(proj):
            if proj[i] in ("as Some", "as Continue", "as Ok") and i + 1 < len(proj) and proj[i + 1] == "0":
                i += 2
                continue
            clean.append(proj[i])
            i += 1
        res = []
        for p in clean:
            if p in self.fields:
                res.append(p)
            elif p.isdigit() and res and res[-1] in ("assignments", "names"):
                res.append(p)
        return tuple(res)

    def _from_origin(self, f, o, depth):
        if o.kind != "arg":
            return []
        proj = list(o.proj)
        # enum downcast inside the projection: `(*stmt as WithBlock).0....`
        T = None
        start = 0
        for i, p in enumerate(proj):
            if p.startswith("as "):
                v = p[3:]
                for enum in (AST + "Stmt", AST + "Expr", AST + "CallArg"):
                    t = payload_type_of_variant(self.prog, enum, v)
                    if t and v in self.prog.variants(enum):
                        T = t
                        start = i + 1
        if T is None:
            if f.kind == "closure":
                return []
            T = _ast_type(f.locals[o.arg])
            if T is None:
                return []
        return [(T, self._named(proj[start:]))]


def _closure_site(prog, host, cl):
    """the call in `host` that receives closure `cl` as an argument: (Call, arg index)"""
    for c in host.calls():
        for i, a in enumerate(c.args):
            for o in flow.origins(host, a):
                if o.kind == "agg" and o.rv.get("closure") and norm_path(o.rv["closure"]) == cl.path:
                    return c, i
    return None, None


def order_site(prog, f, bb):
    """lift a program point inside (nested) closures to the enclosing non-closure function"""
    g, b = f, bb
    guard = 0
    while g.kind == "closure" and guard < 6:
        guard += 1
        host = prog.fns.get(g.parent)
        if host is None:
            break
        c, _ = _closure_site(prog, host, g)
        if c is None:
            break
        g, b = host, c.bb
    return g, b


def collect(prog, lab, fns, sinks):
    """sinks: {callee path: (kind, arg index)}; returns [Event]"""
    evs = []
    for f in fns:
        for c in f.calls():
            s = sinks.get(c.name)
            if s is None:
                # function items passed as values: `.for_each(|x| ..)` is a closure, but `map(track_walk)` is not used
                continue
            kind, ai = s
            if ai >= len(c.args):
                continue
            for (T, fp) in lab.labels(f, c.args[ai]):
                g, b = order_site(prog, f, c.bb)
                ev_ = Event(kind, T, fp, g, b, "%s (%s)" % (f.path.split("::")[-1] if f.kind != "closure" else f.path.split("::")[-2] + "::{closure}", f.tloc(c.bb)))
                ev_.sink = c.name
                evs.append(ev_)
    return evs


def precedes(a, b):
    """a may execute before b within one activation of the same function.  Events inside the same loop are ordered
    within one iteration (back edges ignored); otherwise plain reachability."""
    if a.fn is not b.fn:
        return None
    f = a.fn
    if a.bb == b.bb:
        return None
    fwd = b.bb in cfg.reach_from(f, a.bb)
    back = a.bb in cfg.reach_from(f, b.bb)
    if fwd and back:
        be = set(cfg.back_edges(f))
        return b.bb in cfg.reach_from(f, a.bb, removed_edges=be)
    return fwd
