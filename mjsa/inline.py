"""Helper-transparent views of a function: the MIR of small crate-private callees spliced into the caller.

Rules that read the *shape* of one function (the handler arm of an instruction, a filter, the fuel tracker's charge)
must not depend on whether a maintainer wrote that shape inline or moved a piece of it into a helper.  `view(prog, f)`
returns a new `Fn` (same path, same location) in which every call of an eligible callee is replaced by the callee's
blocks:

    bbK:  stmts; CALL g(a1..an) -> dest, target T
  becomes
    bbK:  stmts; p1 = a1; ..; pn = an; goto g.entry'
    g's blocks with locals renumbered (base + l), `return` replaced by `dest = move ret'; goto T`

Eligible: defined in the program (a MIR body is available), same crate as the caller, not `pub`, not a closure call
through a trait object, not recursive (not on the inline stack), at most `max_blocks` blocks, and not one of `keep`
(the functions a rule knows by name and wants to keep seeing as calls: full paths or last path segments; a predicate
is accepted too; `None` keeps every callee whose name is mentioned anywhere in the rule sources).  Nesting goes `depth` levels deep.

The spliced body is only as faithful as the rules need: unwind edges are absent from the facts anyway, debug names of
the callee are carried over, source locations stay those of the callee's statements.
"""
import copy
import glob
import os
import re

from .facts import Fn, norm_path

_KNOWN = None


def known_names():
    """every identifier the rule sources mention: a callee with such a name may be an anchor of some rule and stays a
    call; a helper nobody has heard of (`finish_lookup`, `refuses_to_print`) is looked through"""
    global _KNOWN
    if _KNOWN is None:
        here = os.path.dirname(os.path.abspath(__file__))
        words = set()
        for p in glob.glob(os.path.join(here, "*.py")) + glob.glob(os.path.join(here, "rules", "*.py")):
            if os.path.basename(p) in ("inline.py", "combinators.py"):
                continue
            words |= _code_words(p)
        _KNOWN = words
    return _KNOWN

def _code_words(path):
    """identifiers in the code and string literals of a rule source.  Comments and docstrings do not count: they name
    helpers as *examples* of what a rule looks through (`emit_value(..)`), and such a mention must not turn the helper
    into an anchor that stays a call."""
    import io
    import tokenize
    words = set()
    with open(path, "rb") as fh:
        toks = list(tokenize.tokenize(fh.readline))
    prev_sig = None
    for i, t in enumerate(toks):
        if t.type == tokenize.NAME:
            words.add(t.string)
        elif t.type == tokenize.STRING:
            nxt = next((x for x in toks[i + 1:] if x.type not in (tokenize.COMMENT, tokenize.NL)), None)
            stmt_start = prev_sig is None or prev_sig.type in (tokenize.NEWLINE, tokenize.INDENT, tokenize.DEDENT, tokenize.ENCODING)
            if stmt_start and nxt is not None and nxt.type == tokenize.NEWLINE:
                pass                                  # a docstring / bare string statement
            else:
                words |= set(re.findall(r"[A-Za-z_][A-Za-z0-9_]*", t.string))
        if t.type not in (tokenize.COMMENT, tokenize.NL):
            prev_sig = t
    return words


_PLACE_KEYS = ({"l"}, {"l", "p"})


def _shift(x, base, boff):
    """renumber locals (+base) in a copied JSON fragment; block targets are handled by the caller"""
    if isinstance(x, dict):
        ks = set(x.keys())
        if ks in _PLACE_KEYS and isinstance(x.get("l"), int):
            x["l"] += base
            for e in x.get("p", []):
                if isinstance(e, dict) and "idx" in e and isinstance(e["idx"], int):
                    e["idx"] += base
                elif isinstance(e, dict):
                    _shift(e, base, boff)
            return
        for k, v in x.items():
            if k in ("loc", "tl", "fn_loc", "callee"):
                continue
            _shift(v, base, boff)
    elif isinstance(x, list):
        for v in x:
            _shift(v, base, boff)


def _retarget(t, boff):
    k = t["k"]
    if k in ("goto", "drop", "assert"):
        t["t"] += boff
    elif k == "call":
        if "t" in t:
            t["t"] += boff
    elif k == "switch":
        t["arms"] = [[v, b + boff] for v, b in t["arms"]]
        t["otherwise"] += boff


def eligible(prog, f, c, keep, max_blocks, stack, allow_pub=False):
    tgt = c.resolved or c.path
    if not tgt or tgt in stack:
        return None
    if keep is None:
        if tgt.split("::")[-1] in known_names():
            return None
    elif callable(keep):
        if keep(tgt):
            return None
    elif tgt in keep or tgt.split("::")[-1] in keep:
        return None
    g = prog.fns.get(tgt)
    if g is None or g is f or g.crate != f.crate or (g.is_pub and not allow_pub) or g.kind == "closure":
        return None
    if g.nblocks > max_blocks or len(c.args) != g.argc:
        return None
    if c.dest is None or "t" not in c.raw:
        return None                      # diverging call: nothing to splice a continuation onto
    return g



def _fold_constant_switches(raw):
    """`if cfg!(feature = "x") || cond` leaves a switch on a local that is assigned a constant exactly once: only one arm is
    feasible, and keeping the other hides which tests really guard the code behind it"""
    defs = {}
    for b in raw["blocks"]:
        for s in b["s"]:
            if s["k"] == "assign" and "p" not in s["place"]:
                defs.setdefault(s["place"]["l"], []).append(s["rv"])
        t = b["t"]
        if t["k"] == "call" and t.get("dest") is not None and "p" not in t["dest"]:
            defs.setdefault(t["dest"]["l"], []).append({"k": "call"})
    for b in raw["blocks"]:
        t = b["t"]
        if t["k"] != "switch":
            continue
        d = t["discr"]
        val = None
        if "c" in d and "int" in d["c"]:
            val = str(d["c"]["int"])
        else:
            p = d.get("mv") or d.get("cp")
            if p is not None and "p" not in p and p["l"] > raw["argc"]:
                ds = defs.get(p["l"], [])
                if len(ds) == 1 and ds[0]["k"] == "use" and "c" in ds[0]["op"] and "int" in ds[0]["op"]["c"]:
                    val = str(ds[0]["op"]["c"]["int"])
        if val is None:
            continue
        listed = {v: x for v, x in t["arms"]}
        b["t"] = {"k": "goto", "t": listed.get(val, t["otherwise"])}


CALLS_CLOSURE = ("core::ops::function::FnOnce::call_once", "core::ops::function::FnMut::call_mut", "core::ops::function::Fn::call")


def _splice_closure_calls(prog, f, max_blocks):
    """`with_state(|st| st.flag = true)`: once the closure-taking helper is spliced in, its `f(arg)` is a call of a
    closure whose body is known (the aggregate built in the caller).  That body is spliced too: parameter 1 is the
    closure (a reference to it when the body takes its environment by reference), the others are the members of the
    argument tuple."""
    from . import flow
    raw = None
    spliced = []
    for c in f.calls():
        if c.name not in CALLS_CLOSURE or len(c.args) != 2 or c.dest is None or "t" not in c.raw:
            continue
        aggs = flow.origins(f, c.args[0])
        if len(aggs) != 1 or aggs[0].kind != "agg" or not aggs[0].rv.get("closure") or aggs[0].proj:
            continue
        g = prog.fns.get(aggs[0].rv["closure"])
        tup = flow.origins(f, c.args[1])
        if g is None or g.crate != f.crate or g.nblocks > max_blocks or len(tup) != 1 or tup[0].kind != "agg" \
                or tup[0].rv.get("agg") != "tuple" or len(tup[0].rv["ops"]) != g.argc - 1:
            continue
        if raw is None:
            raw = copy.deepcopy(f.raw)
        base = len(raw["locals"])
        boff = len(raw["blocks"])
        raw["locals"] = raw["locals"] + copy.deepcopy(g.locals)
        blk = raw["blocks"][c.bb]
        call_t = blk["t"]
        dest, target = call_t["dest"], call_t["t"]
        env = call_t["args"][0]
        envp = env.get("mv") or env.get("cp")
        by_ref = g.locals[1].get("s", "").lstrip().startswith("&") and envp is not None
        blk["s"].append({"k": "assign", "place": {"l": base + 1}, "loc": blk["tl"], "inlined_arg": g.path,
                         "rv": {"k": "ref", "mut": True, "place": copy.deepcopy(envp)} if by_ref else {"k": "use", "op": env}})
        for i, a in enumerate(tup[0].rv["ops"]):
            blk["s"].append({"k": "assign", "place": {"l": base + 2 + i}, "rv": {"k": "use", "op": copy.deepcopy(a)},
                             "loc": blk["tl"], "inlined_arg": g.path})
        blk["t"] = {"k": "goto", "t": boff}
        for gb in g.blocks:
            nb = copy.deepcopy(gb)
            _shift(nb["s"], base, boff)
            t = nb["t"]
            if t["k"] == "return":
                nb["s"].append({"k": "assign", "place": copy.deepcopy(dest), "rv": {"k": "use", "op": {"mv": {"l": base}}},
                                "loc": nb["tl"], "inlined_ret": g.path})
                nb["t"] = {"k": "goto", "t": target}
            else:
                _shift(t, base, boff)
                _retarget(t, boff)
            raw["blocks"].append(nb)
        spliced.append(g.path)
    if raw is None:
        return f
    res = Fn(prog, raw, f.crate)
    res.key = getattr(f, "key", f.path)
    res.inlined = list(getattr(f, "inlined", [])) + spliced
    res.origin = getattr(f, "origin", f)
    return res


def view(prog, f, keep=None, depth=2, max_blocks=40, _stack=None, allow_pub=False, closures=False):
    """f with its eligible callees inlined (a new Fn; f itself is returned when nothing was inlined)"""
    cache = prog.__dict__.setdefault("_inline_cache", {})
    key = (f.key if hasattr(f, "key") else f.path, None if keep is None else (id(keep) if callable(keep) else tuple(sorted(keep))), depth, max_blocks, allow_pub, closures)
    if _stack is None and key in cache:
        return cache[key]
    stack = (_stack or ()) + (f.path,)
    raw = None
    inlined = []
    for c in f.calls():
        g = eligible(prog, f, c, keep if (keep is None or callable(keep)) else set(keep), max_blocks, stack, allow_pub)
        if g is None:
            continue
        if depth > 1:
            g = view(prog, g, keep, depth - 1, max_blocks, stack, allow_pub)
        if raw is None:
            raw = copy.deepcopy(f.raw)
        base = len(raw["locals"])
        boff = len(raw["blocks"])
        raw["locals"] = raw["locals"] + copy.deepcopy(g.locals)
        blk = raw["blocks"][c.bb]
        call_t = blk["t"]
        dest = call_t["dest"]
        target = call_t["t"]
        # parameters <- arguments
        for i, a in enumerate(call_t["args"]):
            blk["s"].append({"k": "assign", "place": {"l": base + 1 + i}, "rv": {"k": "use", "op": a}, "loc": blk["tl"],
                             "inlined_arg": g.path})
        blk["t"] = {"k": "goto", "t": boff}
        for gb in g.blocks:
            nb = copy.deepcopy(gb)
            _shift(nb["s"], base, boff)
            t = nb["t"]
            if t["k"] == "return":
                nb["s"].append({"k": "assign", "place": copy.deepcopy(dest), "rv": {"k": "use", "op": {"mv": {"l": base}}},
                                "loc": nb["tl"], "inlined_ret": g.path})
                nb["t"] = {"k": "goto", "t": target}
            else:
                _shift(t, base, boff)
                _retarget(t, boff)
            raw["blocks"].append(nb)
        names = raw.setdefault("names", [])
        for n in g.raw.get("names", []):
            nn = copy.deepcopy(n)
            _shift(nn["place"], base, boff)
            names.append(nn)
        inlined.append(g.path)
    if raw is None:
        res = f
    else:
        _fold_constant_switches(raw)
        res = Fn(prog, raw, f.crate)
        res.key = getattr(f, "key", f.path)
        res.inlined = inlined + [p for p in getattr(f, "inlined", [])]
        res.origin = f
    if _stack is None:
        if closures:
            res = _splice_closure_calls(prog, res, max_blocks)
        cache[key] = res
    return res


def inlined_helpers(f):
    """paths of the callees spliced into this view (empty for an untouched function)"""
    return list(getattr(f, "inlined", []))


class Overlay:
    """A program in which some functions are replaced by their helper-transparent views and the helpers that only those
    functions call (and whose bodies the views contain) are taken out: rules that enumerate `prog.fns` then see a write
    or a call that a maintainer moved into a private helper as part of the function it was moved out of."""

    def __init__(self, prog, anchors, keep=None, depth=2, max_blocks=60, allow_pub=False, closures=False):
        self._p = prog
        self.fns = dict(prog.fns)
        views = {}
        for a in anchors:
            f = prog.fns.get(a)
            if f is None:
                continue
            v = view(prog, f, keep=keep, depth=depth, max_blocks=max_blocks, allow_pub=allow_pub, closures=closures)
            views[a] = v
            self.fns[a] = v
        self.views = views
        absorbed = set()
        changed = True
        spliced = {}
        for a, v in views.items():
            for h in inlined_helpers(v):
                spliced.setdefault(h, set()).add(a)
        for h, owners in spliced.items():
            sites = prog.callers().get(h, [])
            g = prog.fns.get(h)
            if g is not None and sites and all(c.fn.path in owners or c.fn.path in spliced for c in sites):
                absorbed.add(h)
        for h in absorbed:
            self.fns.pop(h, None)
            for k in [k for k, f in self.fns.items() if f.root == h]:
                pass        # closures of an absorbed helper stay: their bodies are not spliced
        self.absorbed = absorbed
        self._callers = None

    def __getattr__(self, name):
        return getattr(self._p, name)

    def fn(self, path):
        f = self.fns.get(path)
        if f is None:
            return self._p.fn(path)
        return f

    def has_fn(self, path):
        return path in self.fns

    def callers(self):
        if self._callers is None:
            m = {}
            for f in self.fns.values():
                for c in f.calls():
                    for nm in {c.path, c.resolved}:
                        if nm:
                            m.setdefault(nm, []).append(c)
            self._callers = m
        return self._callers

    def calls_of(self, *names):
        out, seen = [], set()
        cm = self.callers()
        for n in names:
            for c in cm.get(n, []):
                if id(c) not in seen:
                    seen.add(id(c))
                    out.append(c)
        return out

    def closures_of(self, root_path):
        out = [f for f in self.fns.values() if f.root == root_path]
        v = self.views.get(root_path)
        if v is not None:
            for h in inlined_helpers(v):
                out += [f for f in self._p.fns.values() if f.root == h]
        return out
