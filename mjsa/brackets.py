"""Path-sensitive typestate over the code generator: emission balance of paired instructions and pending blocks.

Abstract state (relative to function entry):
    counters  frames / captures / autoescapes / spans   (ints, may go negative: the function closes what a caller opened)
    pend      tuple of PendingBlock kinds pushed since entry (e.g. ('Loop', 'Scope:Frame'))
    pops      tuple of kinds popped from the caller's part of the stack (expected kinds, in pop order)
Function summaries are computed bottom-up; members of a recursive SCC are assumed neutral and then verified neutral.
States must agree at CFG joins (else the generator is unbalanced on some path through the AST)."""
from . import cfg, flow
from .facts import op_place, norm_path

GEN = "minijinja::compiler::codegen::CodeGenerator"
INSTR = "minijinja::compiler::instructions::Instruction"
PEND = "minijinja::compiler::codegen::PendingBlock"
ADD = (GEN + "::add", GEN + "::add_with_span")
RAW_ADD = "minijinja::compiler::instructions::Instructions::add"

INSTR_EFFECT = {
    "PushWith": ("frames", +1), "PushLoop": ("frames", +1), "PopFrame": ("frames", -1), "PopLoopFrame": ("frames", -1),
    "BeginCapture": ("captures", +1), "EndCapture": ("captures", -1),
    "PushAutoEscape": ("autoescapes", +1), "PopAutoEscape": ("autoescapes", -1),
}
COUNTERS = ("frames", "captures", "autoescapes", "spans")
OPAQUE_NEUTRAL = (GEN + "::close_scopes_up_to_loop",)   # emits on the jump path only; verified by C05.B2


class State:
    __slots__ = ("c", "pend", "pops")

    def __init__(self, c=None, pend=(), pops=()):
        self.c = dict(c) if c else {k: 0 for k in COUNTERS}
        self.pend = tuple(pend)
        self.pops = tuple(pops)

    def key(self):
        return (tuple(self.c[k] for k in COUNTERS), self.pend, self.pops)

    def copy(self):
        return State(self.c, self.pend, self.pops)

    def __repr__(self):
        cs = ",".join("%s%+d" % (k, v) for k, v in self.c.items() if v)
        return "<%s pend=%s pops=%s>" % (cs or "0", list(self.pend), list(self.pops))


class Analysis:
    def __init__(self, prog, report):
        self.prog = prog
        self.report = report           # callable(rule, instance, ok, detail, where)
        self.summaries = {}            # fn path -> State (net effect) or None while in progress
        self.assumed = set()           # functions assumed neutral (recursion)
        self.child_sites = []          # (fn, bb, state at site, callee) for recursive compile_* calls on children
        self.events = {}               # fn path -> [(bb, description, state after)]
        self.instr_sites = 0
        self._failed_join = {}

    # ---- helpers ------------------------------------------------------------------------
    def is_self(self, f, op):
        """operand derives from the `self` parameter (the same generator)"""
        for o in flow.origins(f, op):
            if o.kind == "arg" and o.arg == 1 and not any(p == "instructions" for p in o.proj):
                return True
        return False

    def field_of_self(self, f, op):
        for o in flow.origins(f, op):
            if o.kind == "arg" and o.arg == 1 and o.proj:
                return o.proj[0]
        return None

    def instr_variant(self, f, op):
        vs = set()
        for o in flow.origins(f, op):
            if o.kind == "agg" and o.rv.get("adt") == INSTR:
                vs.add(o.rv["variant"])
            else:
                vs.add("?")
        return vs

    def pend_kind(self, f, op):
        ks = set()
        for o in flow.origins(f, op):
            if o.kind == "agg" and o.rv.get("adt") == PEND:
                k = o.rv["variant"]
                if k == "Scope" and o.rv["ops"]:
                    subs = flow.origins(f, o.rv["ops"][0])
                    sub = {oo.rv["variant"] for oo in subs if oo.kind == "agg"}
                    params = {oo.arg for oo in subs if oo.kind == "arg"}
                    if sub:
                        k = "Scope:" + "/".join(sorted(sub))
                    elif len(params) == 1:
                        k = "Scope:$%d" % params.pop()
                    else:
                        k = "Scope:?"
                ks.add(k)
            else:
                ks.add("?")
        return ks

    def expected_pop_kind(self, f, call):
        """variant of PendingBlock the code matches the popped value against on its non-diverging path"""
        if call.dest is None or "p" in call.dest:
            return None
        kinds = set()
        l = call.dest["l"]
        for bb in sorted(f.reachable):
            t = f.term(bb)
            if t["k"] != "switch":
                continue
            cd = flow.cond_of(f, bb)
            if cd.kind == "discr" and cd.adt == PEND:
                os_ = flow.origins(f, {"cp": cd.place})
                if any(o.kind == "call" and o.call.bb == call.bb for o in os_):
                    a = self.prog.adt(PEND)
                    by = {v["discr"]: v["name"] for v in a["variants"]}
                    for v, x in t["arms"]:
                        # arm must be able to reach a return
                        if any(r in cfg.reach_from(f, x) for r in f.returns()):
                            kinds.add(by.get(v, "?"))
                    # `otherwise` reaching a return means "any kind accepted"
                    if any(r in cfg.reach_from(f, t["otherwise"]) for r in f.returns()) and len(t["arms"]) < len(a["variants"]):
                        listed = {by.get(v) for v, _ in t["arms"]}
                        rest = {v["name"] for v in a["variants"]} - listed
                        # only counts when the otherwise arm is a real (non-panicking) continuation
                        kinds |= {"*"} if rest else set()
        if len(kinds) == 1:
            return kinds.pop()
        if "*" in kinds and len(kinds) == 2:
            kinds.discard("*")
            return kinds.pop() + "?"      # matched kind, silently ignoring others
        return None

    # ---- effects ------------------------------------------------------------------------
    def apply_call(self, f, c, st):
        """returns new State (or the same) after call c"""
        name = c.name
        if name in ADD and c.args and self.is_self(f, c.args[0]):
            vs = self.instr_variant(f, c.args[1])
            self.instr_sites += 1
            if len(vs) == 1:
                v = next(iter(vs))
                eff = INSTR_EFFECT.get(v)
                if eff:
                    st = st.copy()
                    st.c[eff[0]] += eff[1]
                    self.events.setdefault(f.path, []).append((c.bb, v, st))
            else:
                effs = {INSTR_EFFECT.get(v) for v in vs}
                if effs != {None}:
                    self.report("C05.B1.instruction-known-at-emission", "%s|%s" % (f.path, "/".join(sorted(vs))), False,
                                "a scope instruction is emitted through a value the analysis cannot resolve", f.where(c.bb))
            return st
        if name == "alloc::vec::Vec::push" and c.args:
            fld = self.field_of_self(f, c.args[0])
            if fld == "pending_block":
                ks = self.pend_kind(f, c.args[1])
                st = st.copy()
                st.pend = st.pend + ("/".join(sorted(ks)),)
                self.events.setdefault(f.path, []).append((c.bb, "push " + "/".join(sorted(ks)), st))
                return st
            if fld == "span_stack":
                self.span_ops = getattr(self, "span_ops", 0) + 1
                st = st.copy()
                st.c["spans"] += 1
                return st
        if name == "alloc::vec::Vec::pop" and c.args:
            fld = self.field_of_self(f, c.args[0])
            if fld == "pending_block":
                exp = self.expected_pop_kind(f, c)
                st = st.copy()
                if st.pend:
                    top = st.pend[-1]
                    st.pend = st.pend[:-1]
                    want = (exp or "?").rstrip("?")
                    ok = exp is not None and (top == want or top.startswith(want + ":"))
                    self.report("C05.B1.pending-block-properly-nested", "%s|pop %s" % (f.path, exp), ok,
                                "pops a pending block expecting %s but the innermost open one is %s" % (exp, top),
                                f.where(c.bb))
                else:
                    st.pops = st.pops + ((exp or "?"),)
                self.events.setdefault(f.path, []).append((c.bb, "pop " + str(exp), st))
                return st
            if fld == "span_stack":
                st = st.copy()
                st.c["spans"] -= 1
                return st
        # calls on the same generator
        tgt = c.resolved or c.path
        if tgt in self.prog.fns and tgt.startswith(GEN + "::") and c.args and self.is_self(f, c.args[0]):
            summ = self.summary(tgt)
            if summ is None:
                self.assumed.add(tgt)
                self.child_sites.append((f, c.bb, st.copy(), tgt))
                return st
            if tgt in self.assumed or self._recursive.get(tgt):
                self.child_sites.append((f, c.bb, st.copy(), tgt))
            st = st.copy()
            for k in COUNTERS:
                st.c[k] += summ.c[k]
            for exp in summ.pops:
                if st.pend:
                    top = st.pend[-1]
                    st.pend = st.pend[:-1]
                    want = exp.rstrip("?")
                    ok = top == want or top.startswith(want + ":")
                    self.report("C05.B1.pending-block-properly-nested", "%s|%s pops %s" % (f.path, tgt.split("::")[-1], exp),
                                ok, "%s closes a %s block but the innermost open one is %s" % (tgt.split("::")[-1], exp, top),
                                f.where(c.bb))
                else:
                    st.pops = st.pops + (exp,)
            newp = []
            for k in summ.pend:
                if "$" in k:
                    n = int(k.split("$")[1])
                    vs = {o.rv["variant"] for o in flow.origins(f, c.args[n - 1]) if o.kind == "agg"} if n - 1 < len(c.args) else set()
                    k = k.split("$")[0] + ("/".join(sorted(vs)) if vs else "?")
                newp.append(k)
            st.pend = st.pend + tuple(newp)
            if summ.key() != State().key():
                self.events.setdefault(f.path, []).append((c.bb, tgt.split("::")[-1], st))
            return st
        return st

    # ---- per-function walk --------------------------------------------------------------
    _recursive = {}

    def summary(self, path):
        if path in self.summaries:
            return self.summaries[path]
        if path in OPAQUE_NEUTRAL:
            self.summaries[path] = State()
            return self.summaries[path]
        self.summaries[path] = None           # in progress
        f = self.prog.fn(path)
        calls = {c.bb: c for c in f.calls()}
        state_in = {0: State()}
        order = [0]
        seen = {0}
        work = [0]
        exits = []
        rets = set(f.returns())
        live = {b for b in f.reachable if rets & cfg.reach_from(f, b)}
        while work:
            bb = work.pop(0)
            st = state_in[bb]
            c = calls.get(bb)
            if c is not None:
                st = self.apply_call(f, c, st)
            t = f.term(bb)
            if t["k"] == "return":
                exits.append((bb, st))
            for s in f.succ[bb]:
                if s in state_in:
                    if state_in[s].key() != st.key() and s in live:
                        self._failed_join[path] = True
                        self.report("C05.B1.balanced-on-every-path", "%s|join" % path, False,
                                    "two paths through %s reach the same point with different open scopes: %r vs %r"
                                    % (path.split("::")[-1], state_in[s], st), f.where(s))
                else:
                    state_in[s] = st
                    work.append(s)
        joins = sum(1 for b in state_in if len([p for p in f.pred[b] if p in state_in]) > 1 and b in live)
        if not getattr(self, "_bad_" + path, False):
            self.report("C05.B1.balanced-on-every-path", "%s|all-joins" % path, not self._failed_join.get(path),
                        "%d join points, %d blocks: open scopes agree wherever paths meet" % (joins, len(state_in)), f.loc)
        keys = {st.key() for _, st in exits}
        if len(keys) > 1:
            self.report("C05.B1.balanced-on-every-path", "%s|exits" % path, False,
                        "returns with different open scopes: %s" % [repr(st) for _, st in exits], f.loc)
        res = exits[0][1] if exits else State()
        self.summaries[path] = res
        self.states = getattr(self, "states", {})
        self.states[path] = state_in
        if path in self.assumed:
            self._recursive[path] = True
            self.report("C05.B1.recursive-compile-function-is-neutral", path, res.key() == State().key(),
                        "a recursive code generation function leaves %r open" % res, f.loc)
        return res


def balanced_in_context(an, prog, g, neutral, _seen=None):
    """A code generation function is balanced when it is neutral by itself, or when it is a private piece of other
    generator methods (every call site is in a generator method, none outside, none through a closure) and each of
    those is balanced in turn: a maintainer who moves the second half of a construct into a helper keeps the construct
    balanced although the helper alone is not.  `neutral(state)` is the respect in which balance is asked.
    Returns (ok, how)."""
    s = an.summaries.get(g)
    if s is None:
        return False, "no summary"
    if neutral(s):
        return True, "neutral"
    f = prog.fn(g)
    if f.is_pub or an._recursive.get(g):
        return False, "leaves %r" % s
    seen = set(_seen or ()) | {g}
    sites = prog.callers().get(g, [])
    if not sites:
        return False, "leaves %r" % s
    owners = []
    for c in sites:
        cf = c.fn
        if cf.kind == "closure" or not cf.path.startswith(GEN + "::") or cf.path in seen:
            return False, "leaves %r and is called from %s" % (s, cf.path)
        ok, how = balanced_in_context(an, prog, cf.path, neutral, seen)
        if not ok:
            return False, "leaves %r and its caller %s does not make up for it" % (s, cf.path.split("::")[-1])
        owners.append(cf.path.split("::")[-1])
    return True, "leaves %r, made up for by its only caller(s) %s" % (s, ", ".join(sorted(set(owners))))
