"""Whole-program queries: function references, field accessors, casts, asserts, operand/place iteration."""
import re

from .facts import op_place, norm_path


def rv_operands(rv):
    k = rv["k"]
    if k in ("use", "cast", "repeat"):
        return [rv["op"]]
    if k == "bin":
        return [rv["a"], rv["b"]]
    if k == "un":
        return [rv["a"]]
    if k == "agg":
        return rv["ops"]
    return []


def rv_places(rv):
    """places read by an rvalue"""
    out = [op_place(o) for o in rv_operands(rv)]
    if rv["k"] in ("ref", "discr", "rawptr"):
        out.append(rv["place"])
    return [p for p in out if p is not None]


def all_operands(fn):
    """(bb, operand) for every operand in reachable statements and terminators"""
    for bb in sorted(fn.reachable):
        for s in fn.stmts(bb):
            if s["k"] == "assign":
                for o in rv_operands(s["rv"]):
                    yield bb, o
        t = fn.term(bb)
        if t["k"] == "call":
            for a in t["args"]:
                yield bb, a
        elif t["k"] == "switch":
            yield bb, t["discr"]
        elif t["k"] == "assert":
            yield bb, t["cond"]


def all_places(fn):
    """(bb, place, is_write) for every place mentioned in reachable code"""
    for bb in sorted(fn.reachable):
        for s in fn.stmts(bb):
            if s["k"] == "assign":
                yield bb, s["place"], True
                for p in rv_places(s["rv"]):
                    yield bb, p, False
            elif s["k"] == "setdiscr":
                yield bb, s["place"], True
        t = fn.term(bb)
        if t["k"] == "call":
            for a in t["args"]:
                p = op_place(a)
                if p is not None:
                    yield bb, p, False
            if t.get("dest") is not None:
                yield bb, t["dest"], True
        elif t["k"] == "drop":
            yield bb, t["place"], False
        elif t["k"] == "switch":
            p = op_place(t["discr"])
            if p is not None:
                yield bb, p, False


def fn_refs(prog):
    """function path -> [(Fn, bb, how)] for every mention: direct call or fn item passed as a value"""
    r = getattr(prog, "_fn_refs", None)
    if r is not None:
        return r
    r = {}
    for f in prog.fns.values():
        for c in f.calls():
            for nm in {c.path, c.resolved}:
                if nm:
                    r.setdefault(nm, []).append((f, c.bb, "call"))
        for bb, o in all_operands(f):
            c = o.get("c")
            if c is not None and "fn" in c:
                r.setdefault(norm_path(c["fn"]), []).append((f, bb, "value"))
    prog._fn_refs = r
    return r


def field_accessors(prog, adt, field):
    """[(Fn, bb, is_write, place)] for every place projecting `field` of `adt`"""
    out = []
    for f in prog.fns.values():
        for bb, p, w in all_places(f):
            pr = p.get("p", [])
            for i, e in enumerate(pr):
                if isinstance(e, dict) and e.get("of") == adt and e.get("n") == field:
                    out.append((f, bb, w and i == len(pr) - 1, p))
                    break
    return out


def aggregates_of(prog, adt, variant=None):
    """[(Fn, bb, idx, rv)] constructing `adt` (optionally a given variant)"""
    out = []
    for f in prog.fns.values():
        for bb, i, s in f.all_stmts():
            rv = s.get("rv")
            if rv and rv["k"] == "agg" and rv.get("adt") == adt and (variant is None or rv.get("variant") == variant):
                out.append((f, bb, i, rv))
    return out


INT_RANGE = {
    "i8": (-2 ** 7, 2 ** 7 - 1), "i16": (-2 ** 15, 2 ** 15 - 1), "i32": (-2 ** 31, 2 ** 31 - 1),
    "i64": (-2 ** 63, 2 ** 63 - 1), "i128": (-2 ** 127, 2 ** 127 - 1), "isize": (-2 ** 63, 2 ** 63 - 1),
    "u8": (0, 2 ** 8 - 1), "u16": (0, 2 ** 16 - 1), "u32": (0, 2 ** 32 - 1), "u64": (0, 2 ** 64 - 1),
    "u128": (0, 2 ** 128 - 1), "usize": (0, 2 ** 64 - 1), "bool": (0, 1), "char": (0, 0x10FFFF),
}


def lossy_int_cast(frm, to):
    """True when `frm as to` can change the mathematical value (64-bit target)"""
    a = INT_RANGE.get(frm)
    b = INT_RANGE.get(to)
    if a is None or b is None:
        return False
    return a[0] < b[0] or a[1] > b[1]


def casts(fn, kinds=("IntToInt",)):
    """[(bb, idx, stmt)] cast statements of the given kinds"""
    out = []
    for bb, i, s in fn.all_stmts():
        rv = s.get("rv")
        if rv and rv["k"] == "cast" and rv["kind"] in kinds:
            out.append((bb, i, s))
    return out


def asserts(fn, prefixes=("Overflow", "OverflowNeg", "DivisionByZero", "RemainderByZero")):
    """[(bb, term)] arithmetic Assert terminators"""
    out = []
    for bb in sorted(fn.reachable):
        t = fn.term(bb)
        if t["k"] == "assert" and t["kind"].startswith(prefixes):
            out.append((bb, t))
    return out


def from_macro(loc_raw, *names):
    return any(m in names for m in loc_raw.get("m", []))


def named_consts(fn):
    """set of named constants / statics mentioned by fn, including inside its promoted bodies"""
    out = set()

    def scan_op(o):
        c = o.get("c")
        if c is not None and "named" in c:
            out.add(norm_path(c["named"]))

    def scan_blocks(blocks):
        for b in blocks:
            for s in b["s"]:
                if s["k"] == "assign":
                    rv = s["rv"]
                    for o in rv_operands(rv):
                        scan_op(o)
                    if rv["k"] == "tls":
                        out.add(norm_path(rv["static"]))
            t = b["t"]
            if t["k"] == "call":
                for a in t["args"]:
                    scan_op(a)
    scan_blocks(fn.blocks)
    for pr in fn.raw.get("promoted", []):
        scan_blocks(pr["blocks"])
    return out
