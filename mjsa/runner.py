"""Check driver: runs the rule module of one property, compares with known findings, writes evidence."""
import argparse
import hashlib
import importlib
import json
import os
import re
import sys
import time
import traceback

from . import facts
from .facts import CheckerBroken, VERIF

KNOWN = os.path.join(VERIF, "known_findings.jsonl")


class Ctx:
    def __init__(self, prop, tier, repo):
        self.prop = prop
        self.tier = tier
        self.repo = repo
        self._progs = {}
        self._controls = None
        self.obligations = []      # (rule, instance, ok, detail, where)
        self.samples = []
        self.analysed = {}         # free-form counters: functions, call sites, ...
        self.assumptions = []
        self.explanations = []
        self.notes = []
        self.broken = []

    # -- programs ---------------------------------------------------------------------------
    def program(self, config="MAX"):
        if config not in self._progs:
            d = facts.extract(self.repo, config)
            self._progs[config] = facts.Program(d)
        return self._progs[config]

    @property
    def prog(self):
        return self.program("MAX")

    def configs(self):
        """configurations analysed at this tier"""
        return ["MAX"] if self.tier == "quick" else ["MAX", "DEF", "MIN", "ORD"]

    @property
    def controls(self):
        if self._controls is None:
            d = facts.extract_controls()
            self._controls = facts.Program(d, crates=("mjsa_controls",))
        return self._controls

    # -- recording --------------------------------------------------------------------------
    def ob(self, rule, instance, ok, detail="", where=None):
        """record one obligation (rule instance).  instance must not contain line numbers."""
        self.obligations.append((rule, str(instance), bool(ok), detail, str(where) if where else ""))
        return ok

    def count(self, key, n=1):
        self.analysed[key] = self.analysed.get(key, 0) + n

    def floor(self, what, n, minimum):
        """fail closed when a rule matched fewer instances than were confirmed by hand"""
        self.analysed[what] = n
        if n < minimum:
            # deferred: violations found elsewhere are still reported first
            self.broken.append("%s: %d instances analysed, floor is %d (anchor moved? rule would pass vacuously)"
                               % (what, n, minimum))

    def need(self, cond, msg):
        if not cond:
            raise CheckerBroken(msg)

    def control(self, rule, fired):
        """a zero-count rule must fire on its positive control"""
        if not fired:
            raise CheckerBroken("positive control for %s did not fire: rule is blind" % rule)
        self.count("controls_fired")

    def sample(self, s):
        if len(self.samples) < 40:
            self.samples.append(s)

    def explain(self, s):
        self.explanations.append(s)

    is_borrowed = False

    def fresh(self):
        """an empty context of the same property (used to run a rule on its positive control)"""
        return Ctx(self.prop, self.tier, self.repo)

    def borrowed(self, other_prop, prefix, only=None):
        """a view of this context for running the rule module of another property as a clause of this one: its
        obligations are recorded under `prefix` + original rule name, its floors / counters are kept apart, its
        explanations are dropped.  Programs and the extraction cache are shared.  `only(rule, instance)`: keep just the
        obligations the borrower is about (a slice of the lender's rule)."""
        return _Borrowed(self, other_prop, prefix, only)

    def assume(self, s):
        self.assumptions.append(s)


class _Borrowed:
    is_borrowed = True

    def __init__(self, base, prop, prefix, only=None):
        self._b = base
        self._only = only
        self.prop = prop
        self.tier = base.tier
        self.repo = base.repo
        self._prefix = prefix
        self.analysed = base.analysed
        self.obligations = base.obligations
        self.samples = []

    def program(self, config="MAX"):
        return self._b.program(config)

    @property
    def prog(self):
        return self._b.prog

    def configs(self):
        return ["MAX"]          # the borrowed clause is checked on the main configuration only

    @property
    def controls(self):
        return self._b.controls

    def ob(self, rule, instance, ok, detail="", where=None):
        if self._only is not None and not self._only(rule, str(instance)):
            return None
        if not ok:
            # a listed finding of the lending property is that property's business: the borrower takes the clause over
            # for everything else (a *new* violation of the clause still counts here)
            if getattr(self, "_lender_known", None) is None:
                known, _ = load_known()
                self._lender_known = {re.sub(r"\[(MAX|DEF|MIN|ORD)\]", "", k) for (p_, k) in known if p_ == self.prop}
            key = re.sub(r"\[(MAX|DEF|MIN|ORD)\]", "", "%s|%s" % (rule, instance))
            if key in self._lender_known:
                self._b.count("%sknown findings of %s not taken over" % (self._prefix, self.prop))
                return None
        return self._b.ob(self._prefix + rule, instance, ok, detail, where)

    def count(self, key, n=1):
        self._b.count("%s%s" % (self._prefix, key), n)

    def floor(self, what, n, minimum):
        if self._only is None:
            self._b.floor("%s%s" % (self._prefix, what), n, minimum)

    def need(self, cond, msg):
        self._b.need(cond, msg)

    def control(self, rule, fired):
        if self._only is None:
            self._b.control(self._prefix + rule, fired)

    def sample(self, s):
        pass

    def explain(self, s):
        pass

    def assume(self, s):
        self._b.assume(s)

    def fresh(self):
        return Ctx(self.prop, self.tier, self.repo)

    def borrowed(self, other_prop, prefix, only=None):
        return _Borrowed(self._b, other_prop, self._prefix + prefix, only)


def load_known():
    known = {}
    fixed = []
    if os.path.exists(KNOWN):
        for line in open(KNOWN):
            line = line.strip()
            if not line or line.startswith("#"):
                continue
            e = json.loads(line)
            if e.get("status") == "fixed":
                fixed.append(e)
            else:
                known[(e["property"], e["key"])] = e
    return known, fixed


def main(argv=None):
    ap = argparse.ArgumentParser()
    ap.add_argument("prop")
    ap.add_argument("--tier", default=os.environ.get("VERIF_TIER", "quick"), choices=["quick", "thorough"])
    ap.add_argument("--repo", default="/repo")
    ap.add_argument("--evidence-dir", default=os.path.join(VERIF, "evidence"))
    ap.add_argument("--replay", default=None, help="print a stored violation and re-run its rule")
    ap.add_argument("--verbose", "-v", action="store_true")
    a = ap.parse_args(argv)
    prop = a.prop.upper()
    t0 = time.time()
    seed = int(os.environ.get("VERIF_SEED", "0") or 0)
    if a.replay:
        print(open(a.replay).read())
    ctx = Ctx(prop, a.tier, a.repo)
    try:
        mod = importlib.import_module("mjsa.rules." + prop.lower())
    except ImportError as e:
        print("checker broken: no rule module for %s (%s)" % (prop, e))
        return 2
    try:
        mod.run(ctx)
    except CheckerBroken as e:
        print("CHECKER-BROKEN property=%s: %s" % (prop, e))
        return 2
    except Exception:
        traceback.print_exc()
        print("CHECKER-BROKEN property=%s: internal error" % prop)
        return 2

    known, _fixed = load_known()
    viol = [(r, i, d, w) for (r, i, ok, d, w) in ctx.obligations if not ok]
    seen = set()
    new = []
    kf = []
    for (r, i, d, w) in viol:
        key = "%s|%s" % (r, i)
        if key in seen:
            continue
        seen.add(key)
        # the feature configuration a construct was compiled under is not part of its identity: the same source
        # construct reported under [DEF]/[MIN]/[ORD] is the listed finding, not a new one
        base = re.sub(r"\[(MAX|DEF|MIN|ORD)\]", "", key)
        if (prop, key) in known:
            kf.append((key, known[(prop, key)], w))
        elif (prop, base) in known:
            if base not in seen:
                seen.add(base)
                kf.append((base, known[(prop, base)], w))
        else:
            new.append((key, r, i, d, w))
    for key, e, w in kf:
        print("KNOWN-FINDING: property=%s %s -- %s [%s]" % (prop, key, e.get("what", ""), w))
    # a known finding that no longer reproduces is only a note (a fix landed); it suppresses nothing
    for (p, key), e in known.items():
        if p == prop and key not in seen:
            print("note: listed finding no longer reproduces: %s" % key)
    rdir = os.path.join(a.evidence_dir, prop + ".replay")
    rc = 0
    if new:
        os.makedirs(rdir, exist_ok=True)
        for key, r, i, d, w in new:
            h = hashlib.sha1(key.encode()).hexdigest()[:12]
            path = os.path.join(rdir, h + ".json")
            with open(path, "w") as f:
                json.dump({"property": prop, "rule": r, "instance": i, "key": key, "detail": d, "where": w,
                           "rerun": "cd /verif && ./check %s --tier %s" % (prop, a.tier)}, f, indent=1)
            print("VIOLATION property=%s replay=%s" % (prop, path))
            print("   rule %s instance %s\n   at %s\n   %s" % (r, i, w, d))
        rc = 1
    if not new and ctx.broken:
        for b in ctx.broken:
            print("CHECKER-BROKEN property=%s: %s" % (prop, b))
        return 2

    nob = len(ctx.obligations)
    nok = sum(1 for o in ctx.obligations if o[2])
    distinct = len({(o[0], o[1]) for o in ctx.obligations})
    rules = sorted({o[0] for o in ctx.obligations})
    per_rule = {}
    for o in ctx.obligations:
        pr = per_rule.setdefault(o[0], [0, 0])
        pr[0] += 1
        pr[1] += 1 if o[2] else 0
    samples = list(ctx.samples)
    for o in ctx.obligations[:400]:
        if len(samples) >= 60:
            break
        if not any(isinstance(s, dict) and s.get("instance") == o[1] and s.get("rule") == o[0] for s in samples):
            if sum(1 for s in samples if isinstance(s, dict) and s.get("rule") == o[0]) < 4:
                samples.append({"rule": o[0], "instance": o[1], "holds": o[2], "where": o[4], "detail": o[3][:300]})
    ev = {
        "property_id": prop,
        "tier": a.tier,
        "seed": seed,
        "level": "other",
        "coverage": {
            "explanation": " ".join(ctx.explanations) or "static rules over MIR facts",
            "obligations": nob,
            "discharged": nok,
            "evaluations": nob,
            "distinct_nontrivial": distinct,
            "rule": "one obligation = one (rule, instance) pair found in the MIR of /repo's working tree; distinct = "
                    "distinct (rule, instance) keys; every instance is non-trivial in that it names a concrete "
                    "function / call site / enum arm the rule was evaluated on",
            "samples": samples,
            "per_rule": {k: {"instances": v[0], "holding": v[1]} for k, v in sorted(per_rule.items())},
            "analysed": ctx.analysed,
            "configs": ctx.configs(),
            "checker_cmd": "cd /verif && ./check %s --tier %s" % (prop, a.tier),
            "trusted_base": ["rustc nightly type checking and MIR construction (-Zmir-opt-level=0)",
                             "mjfacts driver serialisation (/verif/driver)",
                             "rule tables under /verif/tables (reviewed instances, each with a reason)"],
            "known_findings_reported": [k for k, _, _ in kf],
            "exhaustive": False,
        },
        "assumptions": ctx.assumptions,
        "wall_s": round(time.time() - t0, 2),
        "violations": len(new),
    }
    os.makedirs(a.evidence_dir, exist_ok=True)
    with open(os.path.join(a.evidence_dir, prop + ".json"), "w") as f:
        json.dump(ev, f, indent=1, sort_keys=True)
    print("%s %s: %d obligations over rules %s; %d hold, %d known findings, %d new violations (%.1fs)"
          % (prop, a.tier, nob, ",".join(rules), nok, len(kf), len(new), time.time() - t0))
    if a.verbose:
        for o in ctx.obligations:
            print("  [%s] %s | %s  %s  %s" % ("ok" if o[2] else "FAIL", o[0], o[1], o[4], o[3][:160]))
    return rc


if __name__ == "__main__":
    sys.exit(main())
