"""Intra-procedural taint of template-controlled integers reaching overflow-capable arithmetic."""
import re

from . import cfg, flow, query
from .facts import op_place, norm_path

INT_TYPES = {"i8", "i16", "i32", "i64", "i128", "isize", "u8", "u16", "u32", "u64", "u128", "usize"}
# calls whose result is no longer template-*chosen*: it is bounded by something else.  A checked / saturating /
# wrapping operation is safe itself, but what it returns is as template-controlled as its operands (`len
# .saturating_sub(idx) - 1` underflows), so those keep the taint (CARRIERS).
SANITIZERS = re.compile(r"::(min|clamp|rem_euclid|count_ones|leading_zeros|trailing_zeros|signum|is_\w+)$")
CARRIERS = re.compile(r"::(checked_\w+|saturating_\w+|wrapping_\w+|overflowing_\w+|max|abs_diff|unsigned_abs)$")
VALUE_INT_SOURCES = (
    "minijinja::value::Value::as_usize", "minijinja::value::Value::as_i64", "minijinja::value::Value::len",
    "minijinja::value::object::DynObject::enumerator_len", "minijinja::value::Kwargs::get",
    "minijinja::value::argtypes::Kwargs::get", "minijinja::value::Value::to_usize",
)
BUILTIN_FILES = ("minijinja/src/filters.rs", "minijinja/src/functions.rs", "minijinja/src/tests.rs",
                 "minijinja/src/value/ops.rs", "minijinja/src/vm/loop_object.rs", "minijinja/src/value/mod.rs",
                 "minijinja/src/formatting.rs", "minijinja/src/value/tuple.rs", "minijinja/src/value/merge_object.rs",
                 "minijinja-contrib/src/filters/mod.rs", "minijinja-contrib/src/globals.rs",
                 "minijinja-contrib/src/pycompat.rs", "minijinja-contrib/src/rand.rs")


def _is_int_ty(t):
    s = t.get("s", "")
    if s in INT_TYPES:
        return True
    m = re.match(r"^core::option::Option<(\w+)>$", s)
    return bool(m and m.group(1) in INT_TYPES)


def sources(fn, size=False, _depth=0):
    """locals that carry a template-controlled integer at their definition: {local: description}"""
    src = {}
    if fn.loc.f.endswith(BUILTIN_FILES) and fn.kind != "closure":
        for l in range(1, fn.argc + 1):
            if _is_int_ty(fn.locals[l]):
                nm = fn.local_name(l) or "_%d" % l
                src[l] = "parameter `%s`" % nm
    for c in fn.calls():
        if c.dest is None or "p" in c.dest:
            continue
        n = c.name
        dt = fn.locals[c.dest["l"]].get("s", "")
        is_conv = ("TryFrom<minijinja::value::Value> for" in n and n.endswith("::try_from")) or (
            n.endswith("::try_from") and any("minijinja::value::Value" in (t.get("s", "")) for t in c.callee.get("targs", [])[1:2]))
        if is_conv and re.search(r"Result<(%s)," % "|".join(INT_TYPES), dt):
            src[c.dest["l"]] = "integer converted from a template value (%s)" % n.split("::")[-2][-20:]
        elif n in VALUE_INT_SOURCES and re.search(r"(%s)" % "|".join(INT_TYPES), dt):
            src[c.dest["l"]] = "result of %s" % n.split("::")[-1]
        elif n == "core::slice::<impl [T]>::len" and fn.loc.f.endswith(BUILTIN_FILES) and c.args and any(
                o.kind == "arg" and "[minijinja::value::Value]" in fn.locals[o.arg].get("s", "") for o in flow.origins(fn, c.args[0])):
            src[c.dest["l"]] = "number of call arguments (`args.len()`)"
        elif n.endswith("ArgType<'a>>::from_value") and re.search(r"Result<(?:core::option::Option<)?(%s)" % "|".join(INT_TYPES), dt):
            src[c.dest["l"]] = "argument conversion"
        elif n.endswith("::load") and "core::sync::atomic::Atomic" in n and fn.loc.f.endswith("vm/loop_object.rs"):
            src[c.dest["l"]] = "loop counter"
        elif n == "minijinja::value::ops::coerce" and fn.loc.f.endswith(BUILTIN_FILES) and not fn.loc.f.endswith("value/ops.rs"):
            # the integer payloads of a coerced pair of template values (ops.rs itself uses checked operations on them
            # and is covered by the C08 rules)
            src[c.dest["l"]] = "integers coerced from template values"
    # the loop object's own counters (length of the iterable, depth) are as template-controlled as its index
    if fn.loc.f.endswith("vm/loop_object.rs") and fn.kind != "closure":
        for bb, i, s_ in fn.all_stmts():
            if s_["k"] != "assign" or "p" in s_["place"]:
                continue
            rv = s_["rv"]
            if rv["k"] not in ("use", "cast") or "c" in rv["op"]:
                continue
            pl = op_place(rv["op"])
            if pl is None or not pl.get("p"):
                continue
            last = pl["p"][-1]
            if isinstance(last, dict) and "n" in last and str(last.get("of", "")).endswith("loop_object::Loop") \
                    and _is_int_ty({"s": last.get("ty", "")}):
                src[s_["place"]["l"]] = "loop object field `%s`" % last["n"]
    # a closure sees the template-controlled integers its builder captured
    if fn.kind == "closure" and fn.parent and fn.prog is not None and fn.prog.fns.get(fn.parent) is not None and _depth < 3:
        host = fn.prog.fns[fn.parent]
        ht = tainted_locals(host, size=size, _depth=_depth + 1)
        caps = []
        for bb, i, s_ in host.all_stmts():
            rv = s_.get("rv")
            if rv and rv["k"] == "agg" and rv.get("closure") and norm_path(rv["closure"]) == fn.path:
                caps = rv["ops"]
        tainted_caps = {}
        for i, o in enumerate(caps):
            p = op_place(o)
            if p is not None and p["l"] in ht:
                tainted_caps[i] = ht[p["l"]]
            elif p is not None:
                # captured by reference: `&n`
                for d in flow.whole_defs(host, p["l"]):
                    if d.kind == "stmt" and d.rv["k"] == "ref" and d.rv["place"]["l"] in ht:
                        tainted_caps[i] = ht[d.rv["place"]["l"]]
        # the closure's parameters: the payload of the tainted receiver of the combinator the closure is passed to
        for c in host.calls():
            if not c.name.startswith("core::") or len(c.args) < 2:
                continue
            passed = any(o.kind == "agg" and o.rv.get("closure") and norm_path(o.rv["closure"]) == fn.path
                         for a in c.args[1:] if "c" not in a for o in flow.origins(host, a))
            if not passed:
                continue
            p0 = op_place(c.args[0])
            if p0 is not None and p0["l"] in ht:
                for l in range(2, fn.argc + 1):
                    if _is_int_ty(fn.locals[l]) or "(" in fn.locals[l].get("s", ""):
                        src[l] = ht[p0["l"]] + " (combinator payload)"
        if tainted_caps:
            for bb, i, s_ in fn.all_stmts():
                if s_["k"] != "assign" or "p" in s_["place"]:
                    continue
                rv = s_["rv"]
                pl = None
                if rv["k"] in ("use", "cast") and "c" not in rv["op"]:
                    pl = op_place(rv["op"])
                elif rv["k"] == "ref":
                    pl = rv["place"]
                if pl is None or pl["l"] != 1:
                    continue
                for e in pl.get("p", []):
                    if isinstance(e, dict) and "f" in e and e["f"] in tainted_caps:
                        src[s_["place"]["l"]] = tainted_caps[e["f"]] + " (captured)"
                        break
    # fields of Span / tokenizer counters
    return src


SIZE_SANITIZERS = re.compile(r"::(min|clamp|count_ones|leading_zeros|trailing_zeros|signum|is_\w+)$")


def tainted_locals(fn, size=False, _depth=0):
    """forward propagation: local -> source description (first reaching).  `size=True`: the value is used as a size;
    checked / saturating / wrapping arithmetic keeps it template-controlled, only a clamp bounds it."""
    cache = getattr(fn, "_taint_cache", None)
    if cache is None:
        cache = fn._taint_cache = {}
    if size in cache:
        return cache[size]
    t = dict(sources(fn, size=size, _depth=_depth))
    sanit = SIZE_SANITIZERS if size else SANITIZERS
    changed = True
    calls = fn.calls()
    guard = 0
    while changed and guard < 50:
        guard += 1
        changed = False
        for bb, i, s in fn.all_stmts():
            if s["k"] != "assign":
                continue
            dst = s["place"]["l"]
            rv = s["rv"]
            srcs = []
            if rv["k"] in ("use", "cast"):
                p = op_place(rv["op"])
                if p is not None:
                    srcs.append(p["l"])
            elif rv["k"] == "bin":
                if rv["op"] in ("Eq", "Ne", "Lt", "Le", "Gt", "Ge", "Cmp"):
                    continue
                for side in ("a", "b"):
                    p = op_place(rv[side])
                    if p is not None:
                        srcs.append(p["l"])
            elif rv["k"] == "un":
                p = op_place(rv["a"])
                if p is not None:
                    srcs.append(p["l"])
            elif rv["k"] == "agg" and (rv.get("agg") in ("tuple",) or rv.get("closure") or rv.get("adt") in ("core::option::Option", "core::result::Result")):
                for o in rv["ops"]:
                    p = op_place(o)
                    if p is not None:
                        srcs.append(p["l"])
            elif rv["k"] == "ref":
                srcs.append(rv["place"]["l"])
            for x in srcs:
                if x in t and dst not in t:
                    t[dst] = t[x]
                    changed = True
        for c in calls:
            if c.dest is None or "p" in c.dest or c.dest["l"] in t:
                continue
            if sanit.search(c.name):
                continue
            if CARRIERS.search(c.name) or re.search(r"^core::(option::Option|result::Result)::(map|map_or|map_or_else|and_then|filter|"
                                                    r"unwrap_or_else|or_else|zip|xor|or|and)$", c.name):
                for a in c.args[:3]:
                    p = op_place(a)
                    if p is not None and p["l"] in t and c.dest["l"] not in t:
                        t[c.dest["l"]] = t[p["l"]]
                        changed = True
                continue
            # pass-through calls: unwrap / Try::branch / Into / clone keep taint
            if c.name.endswith("Try>::branch") or c.name.endswith("::unwrap") or c.name.endswith("::unwrap_or") \
                    or c.name.endswith("::into") or c.name.endswith("::from") or c.name.endswith("::clone") \
                    or c.name.endswith("::unwrap_or_default") or c.name.endswith("::expect") or c.name.endswith("::abs") \
                    or c.name.endswith("::pow") or c.name.endswith("::deref") or c.name.endswith("::ok_or_else") \
                    or c.name.endswith("::ok_or") or c.name.endswith("Result::ok") or c.name.endswith("::map_err"):
                for a in c.args[:1]:
                    p = op_place(a)
                    if p is not None and p["l"] in t:
                        t[c.dest["l"]] = t[p["l"]]
                        changed = True
    cache[size] = t
    return t


def hazards(fn):
    """[(bb, kind, [tainted operand descriptions], [operand places])] overflow-capable asserts on tainted integers"""
    t = tainted_locals(fn)
    out = []
    if not t:
        return out
    for bb, term in query.asserts(fn):
        descs = []
        ops = list(term["ops"])
        if term["kind"].startswith(("DivisionByZero", "RemainderByZero")):
            # the operand that matters is the divisor: the assert condition is `divisor == 0`
            cp = op_place(term.get("cond", {}))
            if cp is not None and "p" not in cp:
                for d in flow.whole_defs(fn, cp["l"]):
                    if d.kind == "stmt" and d.rv["k"] == "bin" and d.rv["op"] == "Eq":
                        ops.append(d.rv["a"])
        for o in ops:
            p = op_place(o)
            if p is not None and p["l"] in t:
                descs.append(t[p["l"]])
        if descs:
            out.append((bb, term["kind"], descs, term["ops"]))
    return out


def divisor_of(fn, term):
    cp = op_place(term.get("cond", {}))
    if cp is not None and "p" not in cp:
        for d in flow.whole_defs(fn, cp["l"]):
            if d.kind == "stmt" and d.rv["k"] == "bin" and d.rv["op"] == "Eq":
                return d.rv["a"]
    return None


def nonzero_guard(fn, bb, divisor):
    """the division at bb is control-dependent on a test that makes the divisor non-zero: a comparison of (a value with
    the same roots as) the divisor with 0 / > 0, or `is_empty()` false on the slice whose length it is"""
    if divisor is None:
        return None
    roots = {o.key() for o in flow.origins(fn, divisor)}
    len_recv = set()
    for o in flow.origins(fn, divisor):
        if o.kind == "call" and o.call.name.endswith("::len") and o.call.args:
            len_recv |= {x.key() for x in flow.origins(fn, o.call.args[0])}
    for (sb, taken) in flow.guards(fn, bb):
        cd = flow.cond_of(fn, sb)
        side = flow.bool_true_labels(taken)
        if side is None:
            continue
        truth = (side != cd.neg)
        if cd.kind == "call" and cd.call.name.endswith("::is_empty") and cd.call.args and not truth:
            if {x.key() for x in flow.origins(fn, cd.call.args[0])} & len_recv:
                return "!is_empty()"
        if cd.kind == "bin" and cd.rv["op"] in ("Eq", "Ne", "Gt", "Lt", "Ge", "Le"):
            from .facts import const_int
            a_r = {o.key() for o in flow.origins(fn, cd.rv["a"])}
            kb = const_int(cd.rv["b"])
            if (a_r & roots) and kb is not None:
                op = cd.rv["op"]
                if (op == "Eq" and kb == 0 and not truth) or (op == "Ne" and kb == 0 and truth) or \
                        (op == "Gt" and kb >= 0 and truth) or (op == "Ge" and kb >= 1 and truth) or \
                        (op == "Lt" and kb <= 1 and not truth) or (op == "Le" and kb <= 0 and not truth):
                    return "compared with %d" % kb
    return None


def positive_guard(fn, bb, operand):
    """the site is control-dependent on `operand > k` (k >= 0) or `operand >= k` (k >= 1)"""
    if operand is None:
        return None
    from .facts import const_int
    roots = {o.key() for o in flow.origins(fn, operand)}
    for (sb, taken) in flow.guards(fn, bb):
        cd = flow.cond_of(fn, sb)
        side = flow.bool_true_labels(taken)
        if side is None or cd.kind != "bin":
            continue
        truth = (side != cd.neg)
        a_r = {o.key() for o in flow.origins(fn, cd.rv["a"])}
        kb = const_int(cd.rv["b"])
        if (a_r & roots) and kb is not None:
            op = cd.rv["op"]
            if (op == "Gt" and kb >= 0 and truth) or (op == "Ge" and kb >= 1 and truth) or \
                    (op == "Le" and kb >= 0 and not truth) or (op == "Lt" and kb >= 1 and not truth):
                return "%s %d" % (op, kb)
    return None


def comparison_guards(fn, bb, operand_locals):
    """dominating comparisons that mention (a value derived from the same roots as) the operands"""
    roots = set()
    for l in operand_locals:
        for o in flow.origins(fn, l):
            roots.add((o.kind, o.bb, o.arg, o.idx))
    found = []
    for g in flow.guard_facts(None, fn, bb) if False else []:
        pass
    for (sb, taken) in flow.guards(fn, bb):
        cd = flow.cond_of(fn, sb)
        ops = []
        if cd.kind == "bin" and cd.rv["op"] in ("Lt", "Le", "Gt", "Ge", "Eq", "Ne"):
            ops = [cd.rv["a"], cd.rv["b"]]
        elif cd.kind == "call" and (cd.call.path or "").startswith("core::cmp::"):
            ops = cd.call.args
        elif cd.kind == "discr" and cd.place is not None:
            # match on Ordering / Option of a call on the value
            for o in flow.origins(fn, {"cp": cd.place}):
                if o.kind == "call":
                    ops = o.call.args
        for a in ops:
            for o in flow.origins(fn, a):
                if (o.kind, o.bb, o.arg, o.idx) in roots:
                    found.append((sb, cd.rv["op"] if cd.kind == "bin" else (cd.call.name.split("::")[-1] if cd.call else "match")))
    return found


ALLOC_SINKS = {
    "alloc::vec::Vec::with_capacity": 0, "alloc::string::String::with_capacity": 0, "alloc::str::<impl str>::repeat": 1,
    "alloc::vec::Vec::reserve": 1, "alloc::vec::Vec::resize": 1, "alloc::vec::from_elem": 1,
    "alloc::string::String::reserve": 1, "alloc::slice::<impl [T]>::repeat": 1,
    "alloc::collections::vec_deque::VecDeque::with_capacity": 0,
}


def alloc_hazards(fn):
    """[(bb, callee, description)] allocation sizes taken from a template-controlled integer"""
    t = tainted_locals(fn, size=True)
    out = []
    if not t:
        return out
    for c in fn.calls():
        idx = ALLOC_SINKS.get(c.name)
        if idx is None or idx >= len(c.args):
            continue
        p = op_place(c.args[idx])
        if p is not None and p["l"] in t:
            out.append((c.bb, c.name, t[p["l"]]))
    return out


def wide_arithmetic(fn, term, depth=0):
    """the asserted operation is carried out in a 128-bit type on operands widened from at most 64 bits:
    add / sub / neg / mul / div cannot overflow"""
    def narrow(op, d=0):
        if "c" in op:
            return True
        if d > 4:
            return False
        ok = True
        any_ = False
        for o in flow.origins(fn, op, through_casts=False):
            any_ = True
            if o.kind == "cast":
                frm = o.rv["from"]
                if frm in ("i128", "u128"):
                    ok = ok and narrow(o.rv["op"], d + 1)
                elif frm not in INT_TYPES and frm not in ("bool", "char", "f64", "f32"):
                    ok = False
            elif o.kind == "bin":
                ok = ok and narrow(o.rv["a"], d + 1) and narrow(o.rv["b"], d + 1)
            elif o.kind == "un":
                ok = ok and narrow(o.rv["a"], d + 1)
            elif o.kind == "const":
                pass
            else:
                ok = False
        return ok and any_
    tys = set()
    for o in term["ops"]:
        p = op_place(o)
        if p is not None and "p" not in p:
            tys.add(fn.locals[p["l"]].get("s"))
        elif "c" in o:
            tys.add(o["c"].get("ty"))
    if not tys or not tys <= {"i128", "u128"}:
        return False
    return all(narrow(o) for o in term["ops"])


def constant_bound_guards(fn, bb, local):
    """dominating comparisons of (a value sharing roots with) `local` against a constant"""
    roots = {(o.kind, o.bb, o.arg, o.idx) for o in flow.origins(fn, local)}
    out = []
    for (sb, taken) in flow.guards(fn, bb):
        cd = flow.cond_of(fn, sb)
        if cd.kind == "bin" and cd.rv["op"] in ("Lt", "Le", "Gt", "Ge"):
            a, b = cd.rv["a"], cd.rv["b"]
            for x, y in ((a, b), (b, a)):
                if "c" in y and "c" not in x:
                    xo = flow.origins(fn, x)
                    if {(o.kind, o.bb, o.arg, o.idx) for o in xo} & roots:
                        out.append((sb, cd.rv["op"], y["c"].get("named") or y["c"].get("int")))
                        continue
                    # a bound on `value - xs.len()`: what the value exceeds the constant by is backed by memory that
                    # already exists (`count - current.len() > 100000 => Err`, then `current.resize(count, ..)`)
                    hit = False
                    for o in xo:
                        if o.kind == "bin" and o.rv.get("op") in ("Sub", "SubWithOverflow") and "c" not in o.rv["a"] and "c" not in o.rv["b"]:
                            if ({(q.kind, q.bb, q.arg, q.idx) for q in flow.origins(fn, o.rv["a"])} & roots) and any(
                                    q.kind == "call" and q.call.name.split("::")[-1] == "len" for q in flow.origins(fn, o.rv["b"])):
                                hit = True
                    if hit:
                        out.append((sb, cd.rv["op"], y["c"].get("named") or y["c"].get("int")))
                        continue
                    # a bound on a checked product / sum of the value bounds the value (where the other operand is
                    # zero nothing is allocated or iterated)
                    for o in xo:
                        if o.kind == "call" and re.search(r"::(checked_mul|checked_add|saturating_mul|saturating_add)$", o.call.name):
                            if any({(q.kind, q.bb, q.arg, q.idx) for q in flow.origins(fn, a_)} & roots for a_ in o.call.args if "c" not in a_):
                                out.append((sb, cd.rv["op"], y["c"].get("named") or y["c"].get("int")))
                                break
    return out


def constant_bound_through_helpers(prog, fn, bb, local):
    """the same, when the comparison was moved into a private checking helper (`ok!(check_width(width))`): read through
    the helper, some side of a comparison of the value with a constant must be the only way to reach bb once the
    helper's verdict - a `Result` built on both sides of the comparison - is followed to the test of it"""
    from . import cfg
    direct = constant_bound_guards(fn, bb, local)
    if direct:
        return direct
    v = prog.view(fn.path) if not getattr(fn, "inlined", None) else fn
    if not getattr(v, "inlined", None) or bb not in v.reachable:
        return []
    roots = {(o.kind, o.bb, o.arg, o.idx) for o in flow.origins(v, local)}
    out = []
    for sb in sorted(v.reachable):
        if v.term(sb)["k"] != "switch":
            continue
        cd = flow.cond_of(v, sb)
        if cd.kind != "bin" or cd.rv["op"] not in ("Lt", "Le", "Gt", "Ge"):
            continue
        a, b = cd.rv["a"], cd.rv["b"]
        for x, y in ((a, b), (b, a)):
            if "c" in y and "c" not in x and {(o.kind, o.bb, o.arg, o.idx) for o in flow.origins(v, x)} & roots:
                for s_ in set(v.succ[sb]):
                    if bb not in cfg.reach_with_variant_phis(v, {(sb, s_)}):
                        out.append((sb, cd.rv["op"], y["c"].get("named") or y["c"].get("int")))
                        break
    return out


def leaf_roots(fn, op, depth=0):
    """leaf origins of an arithmetic expression (bins expanded into their operands)"""
    out = set()
    for o in flow.origins(fn, op):
        if o.kind == "bin" and depth < 4:
            out |= leaf_roots(fn, o.rv["a"], depth + 1) | leaf_roots(fn, o.rv["b"], depth + 1)
        elif o.kind == "const":
            continue
        elif o.kind == "call" and depth < 4:
            recv = frozenset(leaf_roots(fn, o.call.args[0], depth + 1)) if o.call.args else frozenset()
            out.add(("call", o.call.name, recv))
        else:
            out.add((o.kind, o.bb, o.arg, o.idx))
    return out


def loop_count_hazards(fn):
    """[(bb, description, end operand)] `a..b` ranges that are iterated and whose end is a template-controlled integer"""
    t = tainted_locals(fn)
    out = []
    if not t:
        return out
    for bb, i, s in fn.all_stmts():
        rv = s.get("rv", {})
        if rv.get("k") != "agg" or rv.get("adt") not in ("core::ops::range::Range", "core::ops::range::RangeInclusive"):
            continue
        if "p" in s["place"]:
            continue
        # iterated? the range value reaches IntoIterator::into_iter / Iterator::next
        dst = s["place"]["l"]
        iterated = False
        for c in fn.calls():
            if c.name.endswith(("::into_iter", "Iterator>::next", "Iterator::next", "::rev", "::step_by", "::map", "::for_each")) and c.args:
                if any(o.kind == "agg" and o.bb == bb for o in flow.origins(fn, c.args[0])):
                    iterated = True
        if not iterated:
            continue
        end = rv["ops"][1] if len(rv["ops"]) > 1 else None
        if end is None:
            continue
        descs = []
        p = op_place(end)
        cands = []
        if p is not None:
            cands.append(p["l"])
        for o in flow.origins(fn, end):
            if o.kind == "bin":
                for side in ("a", "b"):
                    pp = op_place(o.rv[side])
                    if pp is not None:
                        cands.append(pp["l"])
        for l in cands:
            if l in t:
                descs.append(t[l])
        if descs:
            out.append((bb, descs[0], end))
    return out


def bounded_by_constant(fn, bb, end):
    """a dominating comparison of an expression with the same leaves as `end` against a constant"""
    leaves = leaf_roots(fn, end)
    for (sb, taken) in flow.guards(fn, bb):
        cd = flow.cond_of(fn, sb)
        if cd.kind == "bin" and cd.rv["op"] in ("Lt", "Le", "Gt", "Ge"):
            a, b = cd.rv["a"], cd.rv["b"]
            for x, y in ((a, b), (b, a)):
                if "c" in y and "c" not in x:
                    lx = leaf_roots(fn, x)
                    if lx and lx <= leaves or (leaves and leaves <= lx):
                        return "%s %s" % (cd.rv["op"], y["c"].get("named") or y["c"].get("int"))
    return None



def _wide_roots(fn, op, depth=0):
    """origin keys of a value, looking through `max` / `min` / casts and - one level - through calls that compute an
    integer from integer arguments (`random_range(min, max)`): a bound on every argument bounds the result"""
    out = set()
    for o in flow.origins(fn, op):
        if o.kind == "call" and depth < 2 and (re.search(r"::(max|min)$", o.call.name) or (
                o.call.args and all("c" in a or _is_int_ty(fn.locals[op_place(a)["l"]]) or fn.locals[op_place(a)["l"]].get("s", "").startswith("&mut ")
                                    for a in o.call.args if "c" in a or op_place(a) is not None))):
            sub = set()
            for a in o.call.args:
                if "c" not in a and op_place(a) is not None and _is_int_ty(fn.locals[op_place(a)["l"]]):
                    sub |= _wide_roots(fn, a, depth + 1)
            if sub:
                out |= sub
                continue
        if o.kind == "bin" and depth < 2:
            for side in ("a", "b"):
                if "c" not in o.rv[side]:
                    out |= _wide_roots(fn, o.rv[side], depth + 1)
            continue
        out.add((o.kind, o.bb, o.arg, o.idx))
    return out


def bounded_on_all_paths(fn, sink_bb, local):
    """every path from the entry to `sink_bb` takes the bounded side of a comparison of (a value sharing roots with, or
    a checked product / sum of) `local` with a constant.  Path-sensitive over `matches!`-style booleans, so it also
    sees `if !matches!(a.checked_mul(n), Some(len) if len <= MAX) { return Err }`."""
    roots = _wide_roots(fn, local) if not isinstance(local, int) else _wide_roots(fn, {"cp": {"l": local}})
    evid = set()
    for sb in sorted(fn.reachable):
        t = fn.term(sb)
        if t["k"] != "switch":
            continue
        cd = flow.cond_of(fn, sb)
        if cd.kind != "bin" or cd.rv["op"] not in ("Lt", "Le", "Gt", "Ge"):
            continue
        a, b = cd.rv["a"], cd.rv["b"]
        for x, y, swapped in ((a, b, False), (b, a, True)):
            if "c" not in y or "c" in x:
                continue
            xo = flow.origins(fn, x)
            rel = bool({(o.kind, o.bb, o.arg, o.idx) for o in xo} & roots)
            if not rel:
                for o in xo:
                    if o.kind == "call" and re.search(r"::(checked_mul|checked_add|saturating_mul|saturating_add)$", o.call.name):
                        covered = set()
                        for a_ in o.call.args:
                            if "c" not in a_:
                                covered |= _wide_roots(fn, a_)
                        # every root of the value takes part in the bounded product / sum
                        if roots and roots <= covered:
                            rel = True
            if not rel:
                continue
            # `x OP const` (or `const OP x` when swapped): on which side is x bounded above?
            op = cd.rv["op"]
            upper_when_true = (op in ("Lt", "Le")) != swapped
            for e in cfg.bool_edges(fn, sb, upper_when_true != cd.neg):
                evid.add(e)
    if not evid:
        return False
    reach, _ = cfg.reach_with_bool_phis(fn, evid)
    return sink_bb not in reach



TYPE_MAX = {"u8": 2 ** 8 - 1, "u16": 2 ** 16 - 1, "u32": 2 ** 32 - 1, "u64": 2 ** 64 - 1, "usize": 2 ** 64 - 1,
            "u128": 2 ** 128 - 1, "i8": 2 ** 7 - 1, "i16": 2 ** 15 - 1, "i32": 2 ** 31 - 1, "i64": 2 ** 63 - 1,
            "isize": 2 ** 63 - 1, "i128": 2 ** 127 - 1}


def constant_divisor(fn, term):
    """`x / c`, `x % c` with a literal c: c != 0 for the by-zero assert, c != -1 for the MIN / -1 overflow assert"""
    from .facts import const_int
    kind = term["kind"]
    if kind.startswith(("DivisionByZero", "RemainderByZero")):
        d = divisor_of(fn, term)
        if d is None:
            # the condition was folded away: the assert's condition is a constant
            c = term.get("cond", {})
            return "c" in c
        v = const_int(d) if "c" in d else None
        return v is not None and v != 0
    if kind.startswith(("Overflow:Div", "Overflow:Rem")) and len(term.get("ops", [])) == 2:
        d = term["ops"][1]
        v = const_int(d) if "c" in d else None
        return v is not None and v != -1
    return False


def below_max_guard(fn, bb, term):
    """`x + 1` where a dominating test excluded the type's maximum for x (`if idx == !0 { return }`)"""
    from .facts import const_int
    if not term["kind"].startswith("Overflow:Add") or len(term.get("ops", [])) != 2:
        return False
    a, b = term["ops"]
    for x, k in ((a, b), (b, a)):
        if "c" in x or "c" not in k or const_int(k) != 1:
            continue
        roots = {o.key() for o in flow.origins(fn, x)}
        for (sb, taken) in flow.guards(fn, bb):
            cd = flow.cond_of(fn, sb)
            side = flow.bool_true_labels(taken)
            if side is None or cd.kind != "bin" or cd.rv["op"] not in ("Eq", "Ne"):
                continue
            truth = side != cd.neg
            for u, v in ((cd.rv["a"], cd.rv["b"]), (cd.rv["b"], cd.rv["a"])):
                if "c" in u:
                    continue
                if "c" in v:
                    vv = const_int(v)
                else:
                    # `!0`: Not applied to the literal 0
                    vo = flow.origins(fn, v)
                    vv = None
                    if len(vo) == 1 and vo[0].kind == "un" and vo[0].rv.get("op") == "Not" and "c" in vo[0].rv["a"] \
                            and const_int(vo[0].rv["a"]) == 0:
                        vv = TYPE_MAX.get(cd.rv.get("ty"))
                    elif len(vo) == 1 and vo[0].kind == "const":
                        vv = const_int({"c": vo[0].const})
                if vv is None or vv != TYPE_MAX.get(cd.rv.get("ty")):
                    continue
                if not ({o.key() for o in flow.origins(fn, u)} & roots):
                    continue
                if (cd.rv["op"] == "Eq" and not truth) or (cd.rv["op"] == "Ne" and truth):
                    return True
    return False
