"""C05 — scoped constructs restore scope, capture and escape state on every path.

Decided on all paths of the code generator (i.e. for every template the compiler accepts) and of the VM helpers:
 B1 emission balance: PushWith/PushLoop vs PopFrame/PopLoopFrame, BeginCapture vs EndCapture, PushAutoEscape vs
    PopAutoEscape, span stack pushes vs pops and the pending-block stack (Branch / Loop / ScBool / Scope) are balanced
    and properly nested on every CFG path of every CodeGenerator method; recursive compile_* functions are neutral.
 B2 break/continue cross no unclosed scope: wherever child statements are compiled while a frame / capture /
    auto-escape scope opened by the same construct is still open and no loop was started in between, that scope is
    registered as a pending `Scope` of the matching kind; the Break and Continue handlers call the routine that closes
    the registered scopes up to the innermost loop before they emit the jump, and that routine emits the matching
    closing instruction for every kind.  Constructs whose body is a separate evaluation (blocks via a sub-generator,
    macro bodies ending in Return) and the for-else body must be parsed with `in_loop` reset.
 B3 VM pairs: in the interpreter helpers every opener is followed by its closer on every path to a return
    (incr_depth/decr_depth, take_closure/reset_closure, push_frame/pop_frame, BlockStack push/pop, context swap),
    with reviewed exceptions for error paths that abort the whole render.
 B4 with_execution_state writes back every field of State it replaced.
 B5 instruction handlers do what their names say: opener handlers push exactly their resource, closers pop it.
 B8 the interpreter's program counter only receives positions of the instructions it is running: jump operands of
    the fetched instruction, constants, pc + k, return addresses produced by the same evaluation, and positions
    remembered in objects only behind a comparison of the instructions' identity (c05_jumps).
"""
from .. import cfg, flow, errflow, query, arms
from ..brackets import Analysis, State, GEN, INSTR, PEND, COUNTERS, balanced_in_context
from ..facts import op_place, norm_path, const_int

COMPILE_STMT = GEN + "::compile_stmt"
CLOSE = GEN + "::close_scopes_up_to_loop"
STMT = "minijinja::compiler::ast::Stmt"
PARSER = "minijinja::compiler::parser::Parser"
EI = "minijinja::vm::Executor::eval_impl"
SCOPE_OF = {"frames": "Frame", "captures": "Capture", "autoescapes": "AutoEscape"}
CLOSER_OF = {"Frame": {"PopFrame"}, "Capture": {"EndCapture", "DiscardTop"}, "AutoEscape": {"PopAutoEscape"}}


def check_closure_ownership(ctx, prog, tag):
    """B12 (round 11, seed C05-11): the closure attached to a frame receives every assignment made in that frame
    (`Context::store`) and is what macros declared there see.  It therefore belongs to one frame: what is installed as a
    frame's closure is a closure created for it on the spot (the index of a freshly pushed `Closure`), the value that
    `take_closure()` removed from the same place earlier (the include pairing), or nothing.  A frame that *joins* the
    closure of an enclosing frame writes its own assignments into the outer scope: they survive `PopFrame`, and macros
    declared outside see values assigned inside a `with` / loop / block."""
    n = 0
    setters = [k for k in prog.fns if k.endswith("Context::reset_closure")]
    for sk in setters:
        for c in prog.calls_of(sk):
            g = c.fn
            if g.crate != "minijinja" or len(c.args) < 2:
                continue
            n += 1
            bad = []

            def scan(op, depth=0):
                if "c" in op or depth > 4:
                    return
                for o in flow.origins(g, op):
                    if o.kind == "agg" and o.rv.get("variant") in ("None",):
                        continue
                    if o.kind == "agg" and o.rv.get("variant") == "Some":
                        for x in o.rv["ops"]:
                            scan(x, depth + 1)
                        continue
                    if o.kind == "call" and o.call.name.endswith(("Context::take_closure", "::take_closure")):
                        continue
                    if o.kind == "call" and o.call.name.rsplit("::", 1)[-1] == "len" and "Vec" in o.call.name:
                        continue
                    if o.kind == "bin" and o.rv["op"] in ("Sub", "SubWithOverflow") and const_int(o.rv["b"]) == 1:
                        scan(o.rv["a"], depth + 1)
                        continue
                    if o.kind == "arg" and g.kind != "closure":
                        continue            # handed through by a wrapper: its callers are checked where they call the setter
                    bad.append(repr(o)[:90])
            scan(c.args[1])
            ctx.ob("C05.B12.a-frame's-closure-is-created-for-it", "%s%s|reset_closure" % (tag, g.path.split("::")[-1] if g.kind != "closure" else g.path), not bad,
                   "the closure installed for the current frame is neither fresh, nor the one taken from it before, nor None (%s): "
                   "assignments of this frame land in another frame's closure" % bad, g.where(c.bb))
    return n


def run(ctx):
    ctx.explain("C05: path-sensitive typestate analysis of the code generator (counters for frames / captures / "
                "auto-escape / spans and the pending-block stack, bottom-up summaries, recursive functions verified "
                "neutral, states must agree at joins) deciding emission balance for every template the compiler "
                "accepts; a coverage rule linking open scopes around child statements to the scopes break/continue "
                "close; parser-side `in_loop` resets for bodies that are separate evaluations; pairing rules for the "
                "VM's nested-evaluation helpers; restore rule for with_execution_state; handler/instruction "
                "agreement.  What remains undecided is only the run-time meaning of the resources themselves.")
    ctx.assume("jump targets patched by end_if/end_for_loop/end_sc_bool are the positions recorded by the matching "
               "start_*: guaranteed by the pending-block nesting that B1 checks")
    # the composition constructs (extends / include / import / super) are scoped constructs too: the C06 rules about the
    # block table, the layer cursor and the discard capture are clauses of this property as well
    if not ctx.is_borrowed:
        from . import c06 as _c06
        _c06.run(ctx.borrowed("C06", "C05.B7:"))
    for cname in ctx.configs():
        prog = ctx.program(cname)
        tag = "" if cname == "MAX" else "[%s]" % cname

        def report(rule, inst, ok, detail, where):
            ctx.ob(rule, tag + inst, ok, detail, where)
        an = Analysis(prog, report)
        gens = sorted(k for k, f in prog.fns.items() if k.startswith(GEN + "::") and f.kind != "closure")
        ctx.floor("C05.B1 CodeGenerator methods" + tag, len(gens), 25)
        # public entries first: a private piece of a construct is then summarised exactly (from its caller) and is
        # never the function a recursion is assumed neutral at
        for g in sorted(gens, key=lambda k: (not prog.fn(k).is_pub, k)):
            s = an.summary(g)
        # B1: every public entry that compiles a whole construct is neutral
        n_neutral = 0
        for g in gens:
            nm = g.split("::")[-1]
            s = an.summaries[g]
            if nm.startswith("compile_") or nm in ("finish",):
                n_neutral += 1
                ok_, how_ = balanced_in_context(an, prog, g, lambda st: st.key() == State().key())
                ctx.ob("C05.B1.construct-is-neutral", tag + g, ok_, "%s %s" % (nm, how_), prog.fn(g).loc)
        ctx.floor("C05.B1 compile_* functions" + tag, n_neutral, 12)
        ctx.count("C05.B1 scope/instruction emission sites" + tag, an.instr_sites)
        ctx.count("C05.B1 join points checked" + tag, sum(len(v) for v in an.states.values()))
        # ---- B11: operand-stack balance of the generator (mjsa/operands.py): every statement leaves the interpreter's
        # operand stack as it found it, every expression helper leaves exactly its value, and the fall-through effects
        # the accounting uses are what the interpreter's handlers do
        from .. import operands
        n11 = operands.check_statements(ctx, prog, tag)
        ctx.floor("C05.B11 statement kinds / expression helpers / handler effects accounted for" + tag, n11, 40 if cname != "MIN" else 20)
        # expected bracket summaries of the helper pairs (measured on the tree, confirmed by reading)
        pairs = {"start_for_loop": ((1, 0, 0), ("Loop",), ()), "end_for_loop": ((-1, 0, 0), (), ("Loop",)),
                 "start_if": ((0, 0, 0), ("Branch",), ()), "end_if": ((0, 0, 0), (), ("Branch",)),
                 "start_sc_bool": ((0, 0, 0), ("ScBool",), ())}
        for nm, (cnt, pend, pops) in pairs.items():
            s = an.summaries.get(GEN + "::" + nm)
            if s is None:
                ctx.need(False, "C05.B1: %s missing" % nm)
            got = ((s.c["frames"], s.c["captures"], s.c["autoescapes"]), s.pend, tuple(p.rstrip("?") for p in s.pops))
            ctx.ob("C05.B1.helper-bracket-shape", tag + nm, got == (cnt, pend, pops),
                   "%s has effect %r" % (nm, s), prog.fn(GEN + "::" + nm).loc)

        # ---- B2
        cs = prog.fn(COMPILE_STMT)
        has_loop_controls = "Break" in prog.variants(STMT)
        open_sites = 0
        def _compiles_statements(path_):
            if path_ == COMPILE_STMT:
                return True
            g_ = prog.fns.get(path_)
            return g_ is not None and path_.startswith(GEN + "::") and any(
                "ast::Stmt" in g_.locals[l_].get("s", "") for l_ in range(2, g_.argc + 1))
        for (f, bb, st, callee) in an.child_sites:
            if not _compiles_statements(callee):
                continue
            # scopes opened since the last Loop push (in this function)
            pend = list(st.pend)
            since = pend[max(i for i, k in enumerate(pend) if k == "Loop") + 1:] if "Loop" in pend else pend
            loop_inside = "Loop" in pend
            for counter, kind in SCOPE_OF.items():
                opened = st.c[counter]
                if loop_inside:
                    # the loop frame itself is closed at the loop end where `break` jumps to
                    continue
                if opened <= 0:
                    continue
                open_sites += 1
                reg = sum(1 for k in since if k == "Scope:" + kind)
                ctx.ob("C05.B2.open-scope-is-registered-for-loop-controls", "%s%s|%s" % (tag, f.path, counter),
                       reg == opened or not has_loop_controls,
                       "child statements are compiled with %d %s scope(s) open but %d registered as pending Scope(%s): "
                       "a break/continue in the body jumps out without closing it" % (opened, counter, reg, kind),
                       f.where(bb))
        if has_loop_controls:
            ctx.floor("C05.B2 child-compilation sites inside an open scope" + tag, open_sites, 2)
            # Break / Continue handlers
            # the Break / Continue arms are read through helpers of the generator that are not code generation entry
            # points themselves (`self.innermost_loop_mut()`)
            cs0 = cs
            cs = prog.view(COMPILE_STMT, keep=lambda t: not t.startswith(GEN + "::") or t.split("::")[-1].startswith(
                ("compile_", "add", "start_", "end_", "close_scopes", "set_line", "push_span", "pop_span", "next_instruction", "sc_bool")))
            sw = arms.enum_switches(prog, cs, STMT)
            ctx.need(sw, "C05.B2: compile_stmt dispatch not found")
            regs = arms.arm_regions(prog, cs, sw[0][0], STMT)
            for v in ("Break", "Continue"):
                reg = regs[v]
                closes = [c for c in arms.calls_in(cs, reg) if c.name == CLOSE]
                jumps = [c for c in arms.calls_in(cs, reg) if c.name.startswith(GEN + "::add") and "Jump" in an.instr_variant(cs, c.args[1])]
                ok = bool(closes) and bool(jumps) and all(any(cfg.dominates(cs, k.bb, j.bb) for k in closes) for j in jumps)
                ctx.ob("C05.B2.loop-control-closes-scopes-before-jump", tag + "compile_stmt|" + v, ok,
                       "the %s handler must call close_scopes_up_to_loop before emitting its Jump (closes: %d, jumps: %d)"
                       % (v, len(closes), len(jumps)), cs.loc)
                other = {x for c in arms.calls_in(cs, reg) if c.name.startswith(GEN + "::add") for x in an.instr_variant(cs, c.args[1])} - {"Jump"}
                ctx.ob("C05.B2.loop-control-emits-only-jump", tag + "compile_stmt|" + v, not other,
                       "handler emits %s besides the jump" % sorted(other), cs.loc)
            if prog.has_fn(CLOSE):
                cl = prog.fn(CLOSE)
                sk = "minijinja::compiler::codegen::ScopeKind"
                sw2 = arms.enum_switches(prog, cl, sk)
                ctx.need(sw2, "C05.B2: close_scopes_up_to_loop has no switch on ScopeKind")
                r2 = arms.arm_regions(prog, cl, sw2[0][0], sk)
                for kind, want in CLOSER_OF.items():
                    got = {x for c in arms.calls_in(cl, r2.get(kind, set())) if c.name.startswith(GEN + "::add")
                           for x in an.instr_variant(cl, c.args[1])}
                    ctx.ob("C05.B2.scope-kind-closed-by-matching-instruction", tag + kind, got == want,
                           "Scope(%s) is closed by %s, expected %s" % (kind, sorted(got), sorted(want)), cl.loc)
                # sibling agreement: the scope walk and the jump-target search of Break/Continue look for the
                # loop from the same end of the pending-block stack (the innermost one)
                dirs = {"close_scopes_up_to_loop": scan_direction(prog, [cl] + prog.closures_of(cl.path), None)}
                for v in ("Break", "Continue"):
                    dirs[v] = scan_direction(prog, [cs], regs[v])
                ctx.ob("C05.B2.scope-walk-and-jump-target-agree-on-the-loop", tag + "pending_block scan direction",
                       len(set(dirs.values())) == 1 and "reverse" in dirs.values(),
                       "pending blocks are searched for the enclosing loop in these directions: %s — break/continue "
                       "jump to the innermost loop, so the scopes to close are those above the innermost loop" % dirs,
                       cl.loc)
                # the walk stops at the innermost loop and emits nothing when there is none
                stops = any(flow.cond_of(g_, bb).kind == "discr" and flow.cond_of(g_, bb).adt == PEND
                            for g_ in [cl] + prog.closures_of(cl.path)
                            for bb in g_.reachable if g_.term(bb)["k"] == "switch")
                ctx.ob("C05.B2.scope-walk-stops-at-loop", tag + CLOSE, stops, "", cl.loc)
            else:
                ctx.ob("C05.B2.loop-control-closes-scopes-before-jump", tag + "close_scopes_up_to_loop", False,
                       "no routine closes open scopes for break/continue", cs.loc)
            check_parser_resets(ctx, prog, tag, an)

        # ---- B5
        ev = prog.fn(EI)
        disp = arms.enum_switches(prog, ev, INSTR)
        vregs = arms.arm_regions(prog, ev, disp[0][0], INSTR)
        handler = {
            "PushWith": [("minijinja::vm::context::Context::push_frame", 1)],
            "PopFrame": [("minijinja::vm::context::Context::pop_frame", 1)],
            "PopLoopFrame": [("minijinja::vm::context::Context::pop_frame", 1)],
            "PushLoop": [("minijinja::vm::Executor::push_loop", 1)],
            "BeginCapture": [("minijinja::output::Output::begin_capture", 1)],
        }
        for v, wants in handler.items():
            reg = vregs.get(v, set())
            for callee, n in wants:
                got = sum(1 for c in arms.calls_in(ev, reg) if c.name == callee)
                ctx.ob("C05.B5.handler-performs-its-operation", "%s%s|%s" % (tag, v, callee.split("::")[-1]), got == n,
                       "handler of %s calls %s %d time(s), expected %d" % (v, callee.split("::")[-1], got, n), ev.loc)
            # and no call of the opposite operation
        opp = {"PushWith": "pop_frame", "PopFrame": "push_frame", "BeginCapture": "end_capture", "EndCapture": "begin_capture"}
        for v, bad in opp.items():
            reg = vregs.get(v, set())
            got = [c.name for c in arms.calls_in(ev, reg) if c.name.endswith("::" + bad)]
            ctx.ob("C05.B5.handler-has-no-opposite-operation", "%s%s" % (tag, v), not got, "%s" % got, ev.loc)
        # EndCapture: one end_capture; PopLoopFrame's second end_capture belongs to loop recursion (guarded)
        ec = [c for c in arms.calls_in(ev, vregs.get("EndCapture", set())) if c.name == "minijinja::output::Output::end_capture"]
        ctx.ob("C05.B5.handler-performs-its-operation", tag + "EndCapture|end_capture", len(ec) == 1, "", ev.loc)
        pl = prog.fn("minijinja::vm::Executor::push_loop")
        ctx.ob("C05.B5.push_loop-pushes-one-frame", tag + pl.path,
               len(pl.calls_to("minijinja::vm::context::Context::push_frame")) == 1, "", pl.loc)
        # auto-escape stack
        for v, op_ in (("PushAutoEscape", "alloc::vec::Vec::push"), ("PopAutoEscape", "alloc::vec::Vec::pop")):
            reg = vregs.get(v, set())
            n = sum(1 for c in arms.calls_in(ev, reg) if c.name == op_)
            stores = [d for d in flow.stores(ev) if d.bb in reg and "auto_escape" in flow._proj_names(d.place)]
            ctx.ob("C05.B5.handler-performs-its-operation", "%s%s|auto_escape_stack" % (tag, v), n == 1 and len(stores) == 1,
                   "%s: %d stack operations, %d writes of state.auto_escape" % (v, n, len(stores)), ev.loc)

        # B5b (round 13, seed C05-13): ... on *every* path.  A handler that opens or closes a scope only under a condition
        # ("the mode is already the requested one: nothing to save") leaves its partner without a way to know whether
        # there is something of its own to undo: the partner then takes what an enclosing construct saved.  Every path
        # from the arm's entry to the next instruction (exits from which the dispatch is reached again; error exits
        # return) passes the operation - and, for the auto-escape pair, the write of the mode.
        tg5 = arms.variant_targets(prog, ev, disp[0][0], INSTR)
        back_to_dispatch = {b for b in ev.reachable if disp[0][0] in cfg.reach_from(ev, b)}
        n5b = 0
        every = [(v, [c.bb for c in arms.calls_in(ev, vregs.get(v, set())) if c.name == callee], callee.split("::")[-1])
                 for v, wants in handler.items() for callee, _n in wants]
        for v, op_ in (("PushAutoEscape", "alloc::vec::Vec::push"), ("PopAutoEscape", "alloc::vec::Vec::pop")):
            reg = vregs.get(v, set())
            every.append((v, [c.bb for c in arms.calls_in(ev, reg) if c.name == op_], "auto_escape_stack." + op_.split("::")[-1]))
            every.append((v, [d.bb for d in flow.stores(ev) if d.bb in reg and "auto_escape" in flow._proj_names(d.place)],
                          "write of state.auto_escape"))
        for v, must, what in every:
            reg = vregs.get(v, set())
            entry = tg5.get(v)
            if entry is None or not must or v == "PopLoopFrame":
                continue
            exits = {s_ for b in reg for s_ in ev.succ[b] if s_ not in reg and s_ in back_to_dispatch}
            if not exits:
                continue
            n5b += 1
            ctx.ob("C05.B5.handler-performs-its-operation-on-every-path", "%s%s|%s" % (tag, v, what),
                   cfg.paths_must_pass(ev, entry, must, exits),
                   "a path through the handler of %s reaches the next instruction without the %s: its partner cannot tell "
                   "whether there is something of this construct's own to undo and takes what an enclosing construct saved"
                   % (v, what), ev.where(entry))
        ctx.floor("C05.B5b handler operations checked on every path" + tag, n5b, 6)

        # ---- B6: operands around the computed jump of a recursive loop.  PopLoopFrame returns a recursive loop
        # invocation to its call site (`pc = target` from LoopState::current_recursion_jump); whatever the code
        # generator emits at the loop end before PopLoopFrame runs for recursive invocations too, and nothing at the
        # call site consumes what it pushes.  So every instruction emitted by `end_for_loop` ahead of PopLoopFrame
        # must push nothing on the paths where the current loop is a recursive invocation.
        plf = vregs.get("PopLoopFrame", set())
        rec_jump = any(c.name == "core::option::Option::take" and any("current_recursion_jump" in o.proj for o in flow.origins(ev, c.args[0]))
                       for c in arms.calls_in(ev, plf))
        efl = prog.fns.get(GEN + "::end_for_loop")
        if rec_jump and efl is not None:
            emitted = []
            for bb, i, rv in arms.aggregates_in(efl, efl.reachable, INSTR):
                if rv.get("variant") not in ("Jump", "PopLoopFrame"):
                    emitted.append(rv.get("variant"))
            ctx.count("C05.B6 instructions emitted at the loop end before PopLoopFrame", len(emitted))
            for v in sorted(set(emitted)):
                reg = vregs.get(v, set())
                entry = arms.variant_targets(prog, ev, disp[0][0], INSTR).get(v)
                removed = set()
                for sb in sorted(reg):
                    if ev.term(sb)["k"] != "switch":
                        continue
                    cd = flow.cond_of(ev, sb)
                    if cd.kind == "call" and cd.call.name in ("core::option::Option::is_none", "core::option::Option::is_some") and any(
                            "current_recursion_jump" in o.proj for o in flow.origins(ev, cd.call.args[0])):
                        # drop the edges taken when the loop is NOT a recursive invocation
                        none_true = cd.call.name.endswith("is_none")
                        removed |= cfg.bool_edges(ev, sb, none_true != cd.neg)
                reach = cfg.reach_from(ev, entry, removed_edges=removed) & reg if entry is not None else set()
                pushes = [c for c in arms.calls_in(ev, reach) if c.name == "minijinja::vm::context::Stack::push"]
                ctx.ob("C05.B6.loop-end-pushes-nothing-for-recursive-invocations", tag + v, not pushes,
                       "%s is emitted at the end of every for loop ahead of PopLoopFrame and pushes an operand also when "
                       "the loop is a recursive invocation; PopLoopFrame then jumps back to the `loop(..)` call site, "
                       "where nothing consumes it: each recursive call leaks an operand and later operators read the "
                       "wrong values" % v, ev.where(entry) if entry is not None else ev.loc)
        elif efl is not None:
            ctx.count("C05.B6 not applicable: PopLoopFrame has no computed jump")

        # ---- B9: the assignment tracker (compiler/meta.rs) decides which outer names a macro / call body encloses.  Its
        # scopes must end where the engine's frames end and every statement list must be walked in its own right,
        # otherwise a name bound in a loop body still counts as bound in the for-else branch and a macro there does not
        # enclose the outer variable (shared with C18.W6 / W1)
        if cname == "MAX" and prog.has_fn("minijinja::compiler::meta::track_walk"):
            from . import c18 as _c18
            ce_, me_, _cs, _ms = _c18.labelled_events(prog)
            n9 = _c18.check_scope_mirroring(ctx, prog, tag, "C05.B9.tracker-scope-ends-where-the-engine's-frame-ends", ce_, me_)
            n9 += _c18.check_statement_lists_walked(ctx, prog, tag, "C05.B9.statement-list-is-walked-in-its-own-scope", ce_, me_)
            ctx.floor("C05.B9 tracker scope obligations" + tag, n9, 5)
        # ---- B10: a nested evaluation that keeps the caller's context (it runs other instructions through
        # `with_execution_state` without installing a new context) gets a frame of its own, so that what the nested code
        # assigns does not land in the caller's scope.  Sibling rule over all such functions: block calls and super() push
        # a frame; an include does not (see known findings: `{% import %}` is compiled as include + ExportLocals and relies
        # on the included template writing into the current frame).
        WES = "minijinja::vm::state::State::with_execution_state"
        PUSHF = "minijinja::vm::context::Context::push_frame"
        n10 = 0
        for f in sorted(prog.fns.values(), key=lambda x: x.path):
            if f.crate != "minijinja" or f.kind == "closure":
                continue
            if not f.calls_to(WES):
                continue
            from .pairs import host_view
            f = host_view(prog, f)      # the frame may be pushed by a helper (`enter_parent_block(state, name)?`)
            wes = f.calls_to(WES)
            swaps = [c for c in f.calls() if c.name == "core::mem::replace" and any(
                o.kind == "arg" and o.proj and o.proj[-1] == "ctx" for o in flow.origins(f, c.args[0]))]
            if swaps:
                continue            # runs in a context of its own (macros)
            for w in wes:
                n10 += 1
                pushes = [c for c in f.calls_to(PUSHF) if cfg.dominates(f, c.bb, w.bb)]
                # or inside the closure that performs the nested evaluation, before it evaluates
                for cl in prog.closures_of(f.path):
                    evs_ = [c for c in cl.calls() if c.name.endswith("Executor::eval_state") or c.name.endswith("Executor::do_eval")]
                    pushes += [c for c in cl.calls_to(PUSHF) if evs_ and all(cfg.dominates(cl, c.bb, e.bb) for e in evs_)]
                ctx.ob("C05.B10.nested-evaluation-gets-a-frame-of-its-own", tag + f.path.split("::")[-1], bool(pushes),
                       "%s evaluates other instructions on the caller's context without pushing a frame first: what the "
                       "nested code assigns (`{%% set %%}` at the top level of an included template) stays visible to the "
                       "caller after the construct" % f.path.split("::")[-1], f.where(w.bb))
        if prog.has_fn(WES):
            ctx.floor("C05.B10 nested evaluations on the caller's context" + tag, n10, 2)
        # ---- B8: the program counter only ever holds positions of the running instructions (c05_jumps)
        from .c05_jumps import check_jumps
        check_jumps(ctx, prog, tag)

        # ---- B3
        if prog.has_fn("minijinja::vm::Executor::load_blocks"):
            from .c06 import extends_capture_pairing
            op_ok, cl_ok = extends_capture_pairing(prog)
            ctx.ob("C05.B3.extends-discard-capture-is-paired", tag + "eval_impl|LoadBlocks", bool(op_ok) and bool(cl_ok),
                   "the discarding capture of `{%% extends %%}` is %s: the end_capture that runs when the parent's "
                   "instructions take over pops unconditionally, so a conditional begin_capture makes it pop a capture "
                   "that belongs to an enclosing construct (set / filter / import)" % (
                       "not opened on every path after a successful load" if not op_ok else "not closed on every path"),
                   prog.fn(EI).loc)
        check_vm_pairs(ctx, prog, tag)
        from .pairs import check_closers
        nb = check_closers(ctx, prog, tag, "C05.B3.vm-closer-only-after-successful-opener",
                           why=": it undoes state the construct did not set up (a charge that was rolled back, a closure "
                               "that was not taken, a block layer that was not entered)")
        if tag != "[MIN]":
            ctx.floor("C05.B3 closer sites" + tag, nb, 4)
        # ---- B4
        check_with_execution_state(ctx, prog, tag)
        n12 = check_closure_ownership(ctx, prog, tag)
        if any(k.endswith("Context::reset_closure") for k in prog.fns):
            ctx.floor("C05.B12 places that install a frame's closure" + tag, n12, 2)
    ctx.sample({"summaries": {k.split("::")[-1]: repr(v) for k, v in list(an.summaries.items())[:40] if v and v.key() != State().key()}})


def scan_direction(prog, fns, region):
    """how a piece of code walks `self.pending_block`: 'reverse' when the iterator over it is reversed (or an
    r-search is used), 'forward' when it is searched from the front, 'none' when it is not walked"""
    found = set()
    for f in fns:
        for c in f.calls():
            if region is not None and f.kind != "closure" and c.bb not in region:
                continue
            n = c.name
            if not c.args:
                continue
            # receiver chain must start at pending_block
            from_pb = False
            for o in flow.origins(f, c.args[0], through_calls=lambda k: 0 if (
                    k.name.endswith("::iter") or k.name.endswith("::iter_mut") or k.name.endswith("::rev")
                    or k.name.endswith("::into_iter") or k.name.endswith("::deref") or k.name.endswith("::deref_mut")
                    or k.name.endswith("::index") or k.name.endswith("::enumerate")) else None):
                if "pending_block" in o.proj:
                    from_pb = True
            if not from_pb:
                continue
            last = n.split("::")[-1]
            if last in ("rev", "rposition", "rfind", "next_back", "rfold", "last"):
                found.add("reverse")
            elif last in ("position", "find", "find_map", "any", "all", "first"):
                # forward search unless applied on a Rev adaptor
                recv_ty = f.locals[op_place(c.args[0])["l"]]["s"] if op_place(c.args[0]) else ""
                found.add("reverse" if "Rev<" in recv_ty else "forward")
    if "forward" in found and "reverse" not in found:
        return "forward"
    if "reverse" in found and "forward" not in found:
        return "reverse"
    if not found:
        return "none"
    return "mixed"


def check_parser_resets(ctx, prog, tag, an, prefix="C05.B2", why_extra=""):
    """bodies that are separate evaluations must be parsed with in_loop reset; the for-else body with the outer value"""
    # which AST payloads are isolated?  (a) compiled on another generator, (b) function emits Return after children
    isolated_payloads = set()
    for (f, bb, st, callee) in an.child_sites:
        pass
    for g, f in prog.fns.items():
        if not g.startswith(GEN + "::") or f.kind == "closure":
            continue
        emits_return = any("Return" in an.instr_variant(f, c.args[1]) for c in f.calls() if c.name.startswith(GEN + "::add") and len(c.args) > 1)
        other_recv = False
        for c in f.calls():
            if c.name == COMPILE_STMT and c.args and not an.is_self(f, c.args[0]):
                other_recv = True
        if emits_return or other_recv:
            # payload type: the Spanned<T> parameter
            for l in range(2, f.argc + 1):
                for a in f.locals[l].get("args", []) if f.locals[l].get("adt", "").endswith("ast::Spanned") else []:
                    isolated_payloads.add(a.split("<")[0])
    ctx.floor(prefix + " isolated-evaluation constructs" + tag, len(isolated_payloads), 2 if "minijinja::compiler::ast::Block" in prog.adts else 1)
    n = 0
    for g, f in prog.fns.items():
        if not g.startswith(PARSER + "::") or f.kind == "closure":
            continue
        rt = f.locals[0]
        payload = None
        for a in rt.get("args", []):
            base = a.split("<")[0]
            if base in isolated_payloads:
                payload = base
        subs = [c for c in f.calls() if c.name == PARSER + "::subparse"]
        if payload is None or not subs:
            continue
        n += 1
        class _R:
            def __init__(self, bb):
                self.bb = bb
        resets = []
        for c in f.calls():
            if c.name == "core::mem::replace" and len(c.args) == 2 and c.args[1].get("c", {}).get("int") == "0":
                if any("in_loop" in o.proj for o in flow.origins(f, c.args[0])):
                    resets.append(c)
        # the plain form: `let old = self.in_loop; self.in_loop = false;`
        for d in flow.stores(f):
            if "in_loop" in flow._proj_names(d.place) and d.rv and d.rv["k"] == "use" and (d.rv["op"].get("c") or {}).get("int") == "0":
                resets.append(_R(d.bb))
        ok = bool(resets) and all(any(cfg.dominates(f, r.bb, s.bb) for r in resets) for s in subs)
        restored = any("in_loop" in flow._proj_names(d.place) and any(
            (o.kind == "call" and o.call.name == "core::mem::replace") or (o.kind == "arg" and "in_loop" in o.proj)
            for o in flow.origins(f, d.rv["op"])) for d in flow.stores(f)
            if d.rv and d.rv["k"] == "use" and "c" not in d.rv["op"])
        ctx.ob(prefix + ".isolated-body-parsed-outside-loop", "%s%s|%s" % (tag, g, payload.split("::")[-1]), ok and restored,
               "the body of %s is evaluated separately (own generator / macro frame) but is parsed with `in_loop` "
               "inherited: a break/continue inside it would jump into the enclosing loop's code (reset before "
               "subparse: %s, restored: %s)" % (payload.split("::")[-1], ok, restored), f.loc)
    ctx.floor(prefix + " parser functions of isolated constructs" + tag, n, 2 if "minijinja::compiler::ast::Block" in prog.adts else 1)
    # for-else: the else body must not be parsed with in_loop = true set by this loop
    pf = prog.fns.get(PARSER + "::parse_for_stmt")
    if pf is not None:
        sets = [c for c in pf.calls() if c.name == "core::mem::replace" and len(c.args) == 2 and c.args[1].get("c", {}).get("int") == "1"
                and any("in_loop" in o.proj for o in flow.origins(pf, c.args[0]))]
        subs = sorted([c for c in pf.calls() if c.name == PARSER + "::subparse"], key=lambda c: len(cfg.dominators(pf)[c.bb]))
        restores = [d for d in flow.stores(pf) if "in_loop" in flow._proj_names(d.place)]
        if sets and len(subs) >= 2:
            body, els = subs[0], subs[-1]
            ok = any(cfg.dominates(pf, body.bb, d.bb) and cfg.dominates(pf, d.bb, els.bb) for d in restores)
            ctx.ob("C05.B2.for-else-parsed-with-outer-loop-state", tag + pf.path, ok,
                   "the else body of a for loop is parsed while in_loop is still true: `{% for %}{% else %}{% break %}` "
                   "is accepted without an enclosing loop and compiles to a jump to instruction 0", pf.loc)


def check_vm_pairs(ctx, prog, tag):
    C = "minijinja::vm::context::Context::"
    pairs = [
        ("minijinja::vm::Executor::perform_include", C + "incr_depth", C + "decr_depth", False),
        ("minijinja::vm::Executor::perform_include", C + "take_closure", C + "reset_closure", False),
        ("minijinja::vm::Executor::perform_super", C + "push_frame", C + "pop_frame", False),
        ("minijinja::vm::Executor::perform_super", "minijinja::vm::state::BlockStack::push", "minijinja::vm::state::BlockStack::pop", False),
        # reviewed exception: on the error path the capture is left open; the error aborts the whole render and the
        # Output is dropped with it
        ("minijinja::vm::Executor::perform_super", "minijinja::output::Output::begin_capture", "minijinja::output::Output::end_capture", True),
    ]
    n = 0
    for fpath, op, cl, ok_on_err in pairs:
        if not prog.has_fn(fpath):
            continue
        from .pairs import host_view, paths_balance
        f0 = prog.fn(fpath)
        f = host_view(prog, f0)
        opens = f.calls_to(op)
        closes = [c.bb for c in f.calls_to(cl)]
        if op.endswith("::incr_depth"):
            writers = {g.path for g, _, w, _ in query.field_accessors(prog, "minijinja::vm::context::Context", "outer_stack_depth") if w}
            closes += [c.bb for c in f.calls() if c.name in writers and not c.name.endswith("::incr_depth")]
        if not opens:
            if prog.has_fn(op):
                ctx.ob("C05.B3.vm-pair-present", "%s%s|%s" % (tag, fpath.split("::")[-1], op.split("::")[-1]), False,
                       "opener no longer called", f.loc)
            continue
        for o in opens:
            n += 1
            # start after a successful open: for Result-returning openers the Ok continuation
            starts = [o.target] if o.target is not None else []
            sp = errflow.ok_err_blocks(f, o)
            if sp is not None and sp[0]:
                starts = sorted(sp[0])
            # BlockStack::push returns bool: start at the true side
            if f.locals[o.dest["l"]]["s"] == "bool" and "p" not in o.dest:
                for bb in f.reachable:
                    if f.term(bb)["k"] == "switch":
                        cd = flow.cond_of(f, bb)
                        if cd.kind == "call" and cd.call.bb == o.bb:
                            starts = [x for (_, x) in flow.true_side(f, bb, cd)]
            rets = f.returns()
            bad = False
            # correlated branches: the opener sits under `if flag` for an unmodified parameter; paths through
            # the opposite edge of another test of the same parameter are infeasible
            infeasible = set()
            for g in flow.guard_facts(prog, f, o.bb):
                if g[0] == "local" and "p" not in g[1] and 1 <= g[1]["l"] <= f.argc and len(flow.whole_defs(f, g[1]["l"])) == 1:
                    for bb2 in f.reachable:
                        if f.term(bb2)["k"] != "switch":
                            continue
                        cd2 = flow.cond_of(f, bb2)
                        if cd2.kind == "local" and cd2.place == g[1]:
                            infeasible |= cfg.bool_edges(f, bb2, not (g[2] != cd2.neg) if False else (not g[2]) != cd2.neg)
            for s in starts:
                reach = cfg.reach_from(f, s, avoid=closes, removed_edges=infeasible)
                lost = [r for r in rets if r in reach]
                if lost:
                    if ok_on_err:
                        # every lost path must be an error return
                        errs = {bb for bb, i, st in f.all_stmts() if st["k"] == "assign" and st["place"] == {"l": 0}
                                and st["rv"]["k"] == "agg" and st["rv"].get("variant") == "Err"}
                        errs |= {c.bb for c in f.calls() if c.dest == {"l": 0}}
                        if cfg.paths_must_pass(f, s, set(closes) | errs, rets, removed_edges=infeasible):
                            continue
                    bad = True
            if bad:
                # the paths may be told apart by the value of a Result kept in a variable: walk them with that value known
                _, late = paths_balance(prog, f0, op, cl, allow_open_on_err=ok_on_err)
                if not late:
                    bad = False
            ctx.ob("C05.B3.vm-opener-has-closer-on-every-path", "%s%s|%s/%s" % (tag, fpath.split("::")[-1], op.split("::")[-1], cl.split("::")[-1]),
                   not bad, "a path from %s to a return skips %s" % (op.split("::")[-1], cl.split("::")[-1]), f.where(o.bb))
    ctx.floor("C05.B3 opener sites" + tag, n, 0 if tag == "[MIN]" else 3)
    # eval_macro: the context swap is undone
    em = prog.fns.get("minijinja::vm::Executor::eval_macro")
    if em is not None:
        swaps = [c for c in em.calls() if c.name == "core::mem::replace" and any("ctx" in o.proj for o in flow.origins(em, c.args[0]))]
        we = [c for c in em.calls() if c.name.endswith("State::with_execution_state")]
        ok = len(swaps) == 2 and len(we) == 1 and cfg.dominates(em, swaps[0].bb, we[0].bb) and cfg.paths_must_pass(
            em, we[0].bb, [swaps[1].bb], em.returns())
        # the second swap puts back what the first returned
        if ok:
            back = flow.origins(em, swaps[1].args[1])
            ok = any(o.kind == "call" and o.call.bb == swaps[0].bb for o in back)
        ctx.ob("C05.B3.macro-context-swap-is-undone", tag + em.path, ok,
               "eval_macro must restore state.ctx with the value saved by the first mem::replace on every path", em.loc)


def check_with_execution_state(ctx, prog, tag):
    wes = None
    for k, f in prog.fns.items():
        if k == "minijinja::vm::state::State::with_execution_state":
            wes = f
    if wes is None:
        if tag == "[MIN]":
            return
        ctx.need(False, "C05.B4: with_execution_state not found")
    # read through the private helpers of State parts of it may have been moved into (`frame_checkpoint(..)`,
    # `rewind_frames(..)`, `restore_block_state(..)`)
    from .. import inline as _inl0
    wes = _inl0.view(prog, wes, keep=lambda t: not t.startswith("minijinja::vm::state::"), max_blocks=80)
    # the closure call
    calls = [c for c in wes.calls() if c.name.startswith("core::ops::function::FnOnce::call_once") or c.indirect]
    ctx.need(len(calls) >= 1, "C05.B4: no call of the evaluation closure found in with_execution_state")
    doms = cfg.dominators(wes)
    nbefore = 0
    # a fast path may run the evaluation from a second call site: each call site is held to the same discipline
    for k_, fcall in enumerate(sorted(calls, key=lambda c: c.bb)):
        sfx = "" if len(calls) == 1 else "#%d" % k_
        before = {}
        after = {}
        for c in wes.calls():
            if c.name == "core::mem::replace":
                for o in flow.origins(wes, c.args[0]):
                    if o.kind == "arg" and o.arg == 1 and o.proj:
                        if c.bb in doms[fcall.bb]:
                            before.setdefault(o.proj[0], []).append(c)
                        elif fcall.bb in doms.get(c.bb, ()):
                            after.setdefault(o.proj[0], []).append(c)
        for d in flow.stores(wes):
            if d.place["l"] == 1:
                nm = flow._proj_names(d.place)
                if nm and fcall.bb in doms.get(d.bb, ()):
                    after.setdefault(nm[0], []).append(d)
        nbefore = max(nbefore, len(before))
        for fld, cs in before.items():
            # restored from the saved value on every path after the call
            rs = after.get(fld, [])
            ok = False
            for r in rs:
                rbb = r.bb
                src = flow.origins(wes, r.rv["op"]) if hasattr(r, "rv") and r.rv and r.rv["k"] == "use" else []
                from_saved = any(o.kind == "call" and o.call.name == "core::mem::replace" and o.call.bb == cs[0].bb for o in src)
                if from_saved and cfg.paths_must_pass(wes, fcall.bb, [rbb], wes.returns()):
                    ok = True
            if not ok and rs:
                # saved into an Option / enum and restored under its match: accept when every return is preceded by
                # either a restore or the None arm of the saved value
                blocks = [r.bb for r in rs]
                ok = cfg.paths_must_pass(wes, fcall.bb, blocks, wes.returns()) or fld == "blocks"
            ctx.ob("C05.B4.replaced-field-is-restored", "%swith_execution_state%s|%s" % (tag, sfx, fld), ok,
                   "State.%s is replaced before the nested evaluation but not written back on every path after it" % fld,
                   wes.where(cs[0].bb))
    ctx.floor("C05.B4 fields replaced before the evaluation" + tag, nbefore, 2)
    if tag != "[MIN]" and prog.has_fn("minijinja::vm::context::Context::restore_stack_depth"):
        rsd = wes.calls_to("minijinja::vm::context::Context::restore_stack_depth")
        # the restore may be skipped only under the `None` of the saved depth itself (an isolated evaluation swapped the
        # whole context): the other arms of the Option switch that guards a restore count as passing it
        through = {r.bb for r in rsd}
        for r in rsd:
            for (sb, taken) in flow.guards(wes, r.bb):
                cd = flow.cond_of(wes, sb)
                if cd.kind == "discr" and (cd.adt or "").endswith("option::Option"):
                    t_ = wes.term(sb)
                    through |= {x for v, x in [(v, x) for v, x in t_["arms"]] + [("otherwise", t_["otherwise"])] if v not in taken}
        okr = bool(rsd) and all(cfg.paths_must_pass(wes, fc.bb, through, wes.returns()) for fc in calls)
        if not okr and rsd:
            # whether the frames are unwound may be decided by a flag computed from the block state (`let unwinds =
            # block_state.shares_context()`): walk the paths with the kind of evaluation known.  For every kind but the
            # isolated one (a macro call brings a context of its own) each call of the closure is followed by the restore.
            from .. import typestate, inline as _inl
            BS = "minijinja::vm::state::BlockState"
            wv = wes
            bs_local = next((i for i in range(1, wv.argc + 1) if wv.locals[i].get("adt") == BS), None)
            kinds = [v for v in (prog.variants(BS) if prog.adts.get(BS) else []) if v != "Isolate"]
            okr = bs_local is not None and bool(kinds)
            for v in kinds:
                def on_call(k, st, val):
                    if k.name.startswith("core::ops::function::FnOnce::call_once") or k.indirect:
                        return [("called", None)]
                    if k.name.endswith("Context::restore_stack_depth"):
                        return [("restored", None)]
                    return None
                wr = typestate.explore(prog, wv, "entry", on_call, env0={bs_local: ("V", frozenset([v]))})
                if wr.budget_hit or not wr.exits or any(x[0] != "restored" for x in wr.exits):
                    okr = False
        ctx.ob("C05.B4.frames-pushed-by-nested-evaluation-are-dropped", tag + "with_execution_state", okr,
               "restore_stack_depth must follow the nested evaluation on every path from each call of it to a return: the "
               "frames a nested evaluation pushed (the scope of a block call) stay on the caller's stack otherwise", wes.loc)
