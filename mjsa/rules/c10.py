"""C10 — text is verbatim, whitespace control exact (partial: the *wiring* of the whitespace rules).

The property names four ways in which the lexer may shorten text and the condition of each:
   '-' marker            -> all whitespace on that side of the tag                          (class TRIM)
   trim_blocks           -> the single newline after a block / comment tag, unless '+'      (class SKIPNL)
   lstrip_blocks         -> horizontal whitespace before a block / comment tag, unless '+'  (class LSTRIP)
   keep_trailing_newline -> off: one trailing newline of the template                       (class CUT)
Which characters each primitive removes is string arithmetic over run-time text and NOT decided.  What is decided is
the shape every regression of the rule *interaction* breaks: each text-shortening operation of the lexer sits under
the condition the property gives for it, and every place that decodes a marker honours all three of its values.

 E1 every-text-shortening-operation-sits-under-its-rule      (universal, per action site)
 E2 marker-switch-honours-each-value                          (per `match` on the marker enum: Remove -> a TRIM action,
                                                              Preserve -> nothing, Default -> only the setting-gated
                                                              action of the same side)
 E3 lstrip-gate-table                                         (finite decision table of the gate function)
 E4 tag-end-without-enum                                      (the tag ends lexed by string comparison)
 E5 newline-skipper-takes-one-newline-under-the-setting
 E6 pending-trim-is-consumed-once
 E7 marker-argument-is-decoded-from-the-text
 E8 no-default-delimiter-literal-outside-the-default-search   (custom delimiters)
"""
from .. import arms, cfg, flow
from ..facts import op_place, const_int

LEX = "minijinja::compiler::lexer::"
WS = LEX + "Whitespace"
TOK = LEX + "Tokenizer"
CONF = LEX + "WhitespaceConfig"
SENT = LEX + "BlockSentinel"
MARKER = LEX + "StartMarker"

STR = "core::str::<impl str>::"
TRIM_STR = {STR + n for n in ("trim", "trim_start", "trim_end", "trim_matches", "trim_start_matches", "trim_end_matches",
                              "trim_left", "trim_right", "trim_left_matches", "trim_right_matches",
                              "trim_ascii", "trim_ascii_start", "trim_ascii_end")}
TAIL_TRIM = {STR + "trim_start", STR + "trim_start_matches", STR + "trim_left", STR + "trim_ascii_start"}
HEAD_TRIM = {STR + "trim_end", STR + "trim_end_matches", STR + "trim_right", STR + "trim_ascii_end"}
DEFAULT_DELIMS = ("{{", "}}", "{%", "%}", "{#", "#}")


def lexer_fns(prog):
    return [f for f in prog.fns.values() if f.path.startswith(LEX) and f.crate == "minijinja"]


def root_of(prog, f):
    return prog.fns.get(f.root) if f.root else f


def field_of(place):
    """last named field of a place projection"""
    for e in reversed(place.get("p", [])):
        if isinstance(e, dict) and "f" in e:
            return str(e.get("n", e["f"]))
    return None


def const_strs(fn, op):
    """string constants an operand may hold (through borrows and promoted references)"""
    out = set()
    for o in flow.origins(fn, op):
        if o.kind != "const" or o.const is None:
            return set()
        s = o.const.get("str")
        if s is None:
            rv = flow.promoted_rvalue(fn, o.const)
            if rv is not None and rv.get("k") == "use" and "c" in rv["op"]:
                s = rv["op"]["c"].get("str")
        if s is None:
            return set()
        out.add(s)
    return out


def _promoted_ints(fn, const):
    """all u8 / char constants of a promoted body (`Some(&b'\\r')`, `['<', '>']`, `&'\\n'`)"""
    pr = fn.raw.get("promoted", [])
    owner = const.get("named")
    if owner:
        from ..facts import norm_path
        g = fn.prog.fns.get(norm_path(owner))
        if g is not None and g.path != fn.path:
            pr = g.raw.get("promoted", [])
    i = const.get("promoted")
    if i is None or i >= len(pr):
        return None
    out = set()
    for b in pr[i]["blocks"]:
        for s in b["s"]:
            rv = s.get("rv") or {}
            ops_ = ([rv["op"]] if isinstance(rv.get("op"), dict) else []) + [x for x in rv.get("ops", []) if isinstance(x, dict)]
            for x in ops_:
                c = x.get("c")
                if c is not None and "int" in c:
                    if c.get("ty") in ("char", "u8"):
                        out.add(int(c["int"]))
                    else:
                        return None
                elif c is not None and "str" in c:
                    return None
    return out


def const_chars(fn, op):
    """the character / byte constants an operand stands for (a literal, or a promoted constant built from them)"""
    c = op.get("c")
    if c is not None and "int" in c and c.get("ty") in ("char", "u8"):
        return {int(c["int"])}
    out = set()
    for o in flow.origins(fn, op):
        if o.kind != "const" or o.const is None:
            return set()
        k = o.const
        if "int" in k and k.get("ty") in ("char", "u8"):
            out.add(int(k["int"]))
            continue
        got = _promoted_ints(fn, k) if "promoted" in k else None
        if not got:
            return set()
        out |= got
    return out


class Roles:
    """functions and fields of the lexer found by what they do"""

    def __init__(self, ctx, prog):
        self.prog = prog
        fns = lexer_fns(prog)
        self.fns = fns
        conf = prog.adt(CONF)
        names = {f["name"] for f in conf["variants"][0]["fields"]}
        for want in ("trim_blocks", "lstrip_blocks", "keep_trailing_newline"):
            ctx.need(want in names, "missing anchor: WhitespaceConfig.%s (the setting the property names)" % want)
        tok = prog.adt(TOK)
        bools = [f["name"] for f in tok["variants"][0]["fields"] if f["ty"].get("prim") == "bool"]
        # the pending-trim flag: a bool of the tokenizer stored as `true` and as `false` by lexer code
        self.flags = []
        for b in bools:
            vals = set()
            for f in fns:
                for d in flow.stores(f):
                    if d.kind == "store" and field_of(d.place) == b and d.rv["k"] == "use":
                        v = const_int(d.rv["op"])
                        if v is not None:
                            vals.add(v)
            if vals == {0, 1} or vals == {1}:
                self.flags.append(b)
        ctx.need(len(self.flags) >= 1, "missing anchor: no bool field of Tokenizer is set by the lexer (pending-trim flag)")
        # primitives
        self.lstrip = []       # (&str) -> &str helpers that cut horizontal whitespace off the end
        self.skipper = []      # methods that advance over whitespace
        self.nlskip = []       # methods that advance over one newline
        for f in fns:
            if f.root:
                continue
            cl = prog.closures_of(f.path)
            called = {c.name for g in [f] + cl for c in g.calls()}
            argt = [f.locals[i] for i in range(1, f.argc + 1)]
            if f.argc == 1 and argt[0].get("prim") == "str" and f.locals[0].get("prim") == "str" \
                    and called & (HEAD_TRIM | {STR + "trim_matches"}) and not f.path.startswith(TOK + "::"):
                self.lstrip.append(f.path)
            if f.path.startswith(TOK + "::") and f.argc == 1 and f.locals[0].get("s") == "()":
                adv = [c for c in f.calls() if c.name.endswith("Tokenizer::advance")]
                if not adv:
                    continue
                if any(n.endswith("char::methods::<impl char>::is_whitespace") or n.endswith("is_ascii_whitespace") for n in called):
                    self.skipper.append(f.path)
                    continue
                if all(len(c.args) == 2 and const_int(c.args[1]) == 1 for c in adv):
                    self.nlskip.append(f.path)
        ctx.need(self.lstrip, "missing anchor: no (&str) -> &str helper of the lexer trims the end of a text (lstrip primitive)")
        ctx.need(self.skipper, "missing anchor: no tokenizer method skips whitespace (the consumer of a '-' marker)")
        ctx.need(self.nlskip, "missing anchor: no tokenizer method skips a single newline (trim_blocks primitive)")
        # the end of a line statement / line comment: a free helper that strips a newline off the front of a text
        self.lineend = []
        for f in fns:
            if f.root or f.path.startswith(TOK + "::") or f.path in self.lstrip:
                continue
            hits = [c for c in f.calls() if c.name == STR + "strip_prefix" and len(c.args) == 2
                    and const_chars(f, c.args[1]) and const_chars(f, c.args[1]) <= {10, 13}]
            if hits and len(hits) == len([c for c in f.calls() if c.name in TRIM_STR or c.name in (STR + "strip_prefix", STR + "strip_suffix")]):
                self.lineend.append(f.path)
        # the gate: bool-returning lexer function with a bool and a StartMarker parameter
        self.gates = []
        for f in fns:
            if f.root or f.locals[0].get("prim") != "bool":
                continue
            ts = [f.locals[i] for i in range(1, f.argc + 1)]
            if any(t.get("prim") == "bool" for t in ts) and any(t.get("adt") == MARKER for t in ts):
                self.gates.append(f.path)
        # the constructor
        self.ctor = []
        for f in fns:
            for bb, i, s in f.all_stmts():
                rv = s.get("rv")
                if rv and rv["k"] == "agg" and rv.get("adt") == TOK and not f.root:
                    if f.path not in self.ctor:
                        self.ctor.append(f.path)
        ctx.need(self.ctor, "missing anchor: no lexer function builds a Tokenizer")

    def primitive(self, f):
        """is f (or the function it is a closure of) one of the trimming primitives themselves"""
        p = f.root or f.path
        return p in self.lstrip or p in self.skipper or p in self.nlskip or p in self.lineend


# -------------------------------------------------------------------------------------------------------------------
# actions and guard facts

class Action:
    __slots__ = ("cls", "side", "fn", "bb", "what")

    def __init__(self, cls, side, fn, bb, what):
        self.cls, self.side, self.fn, self.bb, self.what = cls, side, fn, bb, what

    def key(self):
        return "%s|%s" % (self.fn.path.replace(LEX, ""), self.what)


def newline_guarded(prog, fn, bb):
    """is bb on the true side of a `starts_with('\\n' / '\\r')` / `ends_with(..)` of a newline character"""
    for g in flow.guard_facts(prog, fn, bb):
        if g[0] == "call" and g[2] is True and g[1] in (STR + "starts_with", STR + "ends_with") and len(g[3].args) == 2:
            cs = const_chars(fn, g[3].args[1])
            if cs and cs <= {10, 13}:
                return g[1].rsplit("::", 1)[1]
    return None


PREDICATES = ("::is_empty", "::ends_with", "::starts_with", "::eq", "::ne", "::contains", "::is_char_boundary", "::is_some", "::is_none")


def shapes_text(fn, call):
    """does the result of a trimming call decide what text is emitted / consumed (it reaches `advance`, a TemplateData
    token or the function's returned text), as opposed to only feeding a test (`prefix.trim_end_matches(' ').is_empty()`)"""
    return shapes_how(fn, call) is not None


def shapes_how(fn, call):
    """how: "data" (a TemplateData token), "advance" (the cursor), "return" (the function's result) or None"""
    if call.dest is None or "p" in call.dest:
        return "return"
    tainted = {call.dest["l"]}
    ret_text = "str" in fn.locals[0].get("s", "") or fn.locals[0].get("prim") == "str"
    for _ in range(12):
        grew = False
        for bb, i, st in fn.all_stmts():
            if st["k"] != "assign":
                continue
            rv = st["rv"]
            ops_ = [rv[k] for k in ("op", "a", "b") if isinstance(rv.get(k), dict)] + [x for x in rv.get("ops", []) if isinstance(x, dict)]
            hit = any(op_place(o) is not None and op_place(o)["l"] in tainted for o in ops_)
            if rv["k"] in ("ref", "rawptr", "discr", "len") and isinstance(rv.get("place"), dict) and rv["place"]["l"] in tainted:
                hit = True
            if not hit:
                continue
            if rv["k"] == "agg" and rv.get("variant") == "TemplateData":
                return "data"
            l = st["place"]["l"]
            if l == 0 and (ret_text or True):
                return "return"
            if l not in tainted:
                tainted.add(l)
                grew = True
        for c in fn.calls():
            if c.bb == call.bb:
                continue
            if not any(op_place(a) is not None and op_place(a)["l"] in tainted for a in c.args):
                continue
            if c.name.endswith("Tokenizer::advance") or c.name.endswith("::advance"):
                return "advance"
            if c.name.endswith(PREDICATES):
                continue
            if c.dest is not None:
                l = c.dest["l"]
                if l == 0:
                    return "return"
                if l not in tainted:
                    tainted.add(l)
                    grew = True
        if not grew:
            break
    return None


def trimmed_passthrough(prog, g):
    """side of the trimming when g is a private text-to-text helper that hands back its argument with whitespace trimmed
    off and touches nothing else (`fn skip_ws(s: &str) -> &str { s.trim_start_matches(..) }`): what that removes is
    judged where the helper is called"""
    cached = getattr(g, "_c10_tp", 0)
    if cached != 0:
        return cached
    side = None
    if g.kind != "closure" and not g.is_pub and g.argc == 1 and "str" in g.locals[0].get("s", "") and g.nblocks <= 12:
        trims = [c for c in g.calls() if c.name in TRIM_STR]
        others = [c for c in g.calls() if c.name not in TRIM_STR and not c.name.endswith(("::deref", "::as_ref", "::borrow"))
                  and prog.fns.get(c.resolved or c.path) is not None and prog.fns[c.resolved or c.path].kind != "closure"]
        if len(trims) == 1 and not others and shapes_how(g, trims[0]) == "return" and not list(flow.stores(g)):
            n = trims[0].name
            side = "tail" if n in TAIL_TRIM else ("head" if n in HEAD_TRIM else "both")
    g._c10_tp = side
    return side


def tag_recogniser(fn):
    """a function that decodes a marker from text and returns it (`-> Option<(usize, Whitespace)>`): it matches the
    inside of a tag, it does not hold template data"""
    r = fn if fn.kind != "closure" else None
    return r is not None and "Whitespace" in r.locals[0].get("s", "") and "Tokenizer" not in r.locals[0].get("s", "")


IN_TAG_SKIPS = []


def actions_of(roles, prog, fn):
    out = []
    if roles.primitive(fn) or trimmed_passthrough(prog, fn):
        return out
    for c in fn.calls():
        n = c.name
        g_ = prog.fns.get(c.resolved or c.path) if n not in TRIM_STR else None
        via = trimmed_passthrough(prog, g_) if g_ is not None and g_.path.startswith(LEX) else None
        if n in TRIM_STR or via:
            how = shapes_how(fn, c)
            if how is None:
                continue            # a trimmed copy that only feeds a test removes nothing from the output
            side = via or ("tail" if n in TAIL_TRIM else ("head" if n in HEAD_TRIM else "both"))
            if side == "tail" and how == "return" and tag_recogniser(fn):
                # moving forward over the blanks between a delimiter, the tag name and the marker while matching a tag:
                # that whitespace is inside the tag, not next to it
                IN_TAG_SKIPS.append((fn.path, c.bb))
                continue
            out.append(Action("TRIM", side, fn, c.bb, ("via " + n.rsplit("::", 1)[1]) if via else n.rsplit("::", 1)[1]))
        elif n in roles.skipper:
            out.append(Action("TRIM", "tail", fn, c.bb, "call " + n.rsplit("::", 1)[1]))
        elif n in roles.lstrip:
            out.append(Action("LSTRIP", "head", fn, c.bb, "call " + n.rsplit("::", 1)[1]))
        elif n in roles.nlskip:
            out.append(Action("SKIPNL", "tail", fn, c.bb, "call " + n.rsplit("::", 1)[1]))
        elif n in roles.lineend:
            out.append(Action("LINEEND", "tail", fn, c.bb, "call " + n.rsplit("::", 1)[1]))
        elif n.endswith("Index<I> for str>::index") and len(c.args) == 2:
            # `&s[1..]` / `&s[..len - 1]` under a newline test: one newline is cut off the text
            how = newline_guarded(prog, fn, c.bb)
            if how == "starts_with":
                out.append(Action("SKIPNL", "tail", fn, c.bb, "slice-after-newline"))
            elif how == "ends_with":
                out.append(Action("CUT", "head", fn, c.bb, "slice-before-newline"))
        elif n in (STR + "strip_suffix", STR + "strip_prefix") and len(c.args) == 2:
            cs = const_chars(fn, c.args[1])
            if cs and cs <= {10, 13}:
                out.append(Action("CUT" if n.endswith("suffix") else "SKIPNL", "head" if n.endswith("suffix") else "tail",
                                  fn, c.bb, n.rsplit("::", 1)[1] + "-newline"))
    for d in flow.stores(fn):
        # any store into the pending-trim flag other than clearing it arms a trim (a computed value included)
        if d.kind == "store" and field_of(d.place) in roles.flags and not (d.rv["k"] == "use" and const_int(d.rv["op"]) == 0):
            out.append(Action("TRIM", "tail", fn, d.bb, "set " + field_of(d.place)))
    return out


class Guard:
    """what the dominating conditions of a block say about marker and settings"""

    def __init__(self, roles, prog, fn, bb):
        self.marker = None        # set of Whitespace variants possible here (None: no marker switch dominates)
        self.minus = False        # a comparison with "-" holds
        self.plusminus_true = False
        self.settings = {}        # name -> truth
        self.flag = None
        self.gate = []            # gate calls that returned true
        self.sentinel = None
        self.kind = None          # set of StartMarker variants possible here
        for g in flow.guard_facts(prog, fn, bb):
            if g[0] == "variant" and g[2] == WS:
                self.marker = set(g[3]) if self.marker is None else (self.marker & set(g[3]))
            elif g[0] == "variant" and g[2] == SENT:
                self.sentinel = set(g[3]) if self.sentinel is None else (self.sentinel & set(g[3]))
            elif g[0] == "variant" and g[2] == MARKER:
                self.kind = set(g[3]) if self.kind is None else (self.kind & set(g[3]))
            elif g[0] == "matches" and g[1] == WS:
                vs = set(g[2]) if g[3] else (set(prog.variants(WS)) - set(g[2]))
                self.marker = vs if self.marker is None else (self.marker & vs)
            elif g[0] == "local":
                fld = field_of(g[1]) if isinstance(g[1], dict) else None
                if fld is None and len(g) > 3:
                    # `matches!(x, Variant)` on one of the lexer's enums, kept in a bool
                    for adt in (WS, SENT, MARKER):
                        mv = flow.matches_variants(prog, fn, g[3], adt) if adt in prog.adts else None
                        if mv is not None:
                            vs = set(mv) if g[2] else (set(prog.variants(adt)) - set(mv))
                            if adt == WS:
                                self.marker = vs if self.marker is None else (self.marker & vs)
                            elif adt == SENT:
                                self.sentinel = vs if self.sentinel is None else (self.sentinel & vs)
                            else:
                                self.kind = vs if self.kind is None else (self.kind & vs)
                            break
                if fld in ("trim_blocks", "lstrip_blocks", "keep_trailing_newline"):
                    self.settings[fld] = g[2]
                elif fld in roles.flags:
                    self.flag = g[2]
            elif g[0] == "call":
                c = g[3]
                if c.name.endswith(("PartialEq for str>::eq", "PartialEq<&B> for &A>::eq", "PartialEq>::eq")) and len(c.args) == 2:
                    ss = const_strs(fn, c.args[0]) | const_strs(fn, c.args[1])
                    if g[2] is True and ss == {"-"}:
                        self.minus = True
                    if g[2] is True and ss and ss <= {"-", "+"}:
                        self.plusminus_true = True
                elif c.name in roles.gates and g[2] is True:
                    self.gate.append(c)
        if not self.minus and only_behind_text_marker(fn, bb, ("-",)):
            self.minus = True
        if not self.plusminus_true and only_behind_text_marker(fn, bb, ("-", "+")):
            self.plusminus_true = True


def text_marker_edges(fn, which):
    """true edges of the comparisons of a piece of text with the marker strings in `which` ("-" / "+")"""
    cache = getattr(fn, "_c10_tme", None)
    if cache is None:
        cache = fn._c10_tme = {}
    key = tuple(sorted(which))
    if key in cache:
        return cache[key]
    edges = set()
    for sb in sorted(fn.reachable):
        if fn.term(sb)["k"] != "switch":
            continue
        cd = flow.cond_of(fn, sb)
        if cd.kind != "call" or len(cd.call.args) != 2:
            continue
        c = cd.call
        if not c.name.endswith(("PartialEq for str>::eq", "PartialEq<&B> for &A>::eq", "PartialEq>::eq", "PartialEq for str>::ne",
                                "PartialEq<&B> for &A>::ne", "PartialEq>::ne")):
            continue
        ss = const_strs(fn, c.args[0]) | const_strs(fn, c.args[1])
        if ss and ss <= set(which):
            edges |= flow.true_side(fn, sb, cd)
    cache[key] = edges
    return edges


def only_behind_text_marker(fn, bb, which):
    """is bb reachable only on paths where the text compared equal to one of the marker strings (also when the
    verdict travels through a `matches!`-style boolean)"""
    edges = text_marker_edges(fn, which)
    if not edges:
        return False
    reach, _ = cfg.reach_with_bool_phis(fn, edges)
    return bb not in reach


def gate_setting(fn, call):
    """the settings whose value a gate call is handed"""
    out = set()
    for a in call.args:
        if "c" in a:
            continue
        for o in flow.origins(fn, a):
            if o.kind == "arg" and o.proj:
                for nm in o.proj:
                    if nm in ("trim_blocks", "lstrip_blocks", "keep_trailing_newline"):
                        out.add(nm)
    return out


# -------------------------------------------------------------------------------------------------------------------

R1 = "C10.E1.text-shortening-operation-sits-under-its-rule"
R2 = "C10.E2.marker-switch-honours-each-value"
R3 = "C10.E3.lstrip-gate-table"
R4 = "C10.E4.tag-end-honours-marker-and-setting"
R5 = "C10.E5.newline-skipper-takes-one-newline-under-the-setting"
R6 = "C10.E6.pending-trim-is-consumed-once"
R7 = "C10.E7.marker-argument-is-decoded-from-the-text"
R8 = "C10.E8.no-default-delimiter-literal-outside-the-default-search"


def check_actions(ctx, prog, roles, cfgname):
    tag = "" if cfgname == "MAX" else "[%s]" % cfgname
    n = 0
    per_fn = {}
    for f in roles.fns:
        acts = actions_of(roles, prog, f)
        per_fn[f.path] = acts
        for a in acts:
            n += 1
            g = Guard(roles, prog, f, a.bb)
            where = f.where(a.bb)
            if a.cls == "TRIM":
                ok = (g.marker is not None and g.marker <= {"Remove"}) or g.minus or (g.flag is True and a.what.startswith("call "))
                ctx.ob(R1, a.key() + tag, ok,
                       "an operation that removes all whitespace next to a tag must be under a '-' marker (Whitespace::Remove arm, "
                       "a comparison with \"-\", or the pending-trim flag a '-' set); here marker=%s minus=%s flag=%s"
                       % (sorted(g.marker) if g.marker is not None else None, g.minus, g.flag), where)
            elif a.cls == "LSTRIP":
                sett = set(k for k, v in g.settings.items() if v is True)
                for c in g.gate:
                    sett |= gate_setting(f, c)
                ok = g.marker is not None and g.marker <= {"Default"} and "lstrip_blocks" in sett and "trim_blocks" not in sett
                ctx.ob(R1, a.key() + tag, ok,
                       "stripping the horizontal whitespace before a tag needs no marker on that side (Whitespace::Default) and "
                       "lstrip_blocks; here marker=%s settings=%s" % (sorted(g.marker) if g.marker is not None else None, sorted(sett)),
                       where)
            elif a.cls == "SKIPNL":
                sett = set(k for k, v in g.settings.items() if v is True)
                inline_ok = a.what.startswith("call ") or "trim_blocks" in sett
                by_enum = g.marker is not None and g.marker <= {"Default"}
                by_text = g.marker is None and g.sentinel is not None and g.sentinel <= {"Block"} and not g.plusminus_true
                ok = inline_ok and (by_enum or by_text) and "lstrip_blocks" not in sett
                ctx.ob(R1, a.key() + tag, ok,
                       "skipping the newline after a tag needs a block / comment / raw tag end without a marker and trim_blocks; "
                       "here marker=%s sentinel=%s marker-text-matched=%s settings=%s"
                       % (sorted(g.marker) if g.marker is not None else None, sorted(g.sentinel) if g.sentinel else None,
                          g.plusminus_true, sorted(sett)), where)
            elif a.cls == "LINEEND":
                ok = (g.kind is not None and g.kind <= {"LineComment", "LineStatement"}) or \
                     (g.sentinel is not None and g.sentinel <= {"LineStatement"})
                ctx.ob(R1, a.key() + tag, ok,
                       "the newline that ends a line is part of the tag only for line statements / line comments; here tag kind=%s "
                       "sentinel=%s" % (sorted(g.kind) if g.kind else None, sorted(g.sentinel) if g.sentinel else None), where)
            elif a.cls == "CUT":
                ok = g.settings.get("keep_trailing_newline") is False and f.path in roles.ctor and not cfg.natural_loops(f)
                ctx.ob(R1, a.key() + tag, ok,
                       "the trailing newline is cut once, when the tokenizer is built, and only with keep_trailing_newline off; "
                       "here settings=%s in-constructor=%s loops=%d" % (g.settings, f.path in roles.ctor, len(cfg.natural_loops(f))),
                       where)
    return n, per_fn


def check_switches(ctx, prog, roles, per_fn, cfgname):
    tag = "" if cfgname == "MAX" else "[%s]" % cfgname
    nsw = 0
    for f in roles.fns:
        acts = per_fn.get(f.path, [])
        for sbb, cd in arms.enum_switches(prog, f, WS):
            regs = arms.arm_regions(prog, f, sbb, WS)
            tg = arms.variant_targets(prog, f, sbb, WS)
            by = {v: [a for a in acts if a.bb in regs[v]] for v in regs}
            if not any(by.values()):
                continue            # a switch that computes something else (`Whitespace::len`)
            nsw += 1
            inst = "%s|switch#%d" % (f.path.replace(LEX, ""), nsw)
            where = f.where(sbb)
            rem = by.get("Remove", [])
            side = None
            for a in rem:
                if a.cls == "TRIM" and a.side in ("head", "tail"):
                    side = a.side
            ok_rem = any(a.cls == "TRIM" for a in rem) and all(a.cls == "TRIM" for a in rem)
            ctx.ob(R2, inst + "|Remove" + tag, ok_rem, "the '-' arm removes the whitespace on its side and does nothing else; found %s"
                   % [a.what for a in rem], where)
            pre = by.get("Preserve", []) if tg.get("Preserve") != tg.get("Default") else []
            ctx.ob(R2, inst + "|Preserve" + tag, not pre and tg.get("Preserve") != tg.get("Remove"),
                   "the '+' arm removes nothing; found %s" % [a.what for a in pre], where)
            dfl = by.get("Default", [])
            want = {"head": "LSTRIP", "tail": "SKIPNL"}.get(side)
            ok_d = all(a.cls == want for a in dfl) and bool(dfl) if want else all(a.cls != "TRIM" for a in dfl)
            ctx.ob(R2, inst + "|Default" + tag, ok_d and tg.get("Default") != tg.get("Remove"),
                   "without a marker only the setting of the same side applies (%s side: %s); found %s"
                   % (side, want, [(a.cls, a.what) for a in dfl]), where)
    return nsw


def eval_gate(prog, f, flag_local, flag, marker_local, variant):
    """possible return values of a bool function for one (flag, marker variant)"""
    discr = {v["name"]: v["discr"] for v in prog.adt(MARKER)["variants"]}[variant]
    rets = set()
    seen = set()
    stack = [(0, ())]
    while stack:
        bb, envt = stack.pop()
        if (bb, envt) in seen or len(seen) > 20000:
            continue
        seen.add((bb, envt))
        env = dict(envt)
        for s in f.stmts(bb):
            if s["k"] != "assign" or "p" in s["place"]:
                continue
            l = s["place"]["l"]
            rv = s["rv"]
            val = None
            if rv["k"] == "use":
                c = rv["op"].get("c")
                if c is not None and "int" in c:
                    val = str(c["int"])
                else:
                    p = op_place(rv["op"])
                    if p is not None and "p" not in p:
                        val = env.get(p["l"], ("flag:%d" % flag) if p["l"] == flag_local else None)
                        if isinstance(val, str) and val.startswith("flag:"):
                            val = val[5:]
            elif rv["k"] == "discr" and "p" not in rv["place"] and rv["place"]["l"] == marker_local:
                val = discr
            elif rv["k"] == "un" and rv["op"] == "Not":
                p = op_place(rv["a"])
                if p is not None and "p" not in p:
                    v0 = env.get(p["l"], str(flag) if p["l"] == flag_local else None)
                    if v0 in ("0", "1"):
                        val = "1" if v0 == "0" else "0"
            if val is None:
                env.pop(l, None)
            else:
                env[l] = val
        t = f.term(bb)
        if t["k"] == "return":
            rets.add(env.get(0, "?"))
            continue
        if t["k"] == "call" and t.get("dest") is not None and "p" not in t["dest"]:
            env.pop(t["dest"]["l"], None)
        envt2 = tuple(sorted(env.items()))
        if t["k"] == "switch":
            p = op_place(t["discr"])
            v = None
            if p is not None and "p" not in p:
                v = env.get(p["l"], str(flag) if p["l"] == flag_local else None)
            if v is not None:
                listed = {a: x for a, x in t["arms"]}
                stack.append((listed.get(v, t["otherwise"]), envt2))
                continue
        for x in f.succ[bb]:
            stack.append((x, envt2))
    return rets


def check_gate(ctx, prog, roles, cfgname):
    tag = "" if cfgname == "MAX" else "[%s]" % cfgname
    n = 0
    for gp in roles.gates:
        f = prog.fn(gp)
        fl = [i for i in range(1, f.argc + 1) if f.locals[i].get("prim") == "bool"]
        ml = [i for i in range(1, f.argc + 1) if f.locals[i].get("adt") == MARKER]
        if len(fl) != 1 or len(ml) != 1:
            ctx.ob(R3, gp.replace(LEX, "") + "|shape" + tag, False, "gate with more than one flag / marker parameter", f.where(0))
            continue
        for variant in prog.variants(MARKER):
            for flag in (0, 1):
                rets = eval_gate(prog, f, fl[0], flag, ml[0], variant)
                n += 1
                may = "1" in rets or "?" in rets
                if variant in ("Block", "Comment"):
                    ok = may if flag else not may
                    exp = "can strip" if flag else "never strips"
                elif variant == "Variable":
                    ok = not may
                    exp = "never strips (variable tags are not affected by lstrip_blocks)"
                else:
                    ok = True
                    exp = "line statements / comments occupy their line (not constrained)"
                ctx.ob(R3, "%s|%s|lstrip_blocks=%d%s" % (gp.replace(LEX, ""), variant, flag, tag), ok,
                       "expected: %s; possible results %s" % (exp, sorted(rets)), f.where(0))
    return n


def check_tag_ends(ctx, prog, roles, per_fn, cfgname):
    """tag ends lexed by comparing text: the block arm honours '-' and trim_blocks, the variable arm honours '-' only"""
    tag = "" if cfgname == "MAX" else "[%s]" % cfgname
    n = 0
    for f in roles.fns:
        sws = arms.enum_switches(prog, f, SENT)
        if not sws:
            continue
        acts = per_fn.get(f.path, [])
        sbb, cd = sws[0]
        regs = arms.arm_regions(prog, f, sbb, SENT)
        for variant in ("Block", "Variable"):
            if variant not in regs:
                continue
            mine = [a for a in acts if a.bb in regs[variant]]
            # the arm may hand the decoded marker to a marker-consuming function (`handle_tail_ws(ws)`): what that function
            # does under its own switch (held to E1 / E2) is done for this tag end
            for c in f.calls():
                if c.bb not in regs[variant]:
                    continue
                g = prog.fns.get(c.name)
                if g is None or not g.path.startswith(LEX) or not any(g.locals[l].get("adt") == WS and not g.locals[l].get("refs")
                                                                       for l in range(1, g.argc + 1)):
                    continue
                decoded = True
                for i, a in enumerate(c.args):
                    if i + 1 <= g.argc and g.locals[i + 1].get("adt") == WS:
                        os_ = flow.origins(f, a) if "c" not in a else [flow.Origin("const", const=a["c"])]
                        if any(o.kind == "const" or (o.kind == "agg" and o.rv.get("adt") == WS) for o in os_):
                            decoded = False
                if decoded:
                    mine = mine + [Action(a.cls, a.side, f, c.bb, "via " + g.path.replace(LEX, "") + ": " + a.what) for a in per_fn.get(g.path, [])]
            n += 1
            inst = "%s|%s" % (f.path.replace(LEX, ""), variant)
            ctx.ob(R4, inst + "|minus-trims" + tag, any(a.cls == "TRIM" for a in mine),
                   "the end of a %s tag with a '-' marker removes the whitespace after it; actions found: %s"
                   % (variant.lower(), [a.what for a in mine]), f.where(sbb))
            if variant == "Block":
                ctx.ob(R4, inst + "|trim_blocks-applies" + tag, any(a.cls == "SKIPNL" for a in mine),
                       "the end of a block tag without a marker skips the newline under trim_blocks; actions found: %s"
                       % [a.what for a in mine], f.where(sbb))
            else:
                ctx.ob(R4, inst + "|trim_blocks-does-not-apply" + tag, not any(a.cls in ("SKIPNL", "LSTRIP") for a in mine),
                       "the end of a variable tag never skips a newline; actions found: %s" % [a.what for a in mine], f.where(sbb))
    return n


def check_nlskip(ctx, prog, roles, cfgname):
    tag = "" if cfgname == "MAX" else "[%s]" % cfgname
    n = 0
    for p in roles.nlskip:
        f = prog.fn(p)
        for c in f.calls():
            if not c.name.endswith("Tokenizer::advance"):
                continue
            n += 1
            g = Guard(roles, prog, f, c.bb)
            bytes_ok = False
            for gf in flow.guard_facts(prog, f, c.bb):
                if gf[0] == "call" and gf[2] is True and gf[3].name.endswith("::eq"):
                    cs = set()
                    for a in gf[3].args:
                        cs |= const_chars(f, a)
                    if cs and cs <= {10, 13}:
                        bytes_ok = True
            ok = g.settings.get("trim_blocks") is True and bytes_ok and not cfg.natural_loops(f)
            ctx.ob(R5, "%s|advance@%d%s" % (p.replace(LEX, ""), n, tag), ok,
                   "advances by one, under trim_blocks, behind a test for a newline byte, outside any loop; settings=%s newline-test=%s loops=%d"
                   % (g.settings, bytes_ok, len(cfg.natural_loops(f))), f.where(c.bb))
    return n


def check_flag(ctx, prog, roles, cfgname):
    tag = "" if cfgname == "MAX" else "[%s]" % cfgname
    n = 0
    for f in roles.fns:
        for c in f.calls():
            if c.name not in roles.skipper:
                continue
            g = Guard(roles, prog, f, c.bb)
            if g.flag is not True:
                continue
            n += 1
            # the flag is cleared on the way (same guarded region), so that one '-' trims once
            dom = cfg.dominators(f)
            cleared = False
            for d in flow.stores(f):
                if d.kind == "store" and field_of(d.place) in roles.flags and d.rv["k"] == "use" and const_int(d.rv["op"]) == 0:
                    gg = Guard(roles, prog, f, d.bb)
                    if gg.flag is True or d.bb == c.bb:
                        cleared = True
            ctx.ob(R6, "%s|%s%s" % (f.path.replace(LEX, ""), c.name.rsplit("::", 1)[1], tag), cleared,
                   "the pending-trim flag is cleared where it is consumed", f.where(c.bb))
    return n


def check_marker_args(ctx, prog, roles, cfgname):
    tag = "" if cfgname == "MAX" else "[%s]" % cfgname
    n = 0
    for f in roles.fns:
        for c in f.calls():
            g = prog.fns.get(c.name)
            if g is None or not g.path.startswith(LEX):
                continue
            for i, a in enumerate(c.args):
                if i + 1 > g.argc or g.locals[i + 1].get("adt") != WS or g.locals[i + 1].get("refs"):
                    continue
                n += 1
                os_ = flow.origins(f, a) if "c" not in a else [flow.Origin("const", const=a["c"])]
                fixed = [o for o in os_ if o.kind == "const" or (o.kind == "agg" and o.rv.get("adt") == WS)]
                ctx.ob(R7, "%s|%s#%d%s" % (f.path.replace(LEX, ""), g.path.replace(LEX, ""), i, tag), not fixed,
                       "the marker handed to %s is read from the template text, not a fixed value" % g.path.replace(LEX, ""),
                       f.where(c.bb))
    return n


def check_literals(ctx, prog, roles, cfgname):
    """with custom delimiters compiled in, the lexer compares text with the configured delimiters only: a default
    delimiter written as a literal is allowed in the default search (the function that scans for `{` bytes) alone"""
    tag = "" if cfgname == "MAX" else "[%s]" % cfgname
    n = 0
    for f in roles.fns:
        lits = set()
        for bb in sorted(f.reachable):
            for s in f.stmts(bb):
                rv = s.get("rv")
                if not rv:
                    continue
                for o in ([rv["op"]] if "op" in rv and isinstance(rv["op"], dict) else []) + list(rv.get("ops", [])):
                    c = o.get("c") if isinstance(o, dict) else None
                    if c and c.get("str") in DEFAULT_DELIMS:
                        lits.add(c["str"])
            t = f.term(bb)
            if t["k"] == "call":
                for a in t["args"]:
                    c = a.get("c")
                    if c and c.get("str") in DEFAULT_DELIMS:
                        lits.add(c["str"])
        for pr in f.raw.get("promoted", []):
            for b in pr["blocks"]:
                for s in b["s"]:
                    rv = s.get("rv") or {}
                    o = rv.get("op")
                    if isinstance(o, dict) and o.get("c") and o["c"].get("str") in DEFAULT_DELIMS:
                        lits.add(o["c"]["str"])
        n += 1
        if lits:
            ctx.ob(R8, "%s|%s%s" % (f.path.replace(LEX, ""), ",".join(sorted(lits)), tag), False,
                   "a default delimiter is written as a literal in lexer code: under a custom syntax this text must be plain",
                   f.where(0))
    ctx.ob(R8, "lexer-functions-scanned" + tag, n > 0, "%d functions" % n)
    return n


R9 = "C10.E9.line-ending-is-consumed-cr-first"
R10 = "C10.E10.lstrip-consults-the-line-start-gate-everywhere"


def newline_tests(fn):
    """[(block, character)]: tests of a text / byte against one newline character whose true side consumes it"""
    out = []
    for c in fn.calls():
        chars = set()
        if c.name in (STR + "strip_prefix", STR + "starts_with") and len(c.args) == 2:
            chars = const_chars(fn, c.args[1])
        elif c.name.endswith("::eq") and len(c.args) == 2:
            chars = const_chars(fn, c.args[0]) | const_chars(fn, c.args[1])
        if len(chars) == 1 and chars <= {10, 13}:
            out.append((c.bb, next(iter(chars))))
    return out


def check_crlf_order(ctx, prog, roles, cfgname):
    """E9: a line ends in CR LF, LF or CR.  Code that consumes one line ending with two optional steps has to take the
    carriage return first: the other order eats only the CR of a CR LF pair and leaves a stray LF in the output
    (the property holds for every line-ending style).  Siblings: the trim_blocks skipper, the raw block, the line-statement
    end."""
    tag = "" if cfgname == "MAX" else "[%s]" % cfgname
    n = 0
    cands = set(roles.nlskip) | set(roles.lineend)
    for f in roles.fns:
        if any(a.cls == "SKIPNL" and a.what == "slice-after-newline" for a in actions_of(roles, prog, f)):
            cands.add(f.path)
    for p in sorted(cands):
        f = prog.fn(p)
        ts = newline_tests(f)
        crs = [bb for bb, ch in ts if ch == 13]
        lfs = [bb for bb, ch in ts if ch == 10]
        if not crs or not lfs:
            continue
        n += 1
        # no LF test is followed by a CR test
        bad = [(a, b) for a in lfs for b in crs if a != b and b in cfg.reach_from(f, a) and a not in cfg.reach_from(f, b)]
        ctx.ob(R9, "%s%s" % (p.replace(LEX, ""), tag), not bad,
               "a line ending is consumed as optional CR, then optional LF; here an LF test comes before a CR test: `\\r\\n` "
               "loses only its `\\r`" if bad else "CR is tested before LF", f.where(lfs[0]))
    return n


def check_lstrip_gate(ctx, prog, roles, per_fn, cfgname):
    """E10 (sibling agreement): whether a tag stands at the start of a line is decided by the gate function, which looks at
    the text in front of the tag.  Where one lstrip site asks it, all do: the lstrip helper alone cannot know what
    precedes the piece of text it is given (`x{% raw %}   {% endraw %}` lost its spaces, `x{% if %}   {% endif %}` kept
    them)."""
    tag = "" if cfgname == "MAX" else "[%s]" % cfgname
    sites = []
    for f in roles.fns:
        for a in per_fn.get(f.path, []):
            if a.cls == "LSTRIP":
                g = Guard(roles, prog, f, a.bb)
                sites.append((f, a, bool(g.gate)))
    if not any(gated for _, _, gated in sites):
        return 0
    for f, a, gated in sites:
        ctx.ob(R10, a.key() + tag, gated,
               "this lstrip is not behind the line-start gate (%s) that the other site asks: whitespace is stripped although "
               "the tag does not start its line" % ", ".join(x.replace(LEX, "") for x in roles.gates), f.where(a.bb))
    return len(sites)


R11 = "C10.E11.indentation-is-spaces-and-tabs"


def check_indentation_sets(ctx, prog, roles, cfgname):
    """E11: wherever lexer code singles out the space character as indentation (compares a byte / char with ' ', or uses
    ' ' as a trim / search pattern), the tab is indentation too - unless it classifies with `is_whitespace` /
    `is_ascii_whitespace`, which know both.  A start-of-line test that skips spaces only no longer sees a line statement
    behind a tab (seed C10-11)."""
    tag = "" if cfgname == "MAX" else "[%s]" % cfgname
    n = 0
    for f in roles.fns:
        consts = set()
        for bb, i, st in f.all_stmts():
            rv = st.get("rv") or {}
            if rv.get("k") == "bin" and rv.get("op") in ("Eq", "Ne"):
                for k in ("a", "b"):
                    c = rv[k].get("c") if isinstance(rv.get(k), dict) else None
                    if c is not None and "int" in c and c.get("ty") in ("u8", "char"):
                        consts.add(int(c["int"]))
        for sb in sorted(f.reachable):
            t = f.term(sb)
            if t["k"] == "switch" and t.get("ty") in ("u8", "char"):
                consts |= {int(v) for v, _ in t["arms"] if v.lstrip("-").isdigit()}
        for c in f.calls():
            if c.name.startswith(STR) and len(c.args) == 2 and c.name.rsplit("::", 1)[1] in (
                    "trim_end_matches", "trim_start_matches", "trim_matches", "strip_prefix", "strip_suffix", "starts_with",
                    "ends_with", "find", "rfind", "split", "contains"):
                consts |= const_chars(f, c.args[1])
        if 32 not in consts:
            continue
        n += 1
        knows_ws = any(c.name.endswith(("::is_whitespace", "::is_ascii_whitespace")) for c in f.calls())
        ctx.ob(R11, "%s%s" % (f.path.replace(LEX, ""), tag), 9 in consts or knows_ws,
               "this lexer code treats ' ' as indentation but not the tab (characters compared: %s)" % sorted(consts), f.where(0))
    return n


R12 = "C10.E12.search-resumes-one-past-a-rejected-candidate"
FINDERS = ("::memchr", "::memstr", "::position", "::find", "::rfind", "::rposition", "::find_overlapping")


def check_search_resume(ctx, prog, roles, cfgname):
    """E12 (round 12, seed C10-12, and the raw-block scan of the pinned tree): delimiters may share prefixes with themselves
    (`<<` inside `<<<`, `##}` in front of `#}`).  A scan that verifies a candidate and, when the verification fails, goes on
    searching must resume ONE byte after the start of the rejected candidate: resuming after the whole needle skips a real
    occurrence that begins inside the rejected one.  In every loop of the lexer (and of the search helpers it calls) that
    (a) searches from a loop-carried offset and (b) leaves the loop when a candidate is accepted, no definition of that
    offset on a path back to the search adds the length of the needle."""
    tag = "" if cfgname == "MAX" else "[%s]" % cfgname
    scope = list(roles.fns)
    names = {c.name for f in roles.fns for c in f.calls()}
    for k, g in prog.fns.items():
        if k in names and g.crate == "minijinja" and g.loc.f.endswith("utils.rs") and g not in scope:
            scope.append(g)
    n = 0
    for f in scope:
        if f.kind == "closure":
            continue
        for (hdr, body) in cfg.natural_loops(f):
            finders = [c for c in f.calls() if c.bb in body and c.name.endswith(FINDERS)]
            if not finders:
                continue
            # loop-carried offsets: locals defined inside the loop whose value reaches a finder's haystack slice
            offs = set()
            # index / get calls whose result is the haystack of a finder in this loop
            feeding = set()
            for fc in finders:
                if fc.args and "c" not in fc.args[0]:
                    for o in flow.origins(f, fc.args[0], through_calls=lambda q: 0 if q.name.endswith(("::as_bytes", "::deref", "::as_ref")) else None):
                        if o.kind == "call":
                            feeding.add(o.call.bb)
            for c in f.calls():
                if c.bb not in body or c.bb not in feeding or not c.name.endswith(("::index", "::get", "::get_unchecked")) or len(c.args) < 2 or "c" in c.args[1]:
                    continue
                for o in flow.origins(f, c.args[1]):
                    if o.kind == "agg" and (o.rv.get("adt") or "").startswith("core::ops::range::RangeFrom"):
                        for x in o.rv["ops"]:
                            q = op_place(x) if "c" not in x else None
                            if q is not None and "p" not in q:
                                offs.add(q["l"])
                                # follow plain copies to the variable that is assigned in the loop
                                for d in flow.whole_defs(f, q["l"]):
                                    if d.kind == "stmt" and d.rv["k"] == "use" and op_place(d.rv["op"]) is not None and "p" not in op_place(d.rv["op"]):
                                        offs.add(op_place(d.rv["op"])["l"])
            offs = {l for l in offs if any(d.bb in body for d in flow.whole_defs(f, l))}
            if not offs:
                continue
            accepts = [bb for bb in body if any(s_ not in body for s_ in f.succ[bb])]
            exits_by_return = any(bb in cfg.reach_from(f, x) for bb in f.returns() for x in accepts) or True
            n += 1
            bad = []
            for l in sorted(offs):
                for d in flow.whole_defs(f, l):
                    if d.bb not in body or d.kind != "stmt":
                        continue
                    # can this definition be followed by another search in the same loop?
                    if not any(c.bb in cfg.reach_from(f, d.bb) for c in finders):
                        continue
                    terms = []

                    def walk(op, depth=0):
                        if "c" in op or depth > 5:
                            return
                        for o in flow.origins(f, op):
                            if o.kind == "bin" and o.rv["op"] in ("Add", "AddWithOverflow", "AddUnchecked"):
                                walk(o.rv["a"], depth + 1)
                                walk(o.rv["b"], depth + 1)
                            elif o.kind == "call":
                                terms.append(o.call)
                    walk(d.rv["op"] if d.rv["k"] == "use" else d.rv.get("a", {}))
                    if d.rv["k"] == "bin":
                        walk(d.rv["a"])
                        walk(d.rv["b"])
                    for t_ in terms:
                        if t_.name.rsplit("::", 1)[-1] == "len" and not any(t_.bb == c.bb for c in finders):
                            bad.append(f.tloc(d.bb))
            ctx.ob(R12, "%s|loop@%s%s" % (f.path.replace(LEX, "").replace("minijinja::utils::", "utils::"), len([1 for h2, _ in cfg.natural_loops(f) if h2 <= hdr]), tag),
                   not bad, "a search loop advances its offset by the length of the needle on a path that searches again (%s): an "
                   "occurrence that begins inside a rejected candidate is skipped" % sorted(set(str(b) for b in bad)), f.where(hdr))
    return n


def tag_of(cfgname):
    return "" if cfgname == "MAX" else "[%s]" % cfgname


def run(ctx):
    ctx.explain("C10 (partial): the wiring of the whitespace rules in the lexer.  Every operation of "
                "minijinja::compiler::lexer that shortens template text (str::trim*, the whitespace skipper, the lstrip "
                "helper, the newline skipper, newline slices) is classified and must sit under the condition the property "
                "names for it ('-' marker; no marker + trim_blocks at block / comment / raw tag ends; no marker + "
                "lstrip_blocks before block / comment tags; keep_trailing_newline off, once, in the constructor); every "
                "switch on the marker enum honours each of its three values; the lstrip gate's decision table over "
                "(setting x tag kind) is extracted; the tag ends lexed by text comparison are checked per tag kind.  "
                "NOT decided: which characters each primitive removes (CR/LF handling, start-of-line detection), the "
                "delimiter search (leftmost-longest tie-breaking), verbatim reproduction of the remaining text.")
    for cfgname in ctx.configs():
        prog = ctx.program(cfgname)
        roles = Roles(ctx, prog)
        del IN_TAG_SKIPS[:]
        if cfgname == "MAX":
            ctx.count("lexer functions", len(roles.fns))
            ctx.sample({"roles": {"lstrip": roles.lstrip, "skipper": roles.skipper, "newline-skipper": roles.nlskip,
                                  "gate": roles.gates, "constructor": roles.ctor, "pending-trim flag": roles.flags}})
        na, per_fn = check_actions(ctx, prog, roles, cfgname)
        ns = check_switches(ctx, prog, roles, per_fn, cfgname)
        ng = check_gate(ctx, prog, roles, cfgname)
        nt = check_tag_ends(ctx, prog, roles, per_fn, cfgname)
        nn = check_nlskip(ctx, prog, roles, cfgname)
        nf = check_flag(ctx, prog, roles, cfgname)
        nm = check_marker_args(ctx, prog, roles, cfgname)
        n9 = check_crlf_order(ctx, prog, roles, cfgname)
        n10 = check_lstrip_gate(ctx, prog, roles, per_fn, cfgname)
        n11 = check_indentation_sets(ctx, prog, roles, cfgname)
        n12 = check_search_resume(ctx, prog, roles, cfgname)
        ctx.count("C10.E12 search loops" + tag_of(cfgname), n12)
        ctx.count("C10.E1 in-tag blank skips of tag recognisers (not whitespace next to a tag)" + tag_of(cfgname),
                  len(set(IN_TAG_SKIPS)))
        ctx.count("C10.E11 functions that single out the space" + tag_of(cfgname), n11)
        if cfgname == "MAX":
            check_literals(ctx, prog, roles, cfgname)
            # floors: numbers counted on the tree (a rule that finds nothing passes vacuously)
            ctx.floor("C10 text-shortening action sites", na, 8)
            ctx.floor("C10 marker switches with actions", ns, 3)
            ctx.floor("C10 gate table cells", ng, 6)
            ctx.floor("C10 tag-end arms", nt, 2)
            ctx.floor("C10 newline-skipper advances", nn, 1)
            ctx.floor("C10 pending-trim consumers", nf, 1)
            ctx.floor("C10 marker arguments", nm, 2)
            ctx.floor("C10 line-ending consumers", n9, 2)
            ctx.floor("C10 lstrip sites", n10, 2)
    ctx.assume("std semantics of str::trim*, starts_with, ends_with; the Whitespace enum is the decoded marker ('-' Remove, '+' Preserve)")
