"""C12 — stricter undefined modes only add errors; the documented matrix holds.

Structural clauses:
 M1 every reader of an UndefinedBehavior discriminant is a reviewed decision function, and the decision table of each
    (extracted from MIR by finite-domain abstract interpretation over mode x value class) has, per value class, an
    error set that is upward closed in Chainable < Lenient < SemiStrict < Strict — i.e. switching to a stricter mode
    can only turn success into error, never change which continuation runs.
 M2 the tables equal the documented matrix: printing / iterating / coercing an undefined fail exactly under Strict and
    SemiStrict, truth-testing only under Strict, attribute access on an undefined everywhere but Chainable; a silent
    undefined and every defined value never fail.
 M3 the Result of every call of a decision helper is returned or propagated (never `.ok()`-ed, defaulted, unwrapped).
 M4 the mode does not flow into data: a value of type UndefinedBehavior is only passed to the reviewed functions.
 M5 `is defined`, `is undefined`, `default` cannot fail on an undefined operand: they take `&Value`/`Value`, call no
    asserting helper, and construct no error.
"""
from .. import cfg, flow, errflow, query, arms, absint
from ..facts import op_place, norm_path

UB = "minijinja::utils::UndefinedBehavior"
REPR = "minijinja::value::ValueRepr"
UT = "minijinja::value::UndefinedType"
ORDER = ["Chainable", "Lenient", "SemiStrict", "Strict"]
H = "minijinja::utils::UndefinedBehavior::"
HELPERS = [H + "handle_undefined", H + "is_true", H + "assert_iterable", H + "assert_value_not_undefined", H + "try_iter"]
FORMAT = "minijinja::environment::Environment::format"
EI = "minijinja::vm::Executor::eval_impl"

READERS = {
    H + "handle_undefined": "decision helper",
    H + "is_true": "decision helper",
    H + "assert_iterable": "decision helper",
    H + "assert_value_not_undefined": "decision helper",
    FORMAT: "print decision for custom formatters",
    EI: "strict_undefined flag of the Emit fast path",
    "<minijinja::utils::UndefinedBehavior as core::cmp::PartialEq>::eq": "derive",
    "<minijinja::utils::UndefinedBehavior as core::fmt::Debug>::fmt": "derive",
}
MODE_SINKS = {
    H + "handle_undefined", H + "is_true", H + "assert_iterable", H + "assert_value_not_undefined", H + "try_iter",
    "minijinja::environment::Environment::set_undefined_behavior",
    "<minijinja::utils::UndefinedBehavior as core::cmp::PartialEq>::eq",
    "<minijinja::utils::UndefinedBehavior as core::fmt::Debug>::fmt",
    "<minijinja::utils::UndefinedBehavior as core::clone::Clone>::clone",
    "core::fmt::rt::Argument::new_debug",
    "core::fmt::Formatter::debug_struct_field5_finish", "core::fmt::builders::DebugStruct::field",
}

# documented matrix: helper -> predicate(mode, value class, parent) -> fails?
def expect_handle(mode, parent):
    return parent and mode != "Chainable"


def expect_truth(mode, cls):
    return mode == "Strict" and cls == "undefined"


def expect_strictish(mode, cls):
    return mode in ("Strict", "SemiStrict") and cls == "undefined"


def value_domains(prog):
    und = absint.discr_of(prog, REPR, "Undefined")
    others = frozenset(v["discr"] for v in prog.adt(REPR)["variants"] if v["name"] != "Undefined")
    d_def = absint.discr_of(prog, UT, "Default")
    d_sil = absint.discr_of(prog, UT, "Silent")
    return und, others, d_def, d_sil


def helper_table(prog, f, mode_arg_proj=(), value_arg=2):
    und, others, d_def, d_sil = value_domains(prog)

    def classify(o, adt):
        if o.kind != "arg":
            return None
        if adt == UB and o.arg == 1 and tuple(p for p in o.proj if not p.isdigit() or True) is not None:
            names = tuple(o.proj)
            if names == tuple(mode_arg_proj):
                return "mode"
        if adt == REPR and o.arg == value_arg and tuple(o.proj) == ("0",):
            return "repr"
        if adt == UT and o.arg == value_arg and o.proj and o.proj[-2:] == ("as Undefined", "0"):
            return "utype"
        if adt == "bool" and o.arg == 2 and not o.proj and value_arg != 2:
            return "parent"
        return None

    doms = {"mode": [(m, absint.discr_of(prog, UB, m)) for m in ORDER],
            "cls": None}
    # value classes are expressed as joint (repr, utype) assignments
    classes = {"undefined": (frozenset([und]), d_def), "silent": (frozenset([und]), d_sil), "defined": (others, d_def)}
    out = {}
    for cname, (rset, ut) in classes.items():
        d = {"mode": doms["mode"], "repr": [(cname, rset)], "utype": [(cname, ut)]}
        keys, tab = absint.decision_table(prog, f, classify, d)
        for k, v in tab.items():
            mode = k[keys.index("mode")]
            out[(mode, cname)] = v
    return out


M10_FILES = ("minijinja/src/filters.rs", "minijinja/src/functions.rs", "minijinja/src/tests.rs")
M10_ITER = ("minijinja::value::Value::try_iter", "minijinja::value::object::DynObject::try_iter",
            "minijinja::value::object::DynObject::try_iter_pairs")
M10_PRINT = ("minijinja::utils::write_escaped", "minijinja::vm::state::State::format")
M10_ASSERT = ("minijinja::utils::UndefinedBehavior::assert_value_not_undefined", "minijinja::utils::UndefinedBehavior::try_iter",
              "minijinja::utils::UndefinedBehavior::assert_iterable")
M10_REVIEWED = {
    "minijinja::filters::builtins::dictsort": "fails with InvalidOperation for every non-map operand, undefined included, in all modes",
    "minijinja::filters::builtins::first": "fails with InvalidOperation for an undefined operand in all modes",
    "minijinja::filters::builtins::last": "iterates the result of Value::reverse, which rejects undefined under the strict modes",
    "minijinja::filters::builtins::items": "fails with InvalidOperation for every non-map operand in all modes",
    "minijinja::filters::builtins::urlencode": "iterates a value already matched as a map",
    "minijinja::tests::builtins::is_iterable": "a type test: `is iterable` never fails",
    "minijinja::functions::builtins::dict": "`dict(undefined)` is documented to give the empty dict (explicit Undefined arm)",
    "minijinja::functions::builtins::namespace": "same contract as dict(): only a map operand is looked into",
}


def check_conversion_twins(ctx, prog, tag):
    """M11 (after seed C12-9): an argument conversion exists twice, for callees with and without mutable access to the
    state (`from_state_and_value_mut` / `from_state_and_value`, and the `_owned` pair).  Where one twin asks the undefined
    behaviour about its operand, the other one does too - by its own check or by forwarding to the twin that has it.  A
    twin that is missing falls back to the trait's default, which converts without a state and without the check."""
    impls = {}
    for k, f in prog.fns.items():
        if f.crate != "minijinja" or f.kind == "closure" or " as minijinja::value::argtypes::ArgType<" not in k:
            continue
        ty, meth = k.rsplit(">::", 1)
        impls.setdefault(ty, {})[meth] = f
    n = 0

    def asks(f, seen=()):
        for g in [f] + prog.closures_of(f.path):
            for c in g.calls():
                if c.name in M10_ASSERT:
                    return True
                tgt = prog.fns.get(c.resolved or c.path or "")
                if tgt is None or tgt.path in seen or tgt is f or len(seen) > 3:
                    continue
                same_impl = tgt.path.rsplit(">::", 1)[0] == f.path.rsplit(">::", 1)[0]
                # a twin of the same impl, or a private helper of the module the check was moved into
                # (`assert_string_coercible(state, value)`)
                helper = tgt.crate == "minijinja" and not tgt.is_pub and tgt.kind != "closure" and tgt.loc.f == f.loc.f and tgt.nblocks <= 30
                if (same_impl or helper) and asks(tgt, seen + (f.path,)):
                    return True
        return False
    for ty, ms in sorted(impls.items()):
        for base in ("from_state_and_value", "from_state_and_value_owned", "from_state_and_values"):
            a, b = ms.get(base), ms.get(base + "_mut")
            for have, other, oname in ((a, b, base + "_mut"), (b, a, base)):
                if have is None or not asks(have):
                    continue
                n += 1
                ok = other is not None and asks(other)
                ctx.ob("C12.M11.both-conversion-paths-ask-the-mode", "%s%s|%s" % (tag, ty.split(" as ")[0].lstrip("<"), oname), ok,
                       "the %s conversion of %s asks the undefined behaviour about its operand, its twin %s %s: callees that "
                       "take the state the other way convert an undefined operand silently under Strict / SemiStrict"
                       % (have.path.rsplit("::", 1)[-1], ty.split(" as ")[0].lstrip("<"), oname,
                          "does not" if other is not None else "is missing (the trait default converts without the state)"), have.loc)
    return n



def check_builtin_operands(ctx, prog, tag):
    """M10: "at every site of the language printing and iterating an undefined fail under Strict and SemiStrict".  A
    builtin filter / function that receives its operand as a raw `Value` (no conversion to a concrete type, which would
    reject undefined) and iterates or prints it must first pass it to one of the mode helpers
    (`assert_value_not_undefined`, `UndefinedBehavior::try_iter`), in the function itself or - for closures - in the
    function that builds them; otherwise `{{ missing|join(',') }}` or `{{ missing|e }}` render silently under Strict."""
    n = 0
    for f in sorted(prog.fns.values(), key=lambda x: x.path):
        if not f.loc.f.endswith(M10_FILES):
            continue
        root = prog.fns.get(f.root) if f.root else f
        if root is None:
            root = f
        asserted = set()
        for g in [root] + prog.closures_of(root.path):
            for c in g.calls():
                if c.name in M10_ASSERT:
                    asserted.add(g.path)
        for c in f.calls():
            kind = "iterates" if c.name in M10_ITER else ("prints" if c.name in M10_PRINT else None)
            # turning the operand into text is printing it (`v.to_string()`, seed C12-7): the `String` parameter type
            # would have asked the mode, a raw `&Value` does not
            if kind is None and c.path == "alloc::string::ToString::to_string" and (c.self_ty or {}).get("adt") == "minijinja::value::Value":
                kind = "prints"
            if kind is None or not c.args:
                continue
            arg = c.args[0] if (kind == "iterates" or c.path == "alloc::string::ToString::to_string") else c.args[-1]
            if "c" in arg:
                continue
            os_ = flow.origins(f, arg, through_calls=flow._xpass)
            # the operand is a raw parameter of the filter (or a capture of one in a closure)
            if not any(o.kind == "arg" for o in os_):
                continue
            n += 1
            ok = bool(asserted)
            # (round 13, seed C12-13) ... *first*: where the helper is called in the function that iterates / prints, it
            # comes before the site on every path (an `assert_value_not_undefined` moved behind an early return for the
            # no-auto-escape case lets `missing|join(',')` through in `.txt` templates) and is asked about this operand
            here = [k for k in f.calls() if k.name in M10_ASSERT]
            if ok and here:
                roots_ = {o.key() for o in os_ if o.kind == "arg"}
                ok = any(cfg.dominates(f, k.bb, c.bb) and roots_ & {
                    o.key() for a_ in k.args[1:] if "c" not in a_ for o in flow.origins(f, a_, through_calls=flow._xpass)} for k in here)
            reason = M10_REVIEWED.get(root.path)
            ctx.ob("C12.M10.builtin-%s-its-operand-through-the-mode" % kind, tag + root.path.split("::")[-1], ok or reason is not None,
                   ("reviewed: " + reason) if (reason and not ok) else
                   "%s %s a raw `Value` operand without asking the undefined behaviour first: an undefined operand is "
                   "processed silently under Strict / SemiStrict" % (root.path.split("::")[-1], kind), f.where(c.bb))
    ctx.floor("C12.M10 builtin sites iterating / printing a raw operand" + tag, n, 8)
    n11 = check_conversion_twins(ctx, prog, tag)
    ctx.floor("C12.M11 argument conversions that ask the mode" + tag, n11, 4)
    n12 = check_operator_operands(ctx, prog, tag)
    ctx.floor("C12.M12 operands of total operators in the interpreter" + tag, n12, 20)
    # M10c: where the operands come as a collection (`Rest<Value>`) the helper is applied in a loop; that loop must reach
    # every operand: it is left only when the iterator is exhausted or with an error.  A `break` out of it (say, at the
    # first operand of unknown length) leaves the operands behind it unasked (seed C12-8).
    for f in sorted(prog.fns.values(), key=lambda x: x.path):
        if not f.loc.f.endswith(M10_FILES):
            continue
        loops = cfg.natural_loops(f)
        for c in f.calls():
            if c.name not in M10_ASSERT or len(c.args) < 2:
                continue
            for h, body in loops:
                if c.bb not in body:
                    continue
                nexts = [k for k in f.calls() if k.bb in body and k.name.endswith("::next")]
                item = any(o.kind == "call" and o.call.name.endswith("::next") and o.call.bb in body
                           for o in flow.origins(f, c.args[1], through_calls=flow._xpass))
                if not nexts or not item:
                    continue
                # exits of the loop: edges from a body block to a block outside
                bad = []
                for b in sorted(body):
                    for t in f.succ[b]:
                        if t in body or t == h:
                            continue
                        # the iterator is exhausted: the switch on the Option `next()` returned
                        term = f.term(b)
                        if term["k"] == "switch":
                            cd = flow.cond_of(f, b)
                            if cd.kind == "discr" and any(o.kind == "call" and o.call.name.endswith("::next") for o in flow.origins(f, {"cp": cd.place})):
                                continue
                        # an error leaves the function: every return reachable from here assigns Err
                        reach = cfg.reach_from(f, t)
                        errs = {bb for bb, i, st in f.all_stmts() if st["k"] == "assign" and st["place"] == {"l": 0}
                                and st["rv"]["k"] == "agg" and st["rv"].get("variant") == "Err"}
                        errs |= {k.bb for k in f.calls() if k.dest == {"l": 0}}
                        if not (reach & body) and cfg.paths_must_pass(f, t, errs, f.returns()):
                            continue
                        bad.append(b)
                ctx.ob("C12.M10.every-operand-of-the-collection-is-asked", "%s%s|%s" % (tag, f.path.split("::")[-1], c.name.split("::")[-1]),
                       not bad, "the loop in which %s asks the undefined behaviour about each operand can be left early (a `break`): "
                       "operands behind that point are used without the check, so an undefined one is iterated silently under "
                       "Strict / SemiStrict" % f.path.split("::")[-1], f.where(bad[0]) if bad else f.where(c.bb))


OPERATOR_CALLS = ("<minijinja::value::Value as core::cmp::PartialEq>::eq", "<minijinja::value::Value as core::cmp::PartialEq>::ne",
                  "core::cmp::PartialOrd::lt", "core::cmp::PartialOrd::le", "core::cmp::PartialOrd::gt", "core::cmp::PartialOrd::ge",
                  "minijinja::value::ops::contains", "minijinja::value::ops::string_concat")


def check_operator_operands(ctx, prog, tag):
    """M12 (round 10, seed C12-10): the comparison / membership / concatenation operators are total functions on values -
    they never fail by themselves, so whether an undefined operand is an error is decided by the mode helper the
    interpreter applies to it first.  In every arm of the dispatch, each of the two operands handed to such an operator
    (traced to the stack pop it came from) is the argument of a dominating `assert_value_not_undefined` /
    `assert_iterable`.  A chained comparison is left early when a link is false, so "the next link checks it" is not an
    argument: the check belongs to the link that uses the value."""
    from .. import inline as _inl, arms as _arms, cfg as _cfg
    INSTR = "minijinja::compiler::instructions::Instruction"
    ev = prog.fns.get("minijinja::vm::Executor::eval_impl")
    if ev is None:
        return 0
    ev = _inl.view(prog, ev, keep=("assert_value_not_undefined", "assert_iterable", "pop", "contains", "string_concat", "eq", "ne",
                                   "lt", "le", "gt", "ge"))
    sw = _arms.enum_switches(prog, ev, INSTR)
    if not sw:
        return 0
    regs = _arms.arm_regions(prog, ev, sw[0][0], INSTR)
    dom = _cfg.dominators(ev)
    helpers = [c for c in ev.calls() if c.name.endswith(("::assert_value_not_undefined", "::assert_iterable"))]
    n = 0
    for c in ev.calls():
        if c.name not in OPERATOR_CALLS or len(c.args) < 2:
            continue
        arm = sorted(v for v, r in regs.items() if c.bb in r)
        if not arm:
            continue
        reg = regs[arm[0]]
        # only operands that come off the operand stack (both sides of a binary operator instruction)
        keys = []
        for a in c.args[:2]:
            os_ = flow.origins(ev, a, within=reg) if "c" not in a else []
            keys.append({o.key() for o in os_ if o.kind == "call" and o.call.name.endswith("::pop")})
        if not all(keys):
            continue
        for i, ks in enumerate(keys):
            n += 1
            asked = False
            for h in helpers:
                if h.bb in dom.get(c.bb, ()) and h.bb in reg and len(h.args) >= 2:
                    hk = {o.key() for o in flow.origins(ev, h.args[1], within=reg) if o.kind == "call"}
                    if hk & ks:
                        asked = True
            ctx.ob("C12.M12.operator-operand-is-asked-first", "%s%s|%s#%d" % (tag, "|".join(arm), c.name.rsplit("::", 1)[-1], i), asked,
                   "operand %d of %s in the %s handler reaches the operator without a dominating assert_value_not_undefined / "
                   "assert_iterable on it: an undefined operand is compared silently in the strict modes" % (i, c.name.rsplit("::", 1)[-1], "|".join(arm)),
                   ev.where(c.bb))
    return n


def run(ctx):
    ctx.explain("C12: finite-domain abstract interpretation of the mode-dependent decision functions over "
                "(4 modes x {undefined, silent undefined, defined}) extracted from MIR, checked for upward-closed "
                "error sets (monotonicity) and against the documented matrix; a who-may-read rule for the mode "
                "discriminant; an error-discipline rule at every call site of a decision helper; a who-may-receive "
                "rule showing the mode never flows into data; and purity of the never-failing tests/filters.  "
                "Together a non-interference argument: the mode only selects {fail | the common continuation}, so a "
                "render that succeeds under a stricter mode takes the same path under every weaker one.")
    ctx.assume("host-registered filters/functions/objects do not consult the undefined behavior themselves")
    for cname in ctx.configs():
        prog = ctx.program(cname)
        tag = "" if cname == "MAX" else "[%s]" % cname
        # ---- M9: compile-time evaluation never yields an undefined value (shared with C04.K10): the mode is applied
        # by the interpreter only
        from .c04 import check_folder_never_undefined
        check_folder_never_undefined(ctx, prog, "C12.M9.constant-folding-never-yields-undefined", tag)
        if cname == "MAX":
            check_builtin_operands(ctx, prog, tag)
        # ---- M1: readers of the discriminant
        readers = set()
        for f in prog.fns.values():
            for bb in sorted(f.reachable):
                if f.term(bb)["k"] != "switch":
                    continue
                cd = flow.cond_of(f, bb)
                if cd.kind == "discr" and cd.adt == UB:
                    readers.add(f.path)
            for c in f.calls():
                if c.name == "<minijinja::utils::UndefinedBehavior as core::cmp::PartialEq>::eq":
                    readers.add(f.path)
        ctx.floor("C12.M1 functions reading the mode discriminant" + tag, len(readers), 5)
        pending_readers = sorted(readers)

        # ---- M1/M2: tables.  Each decision function is read through the private helpers it may have been split into
        # (`inline.view`); the functions the tables and the other rules know by name stay calls
        from .. import inline as _inl
        KEEP = ("handle_undefined", "is_true", "assert_iterable", "assert_value_not_undefined", "try_iter", "format",
                "is_undefined", "is_default_formatter", "eq", "fmt", "clone")
        tabled = {}

        def V(path):
            v = _inl.view(prog, prog.fn(path), keep=KEEP)
            tabled[path] = v
            return v
        tables = {}
        hu = V(H + "handle_undefined")

        def classify_hu(o, adt):
            if o.kind != "arg":
                return None
            if adt == UB and o.arg == 1 and not o.proj:
                return "mode"
            if adt == "bool" and o.arg == 2 and not o.proj:
                return "parent"
            return None
        keys, tab = absint.decision_table(prog, hu, classify_hu, {
            "mode": [(m, absint.discr_of(prog, UB, m)) for m in ORDER], "parent": [("parent-undefined", True), ("parent-defined", False)]})
        for k, v in tab.items():
            mode = k[keys.index("mode")]
            par = k[keys.index("parent")]
            tables[("handle_undefined", mode, par)] = v
            want = {"err"} if expect_handle(mode, par == "parent-undefined") else {"ok"}
            ctx.ob("C12.M2.matrix-attribute-of-undefined", "%shandle_undefined|%s|%s" % (tag, mode, par), set(v) == want,
                   "computed outcome %s, documented %s" % (sorted(v), sorted(want)), hu.loc)
        for hname, expect, label in (("is_true", expect_truth, "truth-test"),
                                     ("assert_iterable", expect_strictish, "iteration"),
                                     ("assert_value_not_undefined", expect_strictish, "coercion")):
            f = V(H + hname)
            t = helper_table(prog, f)
            for (mode, cls), v in sorted(t.items()):
                tables[(hname, mode, cls)] = v
                want = {"err"} if expect(mode, cls) else {"ok"}
                ctx.ob("C12.M2.matrix-%s" % label, "%s%s|%s|%s" % (tag, hname, mode, cls), set(v) == want,
                       "computed outcome %s, documented %s" % (sorted(v), sorted(want)), f.loc)
        ff = V(FORMAT)
        t = helper_table(prog, ff, mode_arg_proj=("undefined_behavior",), value_arg=2)
        for (mode, cls), v in sorted(t.items()):
            tables[("format", mode, cls)] = v
            # a defined value may still fail in the formatter: the mode-dependent part is the forced error
            forced = set(v) == {"err"}
            # "silent" intentionally not special-cased in format: `x if false` prints nothing through the formatter
            want = mode in ("Strict", "SemiStrict") and cls == "undefined"
            ctx.ob("C12.M2.matrix-print", "%sformat|%s|%s" % (tag, mode, cls), forced == want,
                   "computed outcome %s, documented forced-error=%s" % (sorted(v), want), ff.loc)
        # monotonicity of every computed table
        groups = {}
        for (h, mode, cls), v in tables.items():
            groups.setdefault((h, cls), {})[mode] = v
        for (h, cls), per in sorted(groups.items()):
            forced = [set(per[m]) == {"err"} for m in ORDER]
            mono = all((not forced[i]) or forced[j] for i in range(4) for j in range(i, 4))
            # non-error continuation must not depend on the mode: every non-forced mode has the same outcome set
            conts = {frozenset(per[m]) for m, fz in zip(ORDER, forced) if not fz}
            ctx.ob("C12.M1.error-set-upward-closed", "%s%s|%s" % (tag, h, cls), mono and len(conts) <= 1,
                   "forced-error modes %s (order %s); continuations %s" % (
                       [m for m, fz in zip(ORDER, forced) if fz], ORDER, [sorted(c) for c in conts]), "")
        # mode tests inside the interpreter loop (strict_undefined flag of the Emit fast path, Slice): each
        # `matches!(mode, ..)` must select an upward-closed set of modes
        ev = V(EI)
        sets = []
        for bb in sorted(ev.reachable):
            if ev.term(bb)["k"] != "switch":
                continue
            mv = flow.matches_variants(prog, ev, bb, UB)
            if mv is not None:
                sets.append(mv)
                idx = [ORDER.index(m) for m in mv]
                up = bool(mv) and set(ORDER[min(idx):]) == set(mv)
                ctx.ob("C12.M1.interpreter-mode-test-upward-closed", "%seval_impl|%s" % (tag, "+".join(sorted(mv))), up,
                       "the interpreter tests the mode against %s, which is not an upward-closed set of %s" % (sorted(mv), ORDER),
                       ev.where(bb))
        # M1 (readers): a function that branches on the mode is one of the reviewed decision functions, whose tables
        # were just computed - or a crate-private helper of such functions that the tables above looked through
        for r in pending_readers:
            okr = r in READERS
            whyr = "a new function branches on the undefined behavior: its decision table is not verified to be monotone"
            if not okr:
                g = prog.fn(r)
                sites = prog.callers().get(r, [])
                if not g.is_pub and sites and all(
                        c.fn.path in tabled and r in _inl.inlined_helpers(tabled[c.fn.path]) for c in sites):
                    okr = True
                else:
                    whyr += " (it is not a private helper that only the tabled decision functions call: callers %s)" % sorted(
                        {c.fn.path.split("::")[-1] for c in sites})
            ctx.ob("C12.M1.mode-reader-is-reviewed", tag + r, okr, whyr, prog.fn(r).loc)
        ctx.ob("C12.M2.emit-fast-path-strict-set", tag + "eval_impl|strict_undefined", {"Strict", "SemiStrict"} in sets,
               "no test for exactly {Strict, SemiStrict} (printing an undefined) found; tests: %s" % [sorted(x) for x in sets],
               ev.loc)
        ev = tabled.get(EI) or prog.fn(EI)      # the Emit handler may have been moved into a helper (`emit_value(..)`)
        # ---- M7: printing decides undefined-ness on every path.  Whatever else the Emit handler looks at (output
        # mode, formatter kind), each path through it passes the {Strict, SemiStrict} test or hands the value to the
        # formatter, which makes the same decision; a path that skips both prints/drops an undefined silently.
        from .. import arms
        INSTR = "minijinja::compiler::instructions::Instruction"
        disp = arms.enum_switches(prog, ev, INSTR)
        ctx.need(disp, "C12.M7: dispatch switch not found")
        regs = arms.arm_regions(prog, ev, disp[0][0], INSTR)
        emit = regs.get("Emit", set())
        entry = arms.variant_targets(prog, ev, disp[0][0], INSTR).get("Emit")
        deciders = {bb for bb in emit if ev.term(bb)["k"] == "switch" and flow.matches_variants(prog, ev, bb, UB) == {"Strict", "SemiStrict"}}
        deciders |= {c.bb for c in arms.calls_in(ev, emit) if c.name == "minijinja::environment::Environment::format"}
        exits = {t for b in emit for t in ev.succ[b] if t not in emit}
        ok7 = entry is not None and bool(deciders) and cfg.paths_must_pass(ev, entry, deciders, exits)
        ctx.ob("C12.M7.emit-decides-undefined-on-every-path", tag + "eval_impl|Emit", ok7,
               "a path through the Emit handler reaches the next instruction without the {Strict, SemiStrict} test "
               "and without Environment::format: an undefined value printed there is silently accepted in the strict "
               "modes", ev.where(entry) if entry is not None else ev.loc)
        # ---- M8: a failed attribute / item lookup becomes what the mode says for *that container*.  In the GetAttr /
        # GetItem handlers the None side of the lookup passes handle_undefined(x.is_undefined()) with x the value that
        # was looked into, before anything is pushed.
        HU = "minijinja::utils::UndefinedBehavior::handle_undefined"
        # the handlers are read through helpers a maintainer may have moved the tail of the lookup into (the functions
        # this rule looks for stay calls)
        from .. import inline
        ev0, regs0 = prog.fn(EI), regs
        ev = inline.view(prog, ev0, keep=("handle_undefined", "get_attr_fast", "get_item_opt", "get_item", "get_attr", "is_undefined",
                                          "push", "pop", "slice", "validate", "peek"))
        if True:
            disp8 = arms.enum_switches(prog, ev, INSTR)
            ctx.need(disp8, "C12.M8: dispatch switch not found in the helper-transparent view")
            regs = arms.arm_regions(prog, ev, disp8[0][0], INSTR)
        for v, lk in (("GetAttr", "get_attr_fast"), ("GetItem", "get_item_opt")):
            reg = regs.get(v, set())
            looks = [c for c in arms.calls_in(ev, reg) if c.name.split("::")[-1] == lk]
            ok8 = False
            why8 = "no %s call in the %s handler" % (lk, v)
            for c in looks:
                sp = errflow.result_split(ev, c.dest["l"]) if c.dest is not None and "p" not in c.dest else None
                if not sp or not sp.switches:
                    why8 = "the result of %s is not matched" % lk
                    continue
                recv = {o.key() for o in flow.origins(ev, c.args[0], within=reg)}
                hus = []
                for h in arms.calls_in(ev, reg):
                    if h.name != HU:
                        continue
                    good = False
                    for o in flow.origins(ev, h.args[1], within=reg):
                        if o.kind == "call" and o.call.name.endswith("Value::is_undefined"):
                            if {x.key() for x in flow.origins(ev, o.call.args[0], within=reg)} & recv:
                                good = True
                    if good:
                        hus.append(h.bb)
                pushes = {p_.bb for p_ in arms.calls_in(ev, reg) if p_.name == "minijinja::vm::context::Stack::push"}
                starts = set()
                for (sb, none_t, some_t, other, adt) in sp.switches:
                    starts |= set(none_t or {other})
                exits = {t for b in reg for t in ev.succ[b] if t not in reg}
                ok8 = bool(hus) and bool(starts) and all(cfg.paths_must_pass(ev, st_, hus, pushes | exits) for st_ in starts)
                why8 = "handle_undefined(container.is_undefined()) sites %s" % len(hus)
            ctx.ob("C12.M8.failed-lookup-asks-the-mode-about-the-container", tag + "eval_impl|" + v, ok8,
                   "in the %s handler a failed lookup must pass handle_undefined(x.is_undefined()) for the value x that was "
                   "looked into before pushing a result (%s): otherwise `undefined.attr` is silently undefined in Lenient "
                   "/ strict modes, or the wrong operand decides" % (v, why8), ev.loc)
        # M8b: slicing looks into a value like a subscript does: in the Slice handler the slice operation runs only on the
        # side on which the sliced value is not undefined, and the undefined side asks handle_undefined (so it fails in
        # every mode but Chainable, not just under Strict)
        reg_s = regs.get("Slice", set())
        if reg_s:
            sl = [c for c in arms.calls_in(ev, reg_s) if c.name.endswith("ops::slice")]
            hu_s = [c for c in arms.calls_in(ev, reg_s) if c.name == HU]
            ok_s = False
            for c in sl:
                recv = {o.key() for o in flow.origins(ev, c.args[0], within=reg_s)}
                for g in flow.guard_facts(prog, ev, c.bb):
                    if g[0] == "call" and g[1].endswith("Value::is_undefined") and g[2] is False and (
                            {o.key() for o in flow.origins(ev, g[3].args[0], within=reg_s)} & recv):
                        ok_s = bool(hu_s)
            ctx.ob("C12.M8.failed-lookup-asks-the-mode-about-the-container", tag + "eval_impl|Slice", ok_s,
                   "the Slice handler slices an undefined value unless the mode is Strict (`missing[1:]` is `[]` under SemiStrict "
                   "and Lenient): like item access it has to ask handle_undefined about the sliced value", ev.loc)
        ev = ev0
        regs = arms.arm_regions(prog, ev, arms.enum_switches(prog, ev, INSTR)[0][0], INSTR)
        # ---- M3
        n3 = 0
        for f in prog.fns.values():
            per = {}
            for c in f.calls():
                if c.name in HELPERS:
                    n3 += 1
                    k = per[c.name] = per.get(c.name, 0) + 1
                    ds = errflow.disposition(f, c)
                    bad = [d for d in ds if d[0] not in ("returned", "propagated")]
                    # try_iter / assert_iterable combined with and_then: still a Result that must be propagated
                    ctx.ob("C12.M3.helper-result-propagated", "%s%s|%s#%d" % (tag, f.path, c.name.split("::")[-1], k),
                           bool(ds) and not bad,
                           "the Result of %s is %s: the error of a stricter mode is lost" % (c.name.split("::")[-1], bad or ds),
                           f.where(c.bb))
        ctx.floor("C12.M3 call sites of the decision helpers" + tag, n3, 40 if cname != "MIN" else 25)

        # ---- M6: the interpreter iterates template values only through the mode-aware helper
        VM_DIRECT_ITER = {
            "minijinja::vm::Executor::build_macro": "iterates the argument-name list the code generator emitted",
            "minijinja::vm::context::Context::known_variables": "debug listing of the context, not an evaluation",
        }
        n6 = 0
        for f in prog.fns.values():
            if not f.path.startswith("minijinja::vm::"):
                continue
            for c in f.calls():
                if c.name == "minijinja::value::Value::try_iter":
                    n6 += 1
                    root = f.root or f.path
                    ctx.ob("C12.M6.interpreter-iterates-through-the-mode-helper", "%s%s" % (tag, root), root in VM_DIRECT_ITER,
                           "the interpreter iterates a template value with the plain Value::try_iter (an undefined is an "
                           "empty sequence in every mode) instead of UndefinedBehavior::try_iter: iterating an undefined "
                           "here does not fail under Strict / SemiStrict", f.where(c.bb))
        helper_iter = [c for f in prog.fns.values() if f.path.startswith("minijinja::vm::") for c in f.calls()
                       if c.name == H + "try_iter"]
        ctx.floor("C12.M6 mode-aware iteration sites in the interpreter" + tag, len(helper_iter), 2)

        # ---- M4
        n4 = 0
        for f in prog.fns.values():
            for c in f.calls():
                for a in c.args:
                    p = op_place(a)
                    if p is None or "p" in p:
                        continue
                    t = f.locals[p["l"]]
                    if t.get("adt") == UB:
                        n4 += 1
                        ok = c.name in MODE_SINKS or c.name.startswith("core::fmt::") or c.name.endswith("::clone")
                        if not ok:
                            # a function of the engine with a body: what it does with the mode is under these same
                            # rules (branching: M1, passing on: M4, casting: below), the mode stays typed all the way
                            g = prog.fns.get(c.resolved or c.path or "")
                            ok = g is not None and g.crate == f.crate and not g.is_pub
                        ctx.ob("C12.M4.mode-passed-only-to-reviewed-functions", "%s%s|%s" % (tag, f.path, c.name), ok,
                               "the undefined behavior is handed to %s: it may influence data, not only fail/continue"
                               % c.name, f.where(c.bb))
            for bb, i, s in query.casts(f, kinds=("IntToInt", "Transmute")):
                if s["rv"]["from"] == UB:
                    ctx.ob("C12.M4.mode-not-converted-to-data", "%s%s" % (tag, f.path), False, "", f.where(bb))
        ctx.floor("C12.M4 calls receiving the mode" + tag, n4, 30 if cname != "MIN" else 15)

        # ---- M5
        for fpath in ("minijinja::tests::is_defined", "minijinja::tests::is_undefined",
                      "minijinja::filters::builtins::default"):
            if not prog.has_fn(fpath):
                if cname == "MAX":
                    ctx.need(False, "C12.M5: %s not found" % fpath)
                continue
            f = prog.fn(fpath)
            # the operand: first parameter of type (&)Value
            opnd = None
            for l in range(1, f.argc + 1):
                if f.locals[l].get("adt") == "minijinja::value::Value":
                    opnd = l
                    break
            on_operand = []
            for c in f.calls():
                if c.name in HELPERS:
                    for a in c.args[1:]:
                        if any(o.kind == "arg" and o.arg == opnd for o in flow.origins(f, a)):
                            on_operand.append(c.name.split("::")[-1])
            ctx.ob("C12.M5.never-asserts-its-operand", tag + fpath, opnd is not None and not on_operand,
                   "operand parameter: _%s; asserting helpers applied to it: %s" % (opnd, on_operand), f.loc)
        ctx.count("configs")
    ctx.sample({"order": ORDER})
