"""C01.P9 — indexing a slice / Vec in the builtin modules cannot go out of range.

`v[i]`, `v[a..b]` panic when the index is out of range.  In the modules that receive template data directly every
index expression must be justified by its own shape:
   always in range      `[..]`; a bound that is a search result on the same data (`position`, `rposition`, `find`,
                        `binary_search` Ok, `len`, `min`);
   evidence on the path a literal index k is dominated by a length test that establishes `len > k`
                        (`!is_empty()` for 0, `len() == n` / `len() >= n` / `len() > n` with n > k);
   reviewed entry       REVIEWED_INDEX keyed by function and normalised index expression, one line of reason.
MIR bounds-check assertions (`BoundsCheck`) on arrays / slices indexed directly are treated the same way.
"""
from .. import flow
from ..facts import const_int
from .c01_slices import expr
from .c01_unwraps import SCOPE

SAFE_CALLS = ("position", "rposition", "find", "rfind", "len", "min", "binary_search", "binary_search_by_key",
              "binary_search_by", "partition_point", "saturating_sub")
REVIEWED_INDEX = {
    "minijinja::filters::builtins::slice|Range(((..+..)|0+(..*..)),((..+..)|0+(..*..)))":
        "start/end are partial sums of items_per_slice (= len / count) and the remainder: end <= len (C01.P3 reviews the arithmetic)",
    "<minijinja_contrib::globals::cycler::Cycler as minijinja::value::object::Object>::call_method|call:load":
        "pos is only ever stored as (idx + 1) % items.len() and items is non-empty by construction",
    "minijinja_contrib::filters::striptags::{closure#1}|arg2": "the closure maps the Ok(index) of binary_search_by_key on the same table",
    "minijinja_contrib::globals::lipsum|call:next_usize": "next_usize(n) returns a value below n = LIPSUM_WORDS.len() (verified by C01.P9.bounded-index-helper-clamps)",
    "minijinja::formatting::Cursor::rest_bytes|RangeFrom(arg1.current_offset)": "cursor offset never exceeds the source length (advance() slices the same string)",
}


def len_evidence(f, bb, k):
    """a guard on the path establishes that the indexed collection holds more than k items"""
    for (sb, taken) in flow.guards(f, bb):
        cd = flow.cond_of(f, sb)
        side = flow.bool_true_labels(taken)
        if side is None:
            continue
        if cd.kind == "call" and cd.call.name.endswith("::is_empty") and k == 0 and side == cd.neg:
            return "!is_empty()"
        if cd.kind == "bin" and cd.rv.get("op") in ("Eq", "Ge", "Gt", "Lt", "Le", "Ne"):
            a_len = any(o.kind == "call" and o.call.name.endswith("::len") for o in flow.origins(f, cd.rv["a"]))
            n = const_int(cd.rv["b"])
            if a_len and n is not None:
                op = cd.rv["op"]
                truth = (side != cd.neg)
                if op == "Eq" and truth and n > k:
                    return "len() == %d" % n
                if op == "Ge" and truth and n > k:
                    return "len() >= %d" % n
                if op == "Gt" and truth and n >= k:
                    return "len() > %d" % n
                if op == "Lt" and not truth and n > k:
                    return "!(len() < %d)" % n
                if op == "Le" and not truth and n >= k:
                    return "!(len() <= %d)" % n
    return None


def classify(f, bb, idx_op):
    e = expr(f, idx_op)
    if e in ("RangeFull()", "RangeFull"):
        return e, "whole range"
    src = flow.origins(f, idx_op)
    # single literal index
    ks = [const_int({"c": o.const}) for o in src if o.kind == "const"]
    if src and all(o.kind == "const" for o in src) and all(k is not None for k in ks):
        evs = [len_evidence(f, bb, k) for k in ks]
        if all(evs):
            return e, "literal index under " + ", ".join(sorted(set(evs)))
        return e, None
    # ranges / computed indices whose leaves are search results or lengths
    leaves = set()

    def walk(op, depth=0):
        for o in flow.origins(f, op):
            if o.kind == "call":
                leaves.add("call:" + o.call.name.split("::")[-1])
            elif o.kind == "agg" and depth < 4:
                for x in o.rv["ops"]:
                    walk(x, depth + 1)
            elif o.kind == "bin" and depth < 4:
                leaves.add("arith")
            elif o.kind == "const":
                v = o.const.get("int")
                leaves.add("const:%s" % v)
            else:
                leaves.add(o.kind)
    walk(idx_op)
    if leaves and all(l.startswith("call:") and l[5:] in SAFE_CALLS or l == "const:0" for l in leaves):
        return e, "bounds are search results / lengths (%s)" % ", ".join(sorted(leaves))
    return e, None


_BW = {}


def _bw_closures(prog):
    if id(prog) not in _BW:
        from . import c09 as _c09
        _BW.clear()
        _BW[id(prog)] = _c09.backward_index_closures(prog)
    return _BW[id(prog)]


def check_indexing(ctx, prog):
    n = 0
    for f in prog.fns.values():
        if not any(m in f.loc.f for m in SCOPE):
            continue
        sites = []
        for c in f.calls():
            nm = c.name
            if "::index" in nm and "Index" in nm and "str" not in nm.split(" for ")[-1][:6] and "String" not in nm and len(c.args) > 1:
                sites.append((c.bb, c.args[1], nm.split("::")[-1]))
        for bb in sorted(f.reachable):
            t = f.term(bb)
            if t["k"] == "assert" and t["kind"].startswith("BoundsCheck") and t.get("ops"):
                sites.append((bb, t["ops"][-1], "BoundsCheck"))
        for bb, idx, what in sites:
            n += 1
            e, why = classify(f, bb, idx)
            key = "%s|%s" % (f.path, e)
            if not why and f.kind == "closure" and f.path in _bw_closures(prog) and all(
                    o.kind == "arg" and o.arg == 2 for o in flow.origins(f, idx)):
                # structural (not keyed by a closure number): the closure maps the indices the backward slicing helper
                # produced for the length of a collected operand (C09.S2 holds the call to that shape)
                why = "the closure maps indices of the backward slicing helper, which was given the collection's length"
                key = "%s|%s" % ((f.root or f.path) + "::{index-map}", e)
            why = why or REVIEWED_INDEX.get(key) and ("reviewed - " + REVIEWED_INDEX[key])
            ctx.ob("C01.P9.index-is-in-range-by-construction", key, bool(why),
                   ("accepted: " + why) if why else
                   "a slice / Vec is indexed with `%s` in a module that receives template data, with no length test on the "
                   "path that covers it, no search result as bound and no reviewed reason: an out-of-range index panics" % e,
                   f.where(bb))
    ctx.floor("C01.P9 indexing sites in the builtin modules", n, 12)
    # reviewed entries of the form `..|call:<helper>` lean on a helper of the program returning a value below the bound
    # it is given.  That is checked, not believed: what the helper returns is clamped by `min(bound - 1)` (the float
    # scaling `(random() * max as f64) as usize` alone reaches `max` when random() rounds up to 1.0 - defect 0f10a1c).
    for key in sorted(REVIEWED_INDEX):
        if "|call:" not in key:
            continue
        host, helper = key.split("|call:")
        hf = prog.fns.get(host)
        if hf is None:
            continue
        for c in hf.calls():
            if c.name.split("::")[-1] != helper or not prog.has_fn(c.name):
                continue
            g = prog.fn(c.name)
            rets = flow.origins(g, 0)
            ok = bool(rets)
            for r in rets:
                clamp = r.kind == "call" and r.call.name.endswith("::min") and any(
                    (o.kind == "call" and o.call.name.endswith("saturating_sub") and any(
                        q.kind == "arg" and not q.proj for q in flow.origins(g, o.call.args[0]))) or
                    (o.kind == "bin" and o.rv["op"] in ("Sub", "SubWithOverflow") and any(
                        q.kind == "arg" and not q.proj for q in flow.origins(g, o.rv["a"])))
                    for a in r.call.args if "c" not in a for o in flow.origins(g, a))
                ok = ok and clamp
            ctx.ob("C01.P9.bounded-index-helper-clamps", "%s|%s" % (g.path, helper), ok,
                   "%s is relied on (reviewed entry for %s) to return an index below the bound it is given, but its "
                   "result is not clamped to bound - 1: %s" % (g.path, host.split("::")[-1], [repr(r) for r in rets]), g.loc)
