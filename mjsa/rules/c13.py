"""C13 — fuel gives every render a fixed, exact success threshold.

Structural clauses (feature `fuel`, configuration MAX):
 G1 one tracker per render: FuelTracker is constructed only by FuelTracker::new, which is referenced only by
    State::new; State::new is called only by Executor::eval, Template::new_state, State::new_for_env (nested
    evaluations reuse the State).
 G2 charge-before-dispatch: inside the interpreter loop every path from fetching the instruction to the dispatch
    switch passes `FuelTracker::track` (or the `fuel_tracker == None` edge), and the Err branch of `track` leaves the
    loop.
 G3 the charge is a function of the instruction discriminant only: fuel_for_instruction has no calls, switches only
    on the discriminant of its argument and returns constants; `track` subtracts exactly that result from
    `remaining` and nothing else writes `remaining`.
 G4 fuel influences nothing else: State.fuel_tracker is read only by eval_impl and fuel_levels; FuelTracker fields
    only inside fuel.rs.
 G5 budget arithmetic is exact: no value-changing integer cast and no overflow-capable arithmetic on the budget in
    fuel.rs (a budget of u64::MAX must not wrap).
"""
from .. import cfg, flow, errflow, query, inline
from ..facts import op_place

EVAL_IMPL = "minijinja::vm::Executor::eval_impl"
TRACK = "minijinja::vm::fuel::FuelTracker::track"
NEW = "minijinja::vm::fuel::FuelTracker::new"
FFI = "minijinja::vm::fuel::fuel_for_instruction"
TRACKER = "minijinja::vm::fuel::FuelTracker"
STATE = "minijinja::vm::state::State"
STATE_NEW = "minijinja::vm::state::State::new"
INSTR = "minijinja::compiler::instructions::Instruction"
GET = "minijinja::compiler::instructions::Instructions::get"

STATE_NEW_CALLERS = {
    "minijinja::vm::Executor::eval": "top-level render / expression evaluation",
    "minijinja::template::Template::new_state": "public API: a fresh state for a template",
    "minijinja::vm::state::State::new_for_env": "public API: empty state for an environment",
}
TRACKER_READERS = {
    EVAL_IMPL: "the charge site",
    "minijinja::vm::state::State::fuel_levels": "reporting only",
    STATE_NEW: "construction",
}


def dispatch_switch(prog, f):
    best = None
    for bb in sorted(f.reachable):
        t = f.term(bb)
        if t["k"] != "switch":
            continue
        cd = flow.cond_of(f, bb)
        if cd.kind == "discr" and cd.adt == INSTR:
            if best is None or len(t["arms"]) > len(f.term(best)["arms"]):
                best = bb
    return best



G7_RULE = "C13.G7.an-error-of-template-code-is-not-replaced"
ERROR_T = "minijinja::error::Error"


def check_errors_not_replaced(ctx, prog):
    """G7 (after seed C13-7): below the threshold the render fails with the out-of-fuel error - "never a different
    error".  The error is raised deep inside whatever template code was running (a macro reached through `obj.m()`, a
    filter's callback); every engine function on the way up hands it on.  For each call in the engine whose callee
    takes the `State` (it can run template code) and returns `Result<_, Error>`: the Err is returned / propagated, or
    it is replaced only on the side of a test of its `kind()` against a constant kind (a missing template, an unknown
    method - never a blanket `if let Ok(..)`)."""
    n = 0
    for f in sorted(prog.fns.values(), key=lambda x: x.path):
        if f.crate != "minijinja":
            continue
        for c in f.calls():
            if c.dest is None or "p" in c.dest:
                continue
            dt = f.locals[c.dest["l"]].get("s", "")
            if not (dt.startswith("core::result::Result<") and dt.rstrip(">").endswith(ERROR_T)):
                continue
            takes_state = False
            for a in c.args:
                p = op_place(a)
                if p is not None and "vm::state::State" in f.locals[p["l"]].get("s", ""):
                    takes_state = True
            if not takes_state:
                continue
            n += 1
            ds = errflow.disposition(f, c, same_error=True)
            bad = [d for d in ds if d[0] in ("swallowed", "dropped", "matched-not-propagated")]
            if not bad:
                continue
            # replaced only under a test of the error's kind
            kind_tested = True
            for d in bad:
                eb = d[2]
                tested = False
                for (sb, taken) in flow.guards(f, eb) + [(b, None) for b in cfg.reach_from(f, eb) if f.term(b)["k"] == "switch"]:
                    cd = flow.cond_of(f, sb)
                    ee = flow.enum_eq(f, cd) if cd.kind == "call" else None
                    if ee is not None and ee[0] not in (None, "OutOfFuel"):
                        for o in ee[1]:
                            # ... of *this* call's error
                            if o.kind == "call" and o.call.name.endswith("Error::kind") and o.call.args and any(
                                    o2.kind == "call" and o2.call.bb == c.bb for o2 in flow.origins(f, o.call.args[0])):
                                tested = True
                if not tested:
                    kind_tested = False
            ctx.ob(G7_RULE, "%s|%s" % (f.path.split("::")[-1] if f.kind != "closure" else f.path, c.name.split("::")[-1]), kind_tested,
                   "%s discards or replaces the error of %s, a call that can run template code, without looking at its kind (%s): "
                   "an out-of-fuel error raised inside surfaces as a different error, or not at all"
                   % (f.path.split("::")[-1], c.name, "; ".join(sorted({d[0] for d in bad}))), f.where(c.bb))
    ctx.floor("C13.G7 calls that can run template code and return an engine error", n, 80)


def check_render_goes_through_the_vm(ctx, prog, tag):
    """G9 (round 11, seed C13-11): the budget is charged by the interpreter, so a render that succeeds without having run
    it has not been metered.  The *render family* - the functions of template.rs / environment.rs / expression.rs that reach
    `vm::eval` - is closed under calls; in each member every path from the entry to a return passes a call to a member
    (ultimately the interpreter) or an error exit (`Err(..)` built, `?`).  A fast path that answers a template made of
    text only with the text itself succeeds at every budget."""
    seeds = {k for k in prog.fns if k in ("minijinja::vm::eval", "minijinja::vm::Executor::eval")}
    fam = set(seeds)
    grew = True
    while grew:
        grew = False
        for k, f in prog.fns.items():
            if k in fam or f.crate != "minijinja" or f.kind == "closure" or not f.loc.f.endswith(("template.rs", "environment.rs", "expression.rs")):
                continue
            if any(c.name in fam for c in f.calls()):
                fam.add(k)
                grew = True
    n = 0
    for k in sorted(fam - seeds):
        f = prog.fn(k)
        if not ("Result" in f.locals[0].get("s", "") or f.locals[0].get("adt") == "core::result::Result"):
            continue
        n += 1
        through = {c.bb for c in f.calls() if c.name in fam}
        # closures of the function that call a member count where the closure is handed on
        for cl in prog.closures_of(k):
            if any(c.name in fam for c in cl.calls()):
                for bb, i, st in f.all_stmts():
                    rv = st.get("rv")
                    if rv and rv["k"] == "agg" and rv.get("closure") and cl.path.endswith(rv["closure"].rsplit("::", 1)[-1]):
                        through.add(bb)
        errs = set()
        for bb, i, st in f.all_stmts():
            rv = st.get("rv")
            if st["k"] == "assign" and rv and rv["k"] == "agg" and rv.get("variant") == "Err" and rv.get("adt") == "core::result::Result":
                errs.add(bb)
        for c in f.calls():
            if c.name.endswith("FromResidual<core::result::Result<core::convert::Infallible, E>>>::from_residual") or c.name.endswith("::from_residual"):
                errs.add(c.bb)
        ok = cfg.paths_must_pass(f, 0, through | errs, f.returns())
        ctx.ob("C13.G9.a-render-that-succeeds-ran-the-interpreter", tag + k, ok,
               "%s can return without having called the interpreter (or a function that does) and without an error exit: that "
               "render is not metered" % k.split("::")[-1], f.where(0))
    return n


def check_replaced_error_keeps_its_cause(ctx, prog, tag, crates=("minijinja",), err_ty="minijinja::error::Error",
                                         rule="C13.G10.an-error-that-replaces-another-keeps-it-as-its-cause"):
    """G10 (round 12, seed C13-12): when the budget runs out inside an include, an import or a parent block reached
    through `super()`, the out-of-fuel error travels outwards wrapped (`BadInclude`, `EvalBlock` with the original as
    `source()`); the render "fails with an out-of-fuel error" only as long as no wrapper lets the original go.  In
    every function or closure of the engine that takes an engine error by value and returns an engine error, the
    incoming error is not dropped on any path (it is returned, or moved into the new error as its source).  A rule
    with no instance on the unchanged tree: positive control in controls::c13."""
    n = 0
    for f in sorted(prog.fns.values(), key=lambda x: x.path):
        if f.crate not in crates:
            continue
        ret = f.locals[0].get("s", "")
        if err_ty not in ret:
            continue
        ps = [i for i in range(1, f.argc + 1) if f.locals[i].get("s", "") == err_ty]
        if not ps:
            continue
        n += 1
        dropped = [bb for bb in sorted(f.reachable) if f.term(bb)["k"] == "drop" and "p" not in f.term(bb)["place"]
                   and f.term(bb)["place"]["l"] in ps]
        nm = f.path.split("::", 2)[-1] if f.kind == "closure" else "::".join(f.path.split("::")[-2:])
        ctx.ob(rule, tag + nm, not dropped,
               "%s takes an error and returns another one, and on some path the incoming error is dropped instead of being "
               "kept as the cause: an out-of-fuel error raised below it disappears from the error chain and the render fails "
               "with a different error" % nm, f.where(dropped[0]) if dropped else f.loc)
    return n



def run(ctx):
    ctx.explain("C13: who-may-construct / who-may-read rules for the fuel tracker, a must-pass-through rule placing "
                "the charge between instruction fetch and dispatch on every loop iteration, purity of "
                "fuel_for_instruction (discriminant-only), and exactness of the budget arithmetic (no lossy cast, "
                "no overflow assert).  Together: the cost of a render is a budget-independent sum charged before "
                "each instruction, so success is monotone in the budget; threshold values themselves are not "
                "computed.")
    ctx.assume("user callbacks (filters, functions, objects) cannot reach the private fuel tracker (type privacy)")
    prog = ctx.prog
    n9 = check_render_goes_through_the_vm(ctx, prog, "")
    ctx.floor("C13.G9 functions of the render family", n9, 5)
    n10 = check_replaced_error_keeps_its_cause(ctx, prog, "")
    ctx.floor("C13.G10 functions that turn one engine error into another", n10, 10)
    sub10 = ctx.fresh()
    n10c = check_replaced_error_keeps_its_cause(sub10, ctx.controls, "control:", crates=("mjsa_controls",), err_ty="mjsa_controls::c13::Error")
    bad10 = [o for o in sub10.obligations if not o[2]]
    ctx.control("C13.G10", n10c >= 2 and len(bad10) == 1 and "wrap_and_lose_the_cause" in bad10[0][1])
    # the interpreter loop and the tracker's charge are read through private helpers a maintainer may have split them
    # into (`state.track_fuel(instr)`, `self.consume(cost)`); the functions the rules look for stay calls
    ev = inline.view(prog, prog.fn(EVAL_IMPL), keep=lambda t: not (t.startswith("minijinja::vm::state::State::") or t.startswith("minijinja::vm::fuel::"))
                     or t in (TRACK, FFI, NEW, STATE_NEW))
    track = inline.view(prog, prog.fn(TRACK), keep=(FFI, NEW))
    # the cost function is read through a predicate it may delegate to (`is_free_instruction(instr)`)
    ffi = inline.view(prog, prog.fn(FFI), keep=())
    looked_through = {EVAL_IMPL: set(inline.inlined_helpers(ev)), TRACK: set(inline.inlined_helpers(track))}

    def private_helper_of(path, owners):
        """a crate-private function all of whose callers are among `owners` and whose body those owners' views contain"""
        g = prog.fns.get(path)
        sites = prog.callers().get(path, [])
        return g is not None and not g.is_pub and bool(sites) and all(
            c.fn.path in owners and path in looked_through.get(c.fn.path, ()) for c in sites)
    refs = query.fn_refs(prog)

    # G1
    for f, bb, i, rv in query.aggregates_of(prog, TRACKER):
        ctx.ob("C13.G1.tracker-constructed-only-in-new", f.path, f.path == NEW, "FuelTracker built outside new()",
               f.where(bb))
    nrefs = refs.get(NEW, [])
    ctx.floor("C13.G1 references to FuelTracker::new", len(nrefs), 1)
    def only_called_from_state_new(g, depth=2):
        sites = prog.callers().get(g.path, [])
        return depth > 0 and bool(sites) and all(c.fn.path == STATE_NEW or only_called_from_state_new(c.fn, depth - 1) for c in sites) \
            and all(how_ == "call" for _f, _b, how_ in refs.get(g.path, []))
    for f, bb, how in nrefs:
        ctx.ob("C13.G1.new-referenced-only-by-State::new", "%s|%s" % (f.path, how),
               f.path == STATE_NEW or (f.path.startswith("minijinja::vm::fuel::") and how == "call" and only_called_from_state_new(f)),
               "a second fuel tracker can be created here: nested evaluations would get a fresh budget",
               f.where(bb))
    srefs = refs.get(STATE_NEW, [])
    ctx.floor("C13.G1 callers of State::new", len(srefs), 3)
    for f, bb, how in srefs:
        ctx.ob("C13.G1.State::new-callers-are-reviewed", f.path, f.path in STATE_NEW_CALLERS,
               "State::new (a fresh fuel budget) called from a function that is not a render entry point",
               f.where(bb))
    # the tracker field is written only at construction
    for f, bb, w, p in query.field_accessors(prog, STATE, "fuel_tracker"):
        if w:
            ctx.ob("C13.G1.tracker-never-replaced", f.path, f.path == STATE_NEW, "State.fuel_tracker overwritten",
                   f.where(bb))

    # G2
    tcalls = ev.calls_to(TRACK)
    ctx.floor("C13.G2 track call sites in eval_impl", len(tcalls), 1)
    disp = dispatch_switch(prog, ev)
    ctx.need(disp is not None and len(ev.term(disp)["arms"]) >= 40, "C13.G2: instruction dispatch switch not found")
    gets = ev.calls_to(GET)
    ctx.need(len(gets) >= 1, "C13.G2: instruction fetch (Instructions::get) not found in eval_impl")
    loops = cfg.natural_loops(ev)
    inloop = [h for h, body in loops if disp in body and all(g.bb in body for g in gets)]
    ctx.ob("C13.G2.fetch-and-dispatch-in-one-loop", "eval_impl", bool(inloop), "", ev.where(disp))
    # None-edge of the `fuel_tracker` discriminant test
    through = {c.bb for c in tcalls}
    none_edges = set()
    for bb in sorted(ev.reachable):
        t = ev.term(bb)
        if t["k"] != "switch":
            continue
        cd = flow.cond_of(ev, bb)
        if cd.kind == "discr" and cd.place is not None and "fuel_tracker" in flow._proj_names(cd.place):
            for v, x in t["arms"]:
                if v == "0":
                    none_edges.add((bb, x))
            if not any(v == "0" for v, _ in t["arms"]):
                none_edges.add((bb, t["otherwise"]))
    ctx.floor("C13.G2 tests of state.fuel_tracker", len(none_edges), 1)
    for g in gets:
        seen = {g.bb}
        st = [g.bb]
        while st:
            b = st.pop()
            if b in through and b != g.bb:
                continue
            for s in ev.succ[b]:
                if (b, s) in none_edges or s in seen:
                    continue
                seen.add(s)
                st.append(s)
        ctx.ob("C13.G2.charge-before-dispatch", "eval_impl|fetch@%s" % "get", disp not in seen,
               "a path from the instruction fetch reaches the dispatch switch without FuelTracker::track although a "
               "tracker is configured", ev.where(g.bb))
    for c in tcalls:
        sp = errflow.ok_err_blocks(ev, c)
        ctx.need(sp is not None and sp[1], "C13.G2: result of track() is not matched")
        for e in sp[1]:
            r = cfg.reach_from(ev, e)
            ctx.ob("C13.G2.out-of-fuel-stops", "eval_impl|track-err", disp not in r and any(b in r for b in ev.returns()),
                   "the Err branch of track() can continue interpreting", ev.where(e))
        # the instruction charged is the one fetched
        os_ = flow.origins(ev, c.args[1])
        ok = any(o.kind == "call" and o.call.name == GET for o in os_) and len(os_) == 1
        ctx.ob("C13.G2.charges-the-fetched-instruction", "eval_impl|track-arg", ok, "origins %r" % os_, ev.where(c.bb))

    # G3
    ctx.ob("C13.G3.cost-has-no-calls", FFI, not ffi.calls(), "fuel_for_instruction calls %s" % [c.name for c in ffi.calls()],
           ffi.loc)
    sw = 0
    for bb in sorted(ffi.reachable):
        t = ffi.term(bb)
        if t["k"] == "switch":
            sw += 1
            cd = flow.cond_of(ffi, bb)
            ok = cd.kind == "discr" and cd.adt == INSTR and (cd.place["l"] == 1 or all(
                o.kind == "arg" and o.arg == 1 for o in flow.origins(ffi, {"cp": {"l": cd.place["l"]}})))
            if not ok and cd.kind == "local" and cd.place is not None and "p" not in cd.place:
                # the verdict of a predicate over the discriminant (`if is_free_instruction(instr) { 0 } else { 1 }`): a
                # boolean all of whose definitions are constants chosen by the switches above
                ds_ = flow.whole_defs(ffi, cd.place["l"])
                srcs_ = []
                for d_ in ds_:
                    if d_.kind == "stmt" and d_.rv["k"] == "use":
                        srcs_ += flow.origins(ffi, d_.rv["op"])
                    else:
                        srcs_.append(None)
                ok = bool(srcs_) and all(o is not None and o.kind == "const" for o in srcs_)
            ctx.ob("C13.G3.cost-depends-on-discriminant-only", "%s|switch#%d" % (FFI, sw), ok, "switch on %r" % cd,
                   ffi.where(bb))
    ctx.floor("C13.G3 switches in fuel_for_instruction", sw, 1)
    for bb, i, s in ffi.all_stmts():
        if s["k"] == "assign" and s["place"] == {"l": 0}:
            ok = s["rv"]["k"] == "use" and "c" in s["rv"]["op"]
            ctx.ob("C13.G3.cost-is-constant-per-variant", "%s|ret" % FFI, ok, "returns a non-constant", ffi.where(bb))
    # track subtracts exactly the cost.  The counter is found by role: the field of the tracker that `track` writes
    # (`remaining` on the pinned tree); the other fields are the configured budget.
    tfields = [fl["name"] for fl in (prog.adts.get(TRACKER) or {"variants": [{"fields": []}]})["variants"][0]["fields"]]
    written = sorted({n_ for d_ in flow.stores(track) for n_ in flow._proj_names(d_.place) if n_ in tfields})
    REM = written[0] if len(written) == 1 else "remaining"
    wr = [(f, bb, p) for f, bb, w, p in query.field_accessors(prog, TRACKER, REM) if w]
    ctx.floor("C13.G3 writes of FuelTracker.remaining", len(wr), 1)
    for f, bb, p in wr:
        ctx.ob("C13.G3.remaining-written-only-by-track", f.path, f.path in (TRACK, NEW) or private_helper_of(f.path, (TRACK,)),
               "", f.where(bb))
    ok = False
    detail = ""
    for d in flow.stores(track):
        if REM in flow._proj_names(d.place):
            os_ = flow.origins(track, d.rv["op"]) if d.rv["k"] == "use" else []
            detail = "%r" % os_
            for o in os_:
                operands = []
                if o.kind == "call" and o.call.name in ("core::num::<impl u64>::saturating_sub",
                                                        "core::num::<impl u64>::checked_sub",
                                                        "core::num::<impl u64>::wrapping_sub"):
                    operands = o.call.args
                elif o.kind == "bin" and o.rv["op"] in ("Sub", "SubWithOverflow", "SubUnchecked"):
                    operands = [o.rv["a"], o.rv["b"]]
                if len(operands) == 2:
                    a = flow.origins(track, operands[0])
                    b = flow.origins(track, operands[1])
                    if (len(a) == 1 and a[0].kind == "arg" and REM in a[0].proj and len(b) == 1
                            and b[0].kind == "call" and b[0].call.name == FFI):
                        ok = True
                    detail = "remaining := %r - %r" % (a, b)
    ctx.ob("C13.G3.track-charges-exactly-the-cost", TRACK, ok, detail, track.loc)

    # G4
    acc = query.field_accessors(prog, STATE, "fuel_tracker")
    ctx.floor("C13.G4 accesses of State.fuel_tracker", len(acc), 2)
    for f, bb, w, p in acc:
        ctx.ob("C13.G4.tracker-readers-are-reviewed", f.path, f.path in TRACKER_READERS or private_helper_of(f.path, (EVAL_IMPL,)),
               "State.fuel_tracker is consulted outside the charge site / fuel_levels: fuel may influence output",
               f.where(bb))
    for fld in (tfields or ["remaining", "initial"]):
        for f, bb, w, p in query.field_accessors(prog, TRACKER, fld):
            ctx.ob("C13.G4.tracker-fields-private-to-fuel.rs", "%s|%s" % (f.path, fld),
                   f.path.startswith("minijinja::vm::fuel::"), "", f.where(bb))
    # G8 (after seed C13-9): the reporting accessors exist for the host.  `State::fuel_levels` (and the tracker's own
    # getters) are called by nothing inside the engine: a Debug impl, a builtin function or a filter that reads the levels
    # puts the budget into the output (`debug()` prints the state), so a render at or above the threshold no longer
    # equals the unlimited one.
    FL = "minijinja::vm::state::State::fuel_levels"
    if prog.has_fn(FL):
        readers = sorted({(c.fn.root or c.fn.path) for c in prog.callers().get(FL, []) if c.fn.crate in ("minijinja", "minijinja_contrib")})
        # function items passed as values count as well
        for f_, bb_, how_ in query.fn_refs(prog).get(FL, []):
            if f_.crate in ("minijinja", "minijinja_contrib"):
                readers = sorted(set(readers) | {f_.root or f_.path})
        ctx.ob("C13.G8.fuel-levels-are-read-by-the-host-only", FL, not readers,
               "the engine itself reads the fuel levels in %s: what it renders can then depend on the budget (the levels differ "
               "between two budgets and between two points of one render)" % readers, prog.fn(FL).loc)

    # G5
    n = 0
    for f in prog.fns.values():
        if not f.path.startswith("minijinja::vm::fuel::"):
            continue
        n += 1
        for bb, i, s in query.casts(f):
            rv = s["rv"]
            lossy = query.lossy_int_cast(rv["from"], rv["to"])
            ctx.ob("C13.G5.no-lossy-cast-of-the-budget", "%s|%s as %s" % (f.path, rv["from"], rv["to"]), not lossy,
                   "`%s as %s` changes the value for part of the range (a budget above the target range wraps: "
                   "u64::MAX fails at once, 1<<63 overflows)" % (rv["from"], rv["to"]), f.where(bb))
        for bb, t in query.asserts(f):
            ctx.ob("C13.G5.no-overflow-capable-arithmetic", "%s|%s" % (f.path, t["kind"]), False,
                   "arithmetic on the fuel budget can overflow (panics with overflow checks, wraps without)",
                   f.where(bb))
    ctx.floor("C13.G5 functions in vm::fuel", n, 4)

    # G6: the configured budget reaches the tracker unchanged.  Every value given to the environment's `fuel` field is
    # a constant, a copy of the same field (Clone) or the caller's argument itself - no filter / map / arithmetic in
    # between (`fuel.filter(|f| f > 0)` turns a budget of 0 into "no limit": below the threshold, yet it succeeds);
    # the getter returns the field, and State::new maps exactly the getter's result through FuelTracker::new.
    n6 = 0
    for (pf, bb, adt, op, call) in flow.field_producers(prog, "fuel"):
        if adt is None or not adt.endswith("environment::Environment"):
            continue
        n6 += 1
        ok = False
        why = ""
        if op is None:
            why = "assigned from %s" % (call.name if call else "a computed value")
        elif "c" in op:
            ok = True
        else:
            os_ = flow.origins(pf, op)
            ok = bool(os_) and all(
                (o.kind == "arg" and not o.proj) or (o.kind == "agg" and o.rv.get("variant") == "None") or
                (o.kind == "call" and o.call.name.endswith("Clone>::clone") and any(
                    x.kind == "arg" and x.proj and x.proj[-1] == "fuel" for x in flow.origins(pf, o.call.args[0])))
                for o in os_)
            why = "value comes from %s" % [repr(o) for o in os_]
        ctx.ob("C13.G6.configured-budget-is-stored-unchanged", pf.path, ok,
               "the environment's fuel budget is not stored as given (%s): budgets the transformation maps elsewhere get "
               "another threshold than the one configured (a budget of 0 must fail, not run unmetered)" % why, pf.where(bb))
    ctx.floor("C13.G6 writers of Environment.fuel", n6, 3)
    getter = prog.fns.get("minijinja::environment::Environment::fuel")
    if getter is not None:
        ro = flow.origins(getter, 0)
        ctx.ob("C13.G6.budget-getter-returns-the-field", getter.path,
               bool(ro) and all(o.kind == "arg" and o.proj and o.proj[-1] == "fuel" for o in ro), "returns %r" % ro, getter.loc)
    sn = prog.fn(STATE_NEW)
    maps = [c for c in sn.calls() if c.name == "core::option::Option::map" and any(
        o.kind == "call" and o.call.name == "minijinja::environment::Environment::fuel" for o in flow.origins(sn, c.args[0]))]
    okm = bool(maps) and all(any(o.kind == "const" and NEW in str(o.const.get("fn", "")) for a in c.args[1:] for o in flow.origins(sn, a)) or
                             any("c" in a and NEW in str(a["c"].get("fn", "")) for a in c.args[1:]) for c in maps)
    if not okm:
        # the same without `map`: `Some(FuelTracker::new(b))` for the `b` of `env.fuel()?` in a helper read in place, None otherwise
        snv = inline.view(prog, sn, keep=(NEW, "minijinja::environment::Environment::fuel", "fuel"), allow_pub=True)
        thru = lambda k: 0 if (k.name.endswith("Try>::branch") or k.name.endswith("::clone")) else None
        for f_, bb_, i_, rv_ in query.aggregates_of(prog, STATE):
            pass
        okm2 = False
        for bb_, i_, st_ in snv.all_stmts():
            rv_ = st_.get("rv", {})
            if rv_.get("k") == "agg" and rv_.get("adt") == STATE and "fuel_tracker" in (rv_.get("fields") or []):
                os_ = flow.origins(snv, rv_["ops"][rv_["fields"].index("fuel_tracker")])
                good = bool(os_)
                some_seen = False
                for o in os_:
                    if o.kind == "agg" and o.rv.get("variant") == "Some":
                        inner = flow.origins(snv, o.rv["ops"][0])
                        if inner and all(x.kind == "call" and x.call.name == NEW and any(
                                y.kind == "call" and y.call.name == "minijinja::environment::Environment::fuel"
                                for y in flow.origins(snv, x.call.args[0], through_calls=thru)) for x in inner):
                            some_seen = True
                        else:
                            good = False
                    elif (o.kind == "agg" and o.rv.get("variant") == "None") or (o.kind == "call" and "from_residual" in o.call.name):
                        continue
                    else:
                        good = False
                okm2 = good and some_seen
        okm = okm2
    ctx.ob("C13.G6.tracker-is-built-from-the-configured-budget", STATE_NEW, okm,
           "State::new must build the tracker as `env.fuel().map(FuelTracker::new)`", sn.loc)
    ctx.count("dispatch arms", len(ev.term(disp)["arms"]))
    ctx.sample({"dispatch": ev.where(disp), "track_sites": [str(c.loc) for c in tcalls],
                "State::new callers": sorted({f.path for f, _, _ in srefs})})
    check_errors_not_replaced(ctx, prog)
