"""C01.P8 — in the modules that process template data directly (builtin filters, functions, tests, operators,
formatting, loop / namespace objects, contrib) an `unwrap` / `expect` must be backed by something visible in the code.

The builtin modules receive arbitrary template values; `value.as_str().unwrap()` on a non-string, `iter.next()
.unwrap()` on an empty input or `x.parse().unwrap()` on attacker text is the typical way a filter starts to panic.
For every `Option::unwrap/expect` and `Result::unwrap/expect` in those modules the receiver is traced to its source:

  infallible source   Mutex::lock (poisoned only after another panic), fmt::Write into a String;
  evidence on path    the call is dominated by a test that establishes the success case for that source:
                        as_str   <- `kind() == String`, a `ValueRepr::String | SmallStr` arm, `is_safe()` (only strings
                                    are safe) or the receiver is the result of `filters::escape` (always a string);
                        as_object<- a `ValueRepr::Object` arm or a kind test for Seq/Map/Iterable/Plain;
                        any      <- `is_some()` / `is_ok()` on the same source, or every reaching definition is `Some(..)`;
  reviewed entry      REVIEWED_UNWRAPS, keyed by function and source, one line of reason.
Anything else is reported.  (Value's own cmp/eq are decided by C07.V1c; argument-tuple macros are core plumbing whose
`expect` is on a local the macro itself fills: both outside this rule's module scope.)
"""
from .. import cfg, flow
from ..facts import op_place

SCOPE = ("minijinja/src/filters.rs", "minijinja/src/functions.rs", "minijinja/src/tests.rs", "minijinja-contrib/src/",
         "minijinja/src/value/ops.rs", "minijinja/src/vm/loop_object.rs", "minijinja/src/value/namespace_object.rs",
         "minijinja/src/formatting.rs")
UNWRAPS = ("core::option::Option::unwrap", "core::option::Option::expect", "core::result::Result::unwrap",
           "core::result::Result::expect")
INFALLIBLE = {
    "lock": "Mutex::lock fails only when another thread panicked while holding it",
    "write_fmt": "fmt::Write into a String never fails",
    "write_str": "fmt::Write into a String never fails",
}
REVIEWED_UNWRAPS = {
    "minijinja::filters::builtins::serialize_json|from_utf8": "serde_json only writes valid UTF-8",
    "minijinja::filters::builtins::indent|next": "str::split yields at least one item, even for an empty input",
    "minijinja::filters::builtins::groupby|local": "a non-empty `list` implies `grouper` was assigned in the same iteration",
    "minijinja::formatting::FormatSpec::mantissa_and_exp|map": "`{:e}` formatting always contains an 'e'",
    "minijinja::formatting::FormatSpec::mantissa_and_exp::{closure#0}|parse": "the exponent written by `{:e}` is an integer",
    "minijinja::formatting::FormatSpec::format_number|param": "zero_padded is only set by the spec parser together with width",
    "minijinja::value::ops::get_offset_and_len|param": "the None case of `stop` is taken by the branch above",
    "minijinja_contrib::rand::XorShiftRng::for_state|get_extension_mut": "the extension was inserted by the statement before",
}
VALUE = "minijinja::value::Value"
KIND = "minijinja::value::ValueKind"
VREPR = "minijinja::value::ValueRepr"


def source_of(f, op):
    """(tag, origin list) naming where the unwrapped Option/Result comes from"""
    src = flow.origins(f, op)
    tags = set()
    for o in src:
        if o.kind == "call":
            tags.add(o.call.name.split("::")[-1])
        elif o.kind == "arg":
            tags.add("param")
        elif o.kind == "agg":
            tags.add("local")
        else:
            tags.add(o.kind)
    return "/".join(sorted(tags)) or "?", src


def _same_value(f, a, b):
    ka = {o.key() for o in flow.origins(f, a, through_calls=lambda k: 0 if k.name.endswith(("::deref", "::clone", "::borrow")) else None)}
    kb = {o.key() for o in flow.origins(f, b, through_calls=lambda k: 0 if k.name.endswith(("::deref", "::clone", "::borrow")) else None)}
    return bool(ka & kb)


def evidence(prog, f, c, src):
    """why the unwrap at call c cannot fail, or None"""
    # every reaching definition is Some(..)/Ok(..)
    if src and all(o.kind == "agg" and o.rv.get("variant") in ("Some", "Ok") for o in src):
        return "every reaching definition is Some/Ok"
    calls = [o.call for o in src if o.kind == "call"]
    gs = flow.guards(f, c.bb)
    for k in calls:
        last = k.name.split("::")[-1]
        recv = k.args[0] if k.args else None
        if last == "as_str" and recv is not None:
            # the receiver is the result of escape(): always a string
            for o in flow.origins(f, recv, through_calls=lambda q: 0 if q.name.endswith(("::deref", "::borrow", "Try>::branch")) else None):
                if o.kind == "call" and o.call.name.endswith("filters::escape"):
                    return "receiver is the result of filters::escape (a string)"
                if o.kind == "arg" and f.kind == "closure":
                    # `.map(|value| .. value.as_str().unwrap())` on the Ok of escape(): look at the closure's host
                    host = prog.fns.get(f.root)
                    if host is not None and any(h.name.endswith("filters::escape") for h in host.calls()) or any(
                            h.name.endswith("filters::escape") for g in prog.closures_of(f.root or "") for h in g.calls()):
                        return "closure argument is the Ok of filters::escape (a string)"
        for (sb, taken) in gs:
            cd = flow.cond_of(f, sb)
            side = flow.bool_true_labels(taken)
            if last == "as_str":
                eq = flow.enum_eq(f, cd)
                if eq and eq[0] == "String" and side is not None and side != cd.neg:
                    return "kind() == String"
                if cd.kind == "call" and cd.call.name.endswith("Value::is_safe") and side is not None and side != cd.neg:
                    return "is_safe() (only strings are safe)"
                if cd.kind == "discr" and cd.adt == VREPR:
                    tv = flow.taken_variants(prog, f, sb, taken, VREPR) if hasattr(flow, "taken_variants") else None
                    if tv and tv <= {"String", "SmallStr"}:
                        return "ValueRepr::String | SmallStr arm"
                mv = flow.matches_variants(prog, f, sb, KIND)
                if mv is not None and mv <= {"String"} and side is not None and side != cd.neg:
                    return "matches!(kind(), String)"
            if last == "as_object":
                if cd.kind == "discr" and cd.adt == VREPR:
                    tv = flow.taken_variants(prog, f, sb, taken, VREPR) if hasattr(flow, "taken_variants") else None
                    if tv and tv <= {"Object"}:
                        return "ValueRepr::Object arm"
            if cd.kind == "call" and cd.call.name.split("::")[-1] in ("is_some", "is_ok") and side is not None and side != cd.neg:
                if any(o.kind == "call" and o.call is k for o in flow.origins(f, cd.call.args[0])) or \
                        (recv is not None and cd.call.args and _same_value(f, cd.call.args[0], c.args[0])):
                    return "is_some()/is_ok() on the same value"
    # parameters / locals tested with is_some
    for (sb, taken) in gs:
        cd = flow.cond_of(f, sb)
        side = flow.bool_true_labels(taken)
        if cd.kind == "call" and cd.call.name.split("::")[-1] in ("is_some", "is_ok") and side is not None and side != cd.neg:
            if _same_value(f, cd.call.args[0], c.args[0]):
                return "is_some()/is_ok() on the same value"
        if cd.kind == "call" and cd.call.name.split("::")[-1] in ("is_none", "is_err") and side is not None and side == cd.neg:
            if _same_value(f, cd.call.args[0], c.args[0]):
                return "not is_none()/is_err() on the same value"
    return None


def check_unwraps(ctx, prog):
    n = 0
    for f in prog.fns.values():
        if not any(m in f.loc.f for m in SCOPE):
            continue
        for c in f.calls():
            if c.name not in UNWRAPS:
                continue
            n += 1
            tag, src = source_of(f, c.args[0])
            key = "%s|%s" % (f.path, tag)
            if tag in INFALLIBLE:
                ctx.count("C01.P8 unwraps of infallible sources")
                continue
            ev = evidence(prog, f, c, src)
            why = ev or REVIEWED_UNWRAPS.get(key)
            ctx.ob("C01.P8.unwrap-is-backed-by-a-check", key, why is not None,
                   ("accepted: " + why) if why else
                   "`%s` of a value produced by `%s` in a module that receives arbitrary template data, with no test on "
                   "the path that establishes the success case (kind()/ValueRepr arm/is_safe/is_some ..) and no "
                   "reviewed reason: an unexpected input panics the host" % (c.name.split("::")[-1], tag),
                   f.where(c.bb))
    ctx.floor("C01.P8 unwrap/expect sites in the builtin modules", n, 25)
