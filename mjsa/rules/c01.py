"""C01 — loading and rendering never crash the host process.

The whole property (absence of panics over the engine) needs value ranges and is not decidable by a static argument
in reach.  Decided clauses:
 P1 parser recursion is guarded: in the call graph of the recursive-descent parser every cycle passes a call site
    that is dominated by the depth guard (depth += 1; depth > MAX_RECURSION -> Err).
 P2 iteratively built AST depth: loops of the parser that wrap an `ast::Expr` local into a new node and assign it
    back (`x+x+...`, `x.a.a...`, filter chains) are reported unless a counter bounds them — every later pass recurses
    on that depth.
 P3 template-controlled integers reach overflow-capable arithmetic and allocation sizes only through checked /
    saturating operations, 128-bit arithmetic on widened operands, a dominating comparison, or a reviewed entry.
 P5 interpreter re-entry is charged (decided by C11.R1; referenced).
 P6 the explicit limits the property names are present: range length, repeated-string length, lazy concatenation
    depth, format numbers, slice count, indentation width.
Not decided: operand-stack discipline of the VM (needs the patched jump targets), explicit unwraps on engine
invariants, native-stack cost of data recursion (Value Display / Drop / cmp on deeply nested values).
"""
from .. import cfg, flow, query, callgraph, taint, errflow
from ..facts import op_place, norm_path, const_int

PARSER = "minijinja::compiler::parser::Parser"
AST_EXPR = "minijinja::compiler::ast::Expr"

# reviewed unchecked arithmetic / allocation sites on template-controlled integers: key -> reason
REVIEWED = {
    "<minijinja::value::merge_object::MergeSeq as minijinja::value::object::Object>::get_value|Overflow:Add":
        "running sum of the lengths of the merged parts; only a merge of kind Seq answers get_value, and `chain` builds one "
        "from operands of kind Seq only (a lazily repeated sequence, whose length is not backed by memory, is an Iterable)",
    "<minijinja::value::merge_object::MergeSeq as minijinja::value::object::Object>::get_value|Overflow:Sub":
        "idx - current_idx under `idx < current_idx + len` with current_idx <= idx (loop invariant)",
    "minijinja::filters::builtins::batch|DivisionByZero": "divisor `count` is tested against 0 at function entry",
    "minijinja::functions::builtins::range|loop-count": "the lazy range is rejected by to_result when it has more than 100000 elements (C01.P6)",
    "minijinja::formatting::FormatSpec::group|RemainderByZero": "group_size is the constant 3 or 4 at both call sites",
    "minijinja::filters::builtins::batch|Overflow:Sub": "count - tmp.len(): tmp never holds more than count items",
    "minijinja::filters::builtins::slice|Overflow:Mul": "slice * items_per_slice <= len (items_per_slice = len / count)",
    "minijinja::filters::builtins::slice|Overflow:Add": "offset + slice * items_per_slice <= len; slice + 1 <= count <= 100000",
    "minijinja::formatting::Cursor::advance|Overflow:Add": "byte offset inside the format string (bounded by its length)",
    "minijinja::formatting::FormatSpec::apply_zero_padding|Overflow:Sub":
        "lengths of strings built just before; fill_width is bounded by MAX_FORMAT_NUMBER at parse time",
    "minijinja::formatting::FormatSpec::apply_zero_padding|alloc:repeat":
        "fill_width <= width, and widths are limited to MAX_FORMAT_NUMBER by parse_number (P6)",
    "minijinja::value::ops::range_step_backwards|Overflow:Add":
        "end as i64 + negative bound (opposite signs); start + step <= len + 2^63 in usize",
    "minijinja::value::ops::range_step_backwards|Overflow:Sub": "saturating_sub(..) + step - 1 with step >= 1",
    "minijinja::value::ops::range_step_backwards|DivisionByZero": "step is the absolute value of a non-zero step (slice rejects 0)",
    "minijinja::vm::context::Stack::get_call_args|Overflow:Sub": "argument count pushed by the code generator itself",
    "minijinja_contrib::filters::truncate|Overflow:Sub": "length - end_len after the `length < end_len` early return",
    "<minijinja::vm::loop_object::Loop as minijinja::value::object::Object>::get_value_by_str|Overflow:Add|loop object field `depth`":
        "depth counts nested invocations of a recursive loop, each of which holds a context frame: bounded by the recursion limit",
    "minijinja::filters::builtins::split::{closure#0}|Overflow:Add":
        "`x as usize + 1` on the `x >= 0` side only: a non-negative i64 is at most 2^63 - 1",
}



def _bounded_at_every_call_site(prog, f, local):
    """the size is a parameter of a private function and every call site passes a constant or a value that a
    dominating comparison with a constant bounds (`len <= MAX` at the caller, then `helper(len)`)"""
    if f.is_pub or f.kind == "closure":
        return False
    os_ = flow.origins(f, {"cp": {"l": local}})
    if not os_ or not all(o.kind == "arg" and not o.proj for o in os_):
        return False
    sites = prog.callers().get(f.path, [])
    if not sites:
        return False
    for o in os_:
        for c in sites:
            if len(c.args) < o.arg:
                return False
            a = c.args[o.arg - 1]
            if "c" in a:
                continue
            ap = op_place(a)
            if ap is None:
                return False
            if not (taint.constant_bound_guards(c.fn, c.bb, ap["l"]) or taint.bounded_on_all_paths(c.fn, c.bb, ap["l"])
                    or _kept_by_a_bounding_filter(prog, c.fn, a)):
                return False
    return True



def _kept_by_a_bounding_filter(prog, f, op):
    """the value is the payload of `Option::filter(|&x| x <= CONST)` (also `<`): the closure's verdict is that comparison"""
    os_ = flow.origins(f, op)
    if not os_:
        return False
    for o in os_:
        if not (o.kind == "call" and o.call.name == "core::option::Option::filter" and len(o.call.args) > 1):
            return False
        ok = False
        for oc in flow.origins(f, o.call.args[1]):
            if oc.kind == "agg" and oc.rv.get("closure"):
                cl = prog.fns.get(norm_path(oc.rv["closure"]))
                if cl is None:
                    continue
                rets = flow.origins(cl, 0)
                if rets and all(r.kind == "bin" and r.rv["op"] in ("Le", "Lt") and "c" in r.rv["b"] and "c" not in r.rv["a"]
                                and const_int(r.rv["b"]) is not None for r in rets):
                    ok = True
        if not ok:
            return False
    return True


def guarded_call_sites(prog, f, max_rec):
    """blocks of f dominated by the recursion guard: a store `depth = depth + 1` followed by a test against
    MAX_RECURSION whose exceeding side returns Err"""
    incs = []
    for d in flow.stores(f) + [x for l in flow.defs(f).values() for x in l if x.kind == "part"]:
        if "depth" in flow._proj_names(d.place) and d.rv is not None:
            for o in (flow.origins(f, d.rv["op"]) if d.rv["k"] == "use" else [flow.Origin(d.rv["k"], rv=d.rv)]):
                if o.kind == "bin" and o.rv["op"].startswith("Add") and (const_int(o.rv["a"]) == 1 or const_int(o.rv["b"]) == 1):
                    incs.append(d.bb)
    guarded = set()
    for inc in incs:
        for sb in sorted(f.reachable):
            if f.term(sb)["k"] != "switch" or not cfg.dominates(f, inc, sb):
                continue
            cd = flow.cond_of(f, sb)
            if cd.kind == "bin" and cd.rv["op"] in ("Gt", "Ge", "Lt", "Le"):
                consts = [const_int(cd.rv["a"]), const_int(cd.rv["b"])]
                if max_rec in consts or (max_rec + 1) in consts:
                    # blocks on the continuing side
                    cont = cfg.bool_edges(f, sb, cd.rv["op"] in ("Lt", "Le")) if not cd.neg else cfg.bool_edges(f, sb, cd.rv["op"] in ("Gt", "Ge"))
                    for (_, x) in cont:
                        guarded |= cfg.region_dominated_by(f, x)
                    # the refusal may travel as a value (`enter_nested()?`: the Err built on the exceeding side meets the
                    # Ok of the continuing side before the `?`): with the continuing edges taken away, which blocks can
                    # still be reached on a path that is consistent about that Result?
                    from .. import typestate
                    r_ = typestate.explore(prog, f, 0, lambda c, st, val: None, removed_edges=cont)
                    if not r_.budget_hit:
                        guarded |= {b for b in f.reachable if b not in r_.visited and cfg.dominates(f, inc, b)}
    return guarded


def run(ctx):
    ctx.explain("C01 (partial): cycle rule on the parser's call graph with guard-dominated call sites removed; "
                "detection of loop-carried AST wrapping; intra-procedural taint of template-controlled integers into "
                "MIR overflow/zero assertions and allocation sizes with discharge by checked operations, 128-bit "
                "widening, dominating comparisons or a reviewed table; presence of the explicit limits.  Decides "
                "these necessary conditions for all inputs; it does NOT prove absence of panics in general.")
    ctx.assume("explicit unwraps on VM invariants (operand stack discipline) are outside the decided clauses")
    from .c01_slices import check_str_slices
    check_str_slices(ctx, ctx.program("MAX"))
    from .c01_unwraps import check_unwraps
    check_unwraps(ctx, ctx.program("MAX"))
    from .c01_index import check_indexing
    check_indexing(ctx, ctx.program("MAX"))
    # P18 / P20: explicit panics of the front end; std APIs that panic on a zero size
    from .c01_panics import check_front_end_panics, check_zero_sizes
    n18 = check_front_end_panics(ctx, ctx.program("MAX"))
    ctx.floor("C01.P18 explicit panic sites in lexer / parser / syntax", n18, 3)
    n20 = check_zero_sizes(ctx, ctx.program("MAX"))
    ctx.floor("C01.P20 calls of windows / chunks / step_by", n20, 4)
    from .c01_panics import check_assignment_targets
    n21 = check_assignment_targets(ctx, ctx.program("MAX"))
    ctx.floor("C01.P21 parser sites that fill an assignment target", n21, 4)
    from .c01_panics import check_argument_limit
    n22, nw22, nl22 = check_argument_limit(ctx, ctx.program("MAX"))
    ctx.floor("C01.P22 narrowing asserts of the generator over call arguments", nw22, 1)
    ctx.floor("C01.P22 argument limits of the parser", nl22, 1)
    # P19: the length an engine iterator claims is backed by memory or clamped
    from .c01_sizehint import check_size_hints
    n19 = check_size_hints(ctx, ctx.program("MAX"))
    ctx.floor("C01.P19 size_hint implementations of the engine", n19, 3)
    # P17: an instruction operand used as an index fits the table it indexes (generator and interpreter agree)
    from .c01_operands import check_operand_indices
    n17 = check_operand_indices(ctx, ctx.program("MAX"))
    if ctx.program("MAX").has_fn("minijinja::vm::get_or_lookup_local"):
        ctx.floor("C01.P17 tables indexed by an instruction operand", n17, 1)
    # P10: the interpreter's unsigned counters (`outer_stack_depth -= delta`, `BlockStack::depth.checked_sub(1).unwrap()`)
    # are only decremented after the matching increment succeeded on the same path
    from .pairs import check_closers, C as _C
    n10 = check_closers(ctx, ctx.program("MAX"), "", "C01.P10.counter-decrement-follows-its-increment",
                        only=(_C + "decr_depth", "minijinja::vm::state::BlockStack::pop"),
                        why=": the unsigned counter underflows (a panic with overflow checks, a wrapped recursion depth without)")
    ctx.floor("C01.P10 decrement sites of interpreter counters", n10, 1)
    # P11: a loop-control jump cannot leave the evaluation it was compiled in.  Bodies that are evaluated separately
    # (macro and call-block bodies: own frame; block bodies: own generator) are parsed with `in_loop` reset, so
    # `break` / `continue` in them is a syntax error rather than a jump to the enclosing loop's PopLoopFrame, which
    # would unwrap a loop frame that the callee's context does not have (a panic).
    progL = ctx.program("ORD") if "ORD" in ctx.configs() else ctx.program("MAX")
    if progL.has_fn("minijinja::compiler::parser::Parser::parse_macro_or_call_block_body"):
        from ..brackets import Analysis
        from .c05 import check_parser_resets
        anL = Analysis(progL, lambda *a, **k: None)
        for gname in sorted(k for k, f_ in progL.fns.items() if k.startswith("minijinja::compiler::codegen::CodeGenerator::") and f_.kind != "closure"):
            anL.summary(gname)
        check_parser_resets(ctx, progL, "", anL, prefix="C01.P11")
    # P5 / P12: the clauses of "never crashes" that other properties decide are part of this check too: unbounded
    # interpreter recursion overflows the native stack (C11), and an unbalanced frame / capture / auto-escape stack or
    # an unpaired opener ends in `pop().unwrap()` on an empty stack (C05).  Their rule modules run here as clauses,
    # recorded as C01.P5:<rule> and C01.P12:<rule>.
    from . import c11 as _c11, c05 as _c05
    if not ctx.is_borrowed:
        _c11.run(ctx.borrowed("C11", "C01.P5:"))
        _c05.run(ctx.borrowed("C05", "C01.P12:"))
        # P16 (= C07.V2, after seed C01-7): std's sort panics when it notices a comparator that is not a total order
        from .c07 import check_comparators
        check_comparators(ctx.borrowed("C07", "C01.P16:"), ctx.program("MAX"), "")
    for cname in ctx.configs():
        prog = ctx.program(cname)
        tag = "" if cname == "MAX" else "[%s]" % cname
        # ---- P1
        max_rec = prog.const_val("minijinja::compiler::parser::MAX_RECURSION")
        nodes = {k: f for k, f in prog.fns.items() if k.startswith(PARSER + "::")}
        ctx.floor("C01.P1 parser functions" + tag, len(nodes), 40)
        g = callgraph.get(prog)
        removed = set()
        guards_found = 0
        def pview(k):
            # the guard may live in helper methods of the parser (`enter_nested()?` ... `leave_nested()`): the parsing
            # functions are read with such helpers spliced in
            f0_ = nodes[k]
            return prog.view(k, keep=lambda t: not t.startswith(PARSER + "::") or t.split("::")[-1].startswith("parse")
                             or t.split("::")[-1] in ("subparse",)) if f0_.kind != "closure" else f0_
        for k, f0 in nodes.items():
            f = pview(k)
            gb = guarded_call_sites(prog, f, max_rec)
            if gb:
                guards_found += 1
            for c in f.calls():
                tgt = c.resolved or c.path
                if tgt in nodes and c.bb in gb:
                    removed.add((k, tgt))
                    # only if *every* call site of that edge is guarded
            for c in f.calls():
                tgt = c.resolved or c.path
                if tgt in nodes and c.bb not in gb and (k, tgt) in removed:
                    removed.discard((k, tgt))
        ctx.floor("C01.P1 functions applying the recursion guard" + tag, guards_found, 3)
        sub = {k: {t for t in g.succ.get(k, ()) if t in nodes and (k, t) not in removed} for k in nodes}
        # SCCs of the sub graph
        class G2:
            succ = sub
        sccs = callgraph.CallGraph.sccs(G2, list(sub))
        cyc_nodes = set()
        for comp in sccs:
            cyc_nodes |= set(comp)
            name = sorted(comp)[0].split("::")[-1] if len(comp) == 1 else "+".join(sorted(x.split("::")[-1] for x in comp))
            ctx.ob("C01.P1.parser-recursion-is-guarded", "%s%s" % (tag, name), False,
                   "unguarded recursion cycle in the parser: %s — input nested deeply enough in this production "
                   "overflows the native stack instead of producing a syntax error" % " -> ".join(sorted(comp)),
                   prog.fn(sorted(comp)[0]).loc)
        ctx.ob("C01.P1.parser-call-graph-acyclic-without-guards", tag + "Parser", not sccs,
               "%d parser functions, %d guarded call edges removed, %d unguarded cycles" % (len(nodes), len(removed), len(sccs)), "")
        # guard constant
        ctx.ob("C01.P1.guard-limit-within-reviewed-bound", tag + "MAX_RECURSION", max_rec <= 150,
               "parser MAX_RECURSION = %d (reviewed maximum 150: each level costs several native frames)" % max_rec, "")

        # ---- P2
        n2 = 0
        for k, f in sorted(nodes.items()):
            f = pview(k)
            for h, body in cfg.natural_loops(f):
                wraps = set()
                moves = {}      # temp -> locals it is moved into inside the loop
                for bb in body:
                    for st in f.stmts(bb):
                        if st["k"] == "assign" and "p" not in st["place"] and st["rv"]["k"] == "use":
                            p = op_place(st["rv"]["op"])
                            if p is not None and "p" not in p:
                                moves.setdefault(p["l"], set()).add(st["place"]["l"])
                for bb in body:
                    for st in f.stmts(bb):
                        rv = st.get("rv", {})
                        if not (st["k"] == "assign" and "p" not in st["place"] and rv.get("k") == "agg" and rv.get("adt") == AST_EXPR):
                            continue
                        T = st["place"]["l"]
                        accs = {T} | moves.get(T, set())
                        # locals moved (transitively, inside the loop) out of an accumulator
                        def from_acc(l, depth=0):
                            if l in accs:
                                return True
                            if depth > 4:
                                return False
                            for d in flow.whole_defs(f, l):
                                if d.bb in body and d.kind == "stmt" and d.rv["k"] == "use":
                                    q = op_place(d.rv["op"])
                                    if q is not None and "p" not in q and from_acc(q["l"], depth + 1):
                                        return True
                            return False
                        feeds = False
                        for o in (flow.origins(f, rv["ops"][0], within=body) if rv["ops"] else []):
                            if o.kind == "call" and o.call.name.endswith("Spanned::new") and o.call.bb in body:
                                for o2 in flow.origins(f, o.call.args[0], within=body):
                                    if o2.kind == "agg":
                                        for oper in o2.rv["ops"]:
                                            q = op_place(oper)
                                            if q is not None and "p" not in q and from_acc(q["l"]):
                                                feeds = True
                        if feeds:
                            wraps.add(rv["variant"])
                for v in sorted(wraps):
                    n2 += 1
                    bounded = _loop_has_counter_bound(f, h, body)
                    if not bounded:
                        # the parser's own depth guard applied inside the loop (possibly through helper methods whose
                        # refusal travels as a value): the wrap sits behind it on every value-consistent path
                        bounded = bool(guarded_call_sites(prog, f, max_rec) & set(body))
                    ctx.ob("C01.P2.iterative-ast-depth-is-bounded", "%s%s|%s" % (tag, k.split("::")[-1], v), bounded,
                           "the loop in %s wraps the expression built so far into a new %s node on every iteration "
                           "without a bound: n chained operators give an AST of depth n and every later pass "
                           "(constant folding, code generation, undeclared-variable tracking, Drop) recurses on it"
                           % (k.split("::")[-1], v), f.where(h))
        ctx.floor("C01.P2 loop-carried AST wraps" + tag, n2, 6)

        # ---- P3
        n3 = 0
        ndis = 0
        per_key = {}
        for f in sorted(prog.fns.values(), key=lambda x: x.path):
            hz = taint.hazards(f)
            az = taint.alloc_hazards(f)
            for bb, kind, descs, ops in hz:
                n3 += 1
                if taint.wide_arithmetic(f, f.term(bb)):
                    ndis += 1
                    continue
                if kind.startswith(("DivisionByZero", "RemainderByZero")) and taint.nonzero_guard(f, bb, taint.divisor_of(f, f.term(bb))):
                    ndis += 1
                    continue
                if taint.constant_divisor(f, f.term(bb)) or taint.below_max_guard(f, bb, f.term(bb)):
                    ndis += 1
                    continue
                if kind.startswith("Overflow:Sub") and len(ops) == 2 and "c" in ops[1] and const_int(ops[1]) == 1 \
                        and "c" not in ops[0] and taint.nonzero_guard(f, bb, ops[0]):
                    ndis += 1       # `x - 1` on an unsigned x that was tested against 0 (`len == 0 || idx == len - 1`)
                    continue
                key = "%s|%s" % (f.path, kind)
                reason = REVIEWED.get(key + "|" + descs[0]) or REVIEWED.get(key)
                idx = per_key[key] = per_key.get(key, 0) + 1
                ctx.ob("C01.P3.template-integer-arithmetic-is-safe", "%s%s" % (tag, key), reason is not None,
                       reason or "unchecked `%s` on a template-controlled integer (%s): panics with overflow checks, "
                                 "wraps without — use a checked/saturating operation or widen" % (kind, descs[0]),
                       f.where(bb))
            for bb, callee, desc in az:
                n3 += 1
                c = [k for k in f.calls() if k.bb == bb][0]
                idx = taint.ALLOC_SINKS[callee]
                p = op_place(c.args[idx])
                bounds = taint.constant_bound_through_helpers(prog, f, bb, p["l"]) if p else []
                if bounds or (p and taint.bounded_on_all_paths(f, bb, p["l"])):
                    ndis += 1
                    continue
                if p and _bounded_at_every_call_site(prog, f, p["l"]):
                    ndis += 1
                    continue
                key = "%s|alloc:%s" % (f.path, callee.split("::")[-1])
                reason = REVIEWED.get(key)
                ctx.ob("C01.P3.template-integer-allocation-is-bounded", "%s%s" % (tag, key), reason is not None,
                       reason or "allocation sized by a template-controlled integer (%s) without a bound: capacity "
                                 "overflow panic / allocation failure abort" % desc, f.where(bb))
            for bb, desc, end in taint.loop_count_hazards(f):
                n3 += 1
                bnd = taint.bounded_by_constant(f, bb, end)
                if bnd or ("c" not in end and taint.bounded_on_all_paths(f, bb, end)):
                    ndis += 1
                    continue
                key = "%s|loop-count" % f.path
                reason = REVIEWED.get(key)
                ctx.ob("C01.P3.template-chosen-iteration-count-is-bounded", "%s%s" % (tag, key), reason is not None,
                       reason or "a loop runs a template-controlled number of times (%s) with no dominating bound: with "
                                 "a growing collection in its body the host runs out of memory" % desc, f.where(bb))
        ctx.floor("C01.P3 arithmetic/allocation sites on template integers" + tag, n3, 15 if cname != "MIN" else 5)
        ctx.count("C01.P3 discharged automatically (128-bit widening / constant bound)" + tag, ndis)

        # ---- P6
        limits = [
            ("range length", "minijinja::functions::builtins::range::to_result", 100000, "minijinja::value::Value::make_iterable"),
        ]
        for nm, fpath, const, guarded_callee in limits:
            if not prog.has_fn(fpath):
                continue
            f = prog.fn(fpath)
            ok = False
            for c in f.calls():
                if c.name == guarded_callee:
                    for gf in flow.guard_facts(prog, f, c.bb):
                        if gf[0] == "bin" and gf[1] in ("Gt", "Ge", "Lt", "Le") and (
                                const_int(gf[3]["a"]) == const or const_int(gf[3]["b"]) == const):
                            ok = True
            ctx.ob("C01.P6.explicit-limit-present", tag + nm, ok, "%s must be guarded by a comparison with %d" % (guarded_callee, const), f.loc)
        mul = prog.fn("minijinja::value::ops::mul")
        # wherever the operator module repeats a string (in `mul` itself or in a helper of it)
        holders = [g_ for g_ in prog.fns.values() if g_.crate == "minijinja" and g_.loc.f.endswith("value/ops.rs")
                   and any(c.name == "alloc::str::<impl str>::repeat" for c in g_.calls())]
        ok = bool(holders)
        for g_ in holders:
            for c in g_.calls():
                if c.name != "alloc::str::<impl str>::repeat":
                    continue
                g_ok = False
                for gf in flow.guard_facts(prog, g_, c.bb):
                    if gf[0] in ("bin", "matches", "local", "stdvariant", "variant", "discr"):
                        g_ok = True
                if not g_ok and flow.guards(g_, c.bb):
                    g_ok = True
                # the guard must involve MAX_REPEATED_STRING_LEN
                named = query.named_consts(g_)
                ok = ok and g_ok and "minijinja::value::ops::MAX_REPEATED_STRING_LEN" in named
        ctx.ob("C01.P6.explicit-limit-present", tag + "repeated string length", ok,
               "str::repeat in ops::mul must be guarded by MAX_REPEATED_STRING_LEN", mul.loc)
        # read through a private helper the sequence branch may have been moved into (`concat_seqs(lhs, rhs)`)
        add = prog.view("minijinja::value::ops::add", keep=("depth_for_values", "new_iterable", "coerce"), max_blocks=60)
        ok = "minijinja::value::merge_object::MergeSeq::MAX_DEPTH" in query.named_consts(add) and any(
            c.name.endswith("MergeSeq::depth_for_values") for c in add.calls())
        ctx.ob("C01.P6.explicit-limit-present", tag + "lazy concatenation depth", ok,
               "ops::add must compare MergeSeq::depth_for_values with MergeSeq::MAX_DEPTH", add.loc)
        pn = prog.fns.get("minijinja::formatting::parse_number")
        if pn is not None:
            # the bound is either compared inside parse_number or handed in as a constant by every caller
            from .c01_fmtargs import _bounded_parse
            sites_ = prog.callers().get(pn.path, [])
            ok = bool(query.named_consts(pn) & {"minijinja::formatting::MAX_FORMAT_NUMBER"}) or (
                bool(sites_) and all(_bounded_parse(prog, c_) is not None for c_ in sites_))
            ctx.ob("C01.P6.explicit-limit-present", tag + "format width/precision", ok,
                   "parse_number must reject numbers above a constant limit at every call", pn.loc)
        from .c01_fmtargs import check_format_args
        check_format_args(ctx, prog, tag)
        from .c01_search import check_search_loops
        check_search_loops(ctx, prog, tag)
        from .c01_arith import check_builtin_arithmetic
        if cname == "MAX":
            check_builtin_arithmetic(ctx, prog, tag)
            from .c01_arith import check_accumulations
            check_accumulations(ctx, prog, tag)
        for fn_, what in (("minijinja::filters::builtins::indent", "indent width"), ("minijinja::filters::builtins::tojson", "tojson indent")):
            f = prog.fns.get(fn_)
            if f is None:
                continue
            rep = [c for c in f.calls() if c.name == "alloc::str::<impl str>::repeat"]
            ok = bool(rep) and all(taint.constant_bound_through_helpers(prog, f, c.bb, op_place(c.args[1])["l"]) for c in rep)
            ctx.ob("C01.P6.explicit-limit-present", tag + what, ok, "the repeat(..) building the indentation must be bounded", f.loc)
        ush = prog.fn("minijinja::utils::untrusted_size_hint")
        ok = any(c.name.endswith("::min") for c in ush.calls())
        ctx.ob("C01.P6.explicit-limit-present", tag + "untrusted_size_hint clamps", ok, "", ush.loc)
    ctx.sample({"reviewed table entries": len(REVIEWED)})


def _same_var(f, locals_, L):
    """one of the locals is (a move of) the accumulator L"""
    if L in locals_:
        return True
    for l in list(locals_):
        for d in flow.whole_defs(f, l):
            if d.kind == "stmt" and d.rv["k"] == "use" and op_place(d.rv["op"]) == {"l": L}:
                return True
    nameL = f.local_name(L)
    return nameL is not None and any(f.local_name(l) == nameL for l in locals_)


def _loop_has_counter_bound(f, h, body):
    """some switch inside the loop compares a loop-updated integer with a constant and leaves towards an Err"""
    for bb in body:
        if f.term(bb)["k"] != "switch":
            continue
        cd = flow.cond_of(f, bb)
        if cd.kind == "bin" and cd.rv["op"] in ("Gt", "Ge", "Lt", "Le"):
            if const_int(cd.rv["a"]) is not None or const_int(cd.rv["b"]) is not None:
                for x in f.succ[bb]:
                    ok, _ = errflow.err_arm_returns_err(f, x)
                    if ok:
                        return True
    return False
