"""C01.P3c — every overflow-capable operation in the builtin modules is accounted for.

P3 follows template-controlled integers to the MIR asserts they reach.  This rule closes the list from the other side:
every `Assert(Overflow | DivisionByZero | RemainderByZero)` in the builtin modules that P3's taint does *not* reach must
be discharged by one of the automatic arguments below or be listed (function | kind | operand expression) with a
reason.  A new unchecked `a - 1`, `a * b`, or a counter narrower than 64 bits in these modules is therefore reported
even when it is computed from values the taint does not follow (seed C01-5, `'abc'.count('')`).

Automatic discharges (values not chosen by the template: counters, offsets, lengths of in-memory data):
  step     `x + c` in a 64-bit type with |c| <= 65536, or `x + ch.len_utf8()`: 2^47 iterations are out of reach
  lengths  a sum whose operands are all lengths / positions of in-memory data (each <= isize::MAX)
  wide     128-bit arithmetic on operands widened from <= 64 bits;  literal divisor;  shift by a literal
  guarded  `a - b` dominated by a comparison establishing a >= b;  `x - x / k`;  `x - 1` behind a non-zero test;
           `x + 1` behind a test that excluded the maximum
"""
import re

from .. import flow, query, taint
from ..facts import const_int, op_place
from . import c01_slices

LENLIKE = re.compile(r"::(len|count|len_utf8|capacity|position|rposition|find|rfind|width)$")
WIDE64 = ("usize", "u64", "i64", "isize", "u128", "i128")
RULE = "C01.P3.builtin-arithmetic-is-accounted-for"

REVIEWED_ARITH = {
    "<minijinja::value::ValueIter as core::iter::traits::iterator::Iterator>::next::{closure#0}|Overflow:Sub usize|arg1 , 1":
        "`*len -= 1` for every char handed out: len was initialised to chars().count() of the same string",
    "<minijinja_contrib::globals::cycler::Cycler as minijinja::value::object::Object>::call_method|RemainderByZero usize|(call:load+1)":
        "items is non-empty by construction (cycler() rejects an empty argument list)",
    "minijinja::formatting::FormatSpec::apply_zero_padding|Overflow:Sub usize|call:len , call:len":
        "grouped_prefix = group(zeros(fill_width) + prefix): at least as long as prefix.len() + fill_width",
    "minijinja::formatting::FormatSpec::number_in_general_format|Overflow:Sub usize|call:unwrap_or , 1":
        "precision was mapped to at least 1 (`if p == 0 { 1 }`, default 6)",
    "minijinja::formatting::FormatSpec::number_in_general_format|Overflow:Sub i32|call:unwrap_or , 1":
        "`precision as i32 - 1`: precision is between 1 and 65531 (P14)",
    "minijinja::formatting::FormatSpec::number_in_general_format|Overflow:Sub i32|(call:unwrap_or-1) , call:mantissa_and_exp":
        "precision <= 65531 (P14) and |exp| <= 324 in i32",
    "minijinja::formatting::parse_till|Overflow:Sub usize|call:position , 1":
        "the cursor advanced past the closing delimiter just before: position >= 1",
    "minijinja_contrib::filters::filesizeformat|Overflow:Sub usize|call:len , 1": "prefixes is a non-empty constant array",
    "minijinja_contrib::filters::wordcount|Overflow:Add u32|(((..+..)|0+1)|0+1)|0 , 1":
        "u32 word counter: more than 2^32 words need a string of more than 8 GiB",
    "minijinja_contrib::globals::lipsum|Overflow:Sub i64|call:next , 0|call:next":
        "idx - last_fullstop: last_fullstop is only ever assigned the current or an earlier idx of the same range",
    "minijinja_contrib::pycompat::string_methods|Overflow:Add i32|(((..+..)|0+1)|0+1)|0 , 1":
        "i32 match counter of str.count: one increment per non-empty match (P15), i.e. at most len(s) <= 2^31 only for "
        "strings above 2 GiB",
}


def _ty(f, op):
    if "c" in op:
        return op["c"].get("ty")
    p = op_place(op)
    return f.locals[p["l"]].get("s") if p and "p" not in p else None


def _lenlike(f, op, depth=0):
    if "c" in op:
        return True
    os_ = flow.origins(f, op)
    return bool(os_) and all(
        (o.kind == "call" and LENLIKE.search(o.call.name)) or o.kind == "const" or
        (o.kind == "bin" and depth < 3 and o.rv["op"] in ("Add", "AddWithOverflow") and _lenlike(f, o.rv["a"], depth + 1)
         and _lenlike(f, o.rv["b"], depth + 1)) for o in os_)


def _char_step(f, op):
    if "c" in op:
        return False
    os_ = flow.origins(f, op)
    return bool(os_) and all(o.kind == "call" and o.call.name.endswith("::len_utf8") for o in os_)


def _ge_guard(f, bb, a, b):
    """a dominating comparison between (values sharing roots with) a and b that establishes a >= b"""
    if "c" in a:
        return False
    ra = {o.key() for o in flow.origins(f, a)}
    rb = {o.key() for o in flow.origins(f, b)} if "c" not in b else None
    kb = const_int(b) if "c" in b else None
    for (sb, taken) in flow.guards(f, bb):
        cd = flow.cond_of(f, sb)
        side = flow.bool_true_labels(taken)
        if side is None or cd.kind != "bin" or cd.rv["op"] not in ("Lt", "Le", "Gt", "Ge"):
            continue
        truth = side != cd.neg
        x, y = cd.rv["a"], cd.rv["b"]

        def is_a(o_):
            return "c" not in o_ and bool({q.key() for q in flow.origins(f, o_)} & ra)

        def is_b(o_):
            if "c" in o_:
                return kb is not None and const_int(o_) is not None and const_int(o_) >= kb
            return rb is not None and bool({q.key() for q in flow.origins(f, o_)} & rb)
        op = cd.rv["op"]
        if is_a(x) and is_b(y) and ((op in ("Gt", "Ge") and truth) or (op in ("Lt",) and not truth)):
            return True
        if is_b(x) and is_a(y) and ((op in ("Lt", "Le") and truth) or (op in ("Gt",) and not truth)):
            return True
    return False


def _self_fraction(f, a, b):
    """`x - x / k`"""
    if "c" in a or "c" in b:
        return False
    ra = {o.key() for o in flow.origins(f, a)}
    for o in flow.origins(f, b):
        if o.kind == "bin" and o.rv["op"] in ("Div",) and "c" in o.rv["b"] and (const_int(o.rv["b"]) or 0) >= 1 and \
                "c" not in o.rv["a"] and ({q.key() for q in flow.origins(f, o.rv["a"])} & ra):
            return True
    return False


def check_builtin_arithmetic(ctx, prog, tag=""):
    n = nauto = 0
    for f in sorted(prog.fns.values(), key=lambda x: x.path):
        if not f.loc.f.endswith(taint.BUILTIN_FILES):
            continue
        hz = {bb for bb, _, _, _ in taint.hazards(f)}
        for bb, term in query.asserts(f):
            if bb in hz:
                continue            # P3 decides it
            n += 1
            k = term["kind"]
            ops = term["ops"]
            if taint.wide_arithmetic(f, term) or taint.constant_divisor(f, term) or taint.below_max_guard(f, bb, term):
                nauto += 1
                continue
            if k.startswith(("Overflow:Shl", "Overflow:Shr")) and len(ops) == 2 and "c" in ops[1]:
                nauto += 1
                continue
            t = _ty(f, ops[0]) or _ty(f, ops[-1])
            if k.startswith("Overflow:Add") and t in WIDE64 and len(ops) == 2:
                cs = [const_int(o) for o in ops if "c" in o]
                if cs and all(c is not None and abs(c) <= 65536 for c in cs):
                    nauto += 1
                    continue
                if all(_lenlike(f, o) for o in ops) or any(_char_step(f, o) for o in ops):
                    nauto += 1
                    continue
            if k.startswith("Overflow:Sub") and len(ops) == 2:
                if _ge_guard(f, bb, ops[0], ops[1]) or _self_fraction(f, ops[0], ops[1]):
                    nauto += 1
                    continue
                if "c" in ops[1] and const_int(ops[1]) == 1 and "c" not in ops[0] and taint.nonzero_guard(f, bb, ops[0]):
                    nauto += 1
                    continue
            ex = " , ".join(c01_slices.expr(f, o) if "c" not in o else str(const_int(o)) for o in ops)
            key = "%s|%s %s|%s" % (f.path, k.split("(")[0].strip(), t, ex)
            reason = REVIEWED_ARITH.get(key)
            ctx.ob(RULE, tag + key, reason is not None,
                   ("reviewed: " + reason) if reason else
                   "`%s` on (%s) in a module that processes template data is neither reached by the taint of P3, nor discharged "
                   "by an automatic argument (64-bit step, sum of lengths, dominating comparison), nor reviewed: with overflow "
                   "checks it panics when it wraps" % (k, ex), f.where(bb))
    ctx.floor("C01.P3c overflow-capable operations outside the taint" + tag, n, 20)
    ctx.count("C01.P3c discharged automatically" + tag, nauto)


REVIEWED_SUMS = {
    "minijinja::compiler::lexer::lex_identifier": "sum of len_utf8() over a prefix of the source text",
    "minijinja::compiler::lexer::Tokenizer::skip_whitespace": "sum of len_utf8() over a prefix of the source text",
    "minijinja::compiler::lexer::Tokenizer::tokenize_block_or_var": "sum of len_utf8() over a prefix of the source text",
}


def check_accumulations(ctx, prog, tag=""):
    """`Iterator::sum` / `product` inherit the overflow checks of the crate: an integer accumulation panics when it
    wraps (the lengths of three lazy `[1] * n` sequences summed by `MergeSeq`, fix 7e66fe7).  Every such call in the
    engine with an integer (or Option / Result of integer) result is reviewed or replaced by a checked fold."""
    n = 0
    for f in sorted(prog.fns.values(), key=lambda x: x.path):
        if f.crate not in ("minijinja", "minijinja_contrib"):
            continue
        for c in f.calls():
            if not (c.name.endswith("Iterator::sum") or c.name.endswith("Iterator::product")):
                continue
            dt = f.locals[c.dest["l"]].get("s", "") if c.dest and "p" not in c.dest else ""
            if not re.search(r"\b(usize|u64|u32|u16|u8|i64|i32|isize|u128|i128)\b", dt):
                continue
            n += 1
            root = f.root or f.path
            ctx.ob("C01.P3.integer-accumulation-is-checked", tag + root, root in REVIEWED_SUMS,
                   REVIEWED_SUMS.get(root) or "%s accumulates integers with Iterator::%s: the sum panics (overflow checks) when it "
                   "does not fit - use try_fold with checked_add" % (root, c.name.split("::")[-1]), f.where(c.bb))
    ctx.count("C01.P3d integer accumulations" + tag, n)
