"""C09 — subscripts and slices follow Python's rules (partial: the agreement of the per-kind arms of `ops::slice`).

Which elements a slice selects is integer arithmetic over (len, start, stop, step) inside the two shared helpers
(`get_offset_and_len`, `range_step_backwards`) and is NOT decided here.  What is decided is the shape around them, where
one operand kind can silently leave the common semantics:

 S1 forward-arms-share-one-pipeline     every call of the forward helper is consumed the same way in every arm: offset
                                        -> skip, length -> take, then step_by(step) (sibling agreement + the three
                                        quantities are all used)
 S2 backward-arms-share-one-pipeline    every call of the backward helper gets (start, stop, |step|, own length) and its
                                        indices are mapped through an indexing closure
 S3 text-is-sliced-by-characters        the string arm never measures or cuts the text in bytes
 S4 result-kind-follows-the-operand     string arm -> From<String>, bytes arm -> from_bytes, tuple -> Tuple, other
                                        sequences -> a lazy iterable over the object
 S5 zero-step-is-the-only-slicing-error the only errors `slice` builds are: a bound that is not an integer
                                        (propagated conversion), step == 0, and an operand that cannot be sliced; none
                                        inside the arms of sliceable kinds
 S6 both-helpers-get-the-same-bounds    start / stop handed to the helpers are the converted operands, unchanged
"""
from .. import arms, cfg, flow
from ..facts import op_place, const_int

OPS = "minijinja::value::ops::"
SLICE = OPS + "slice"
REPR = "minijinja::value::ValueRepr"
ERR_NEW = "minijinja::error::Error::new"
IT = "core::iter::traits::iterator::Iterator::"
NEUTRAL = {"copied", "cloned", "collect", "map", "into_iter", "iter", "chars", "new", "from", "from_iter", "from_bytes"}


def is_opt_i64(t):
    return t.get("adt") == "core::option::Option" and (t.get("args") or [""])[0] == "i64"


def helpers(ctx, prog):
    fwd = bwd = None
    for f in prog.fns.values():
        if not f.path.startswith(OPS) or f.root or f.kind == "closure":
            continue
        ts = [f.locals[i] for i in range(1, f.argc + 1)]
        if len(ts) >= 2 and is_opt_i64(ts[0]) and is_opt_i64(ts[1]):
            if f.argc == 3 and f.locals[0].get("s", "").replace(" ", "") == "(usize,usize)":
                fwd = f.path
            elif f.argc == 4 and ts[2].get("prim") == "usize" and ts[3].get("prim") == "usize":
                bwd = f.path
    ctx.need(fwd, "missing anchor: forward slicing helper ((Option<i64>, Option<i64>, len) -> (usize, usize)) in value::ops")
    ctx.need(bwd, "missing anchor: backward slicing helper ((Option<i64>, Option<i64>, usize, usize) -> indices) in value::ops")
    return fwd, bwd


class Scope:
    """`slice` and its closures, with closure captures resolved in the function that builds the closure"""

    def __init__(self, prog, root):
        self.prog = prog
        self.root = root
        self.fns = [root] + sorted(prog.closures_of(root.path), key=lambda g: g.path)
        self._caps = {}

    def caps(self, g):
        if g.path not in self._caps:
            self._caps[g.path] = flow.closure_captures(self.prog, g) if g.kind == "closure" else []
        return self._caps[g.path]

    def host(self, g):
        return self.prog.fns.get(g.parent) if g.kind == "closure" and g.parent else None

    def resolve(self, g, op, depth=0):
        """origins of an operand as (function, Origin) pairs, captures followed into the builder"""
        out = []
        if "c" in op:
            return [(g, flow.Origin("const", const=op["c"]))]
        for o in flow.origins(g, op):
            out += self._lift(g, o, depth)
        return out

    def _lift(self, g, o, depth):
        if g.kind == "closure" and o.kind == "arg" and o.arg == 1 and o.proj and o.proj[0].isdigit() and depth < 3:
            cs = self.caps(g)
            h = self.host(g)
            i = int(o.proj[0])
            if h is not None and i < len(cs):
                out = []
                for co in cs[i]:
                    out += self._lift(h, co, depth + 1)
                return out
        return [(g, o)]


def okey(g, o):
    return (g.path,) + tuple(str(x) for x in o.key())


def step_keys(ctx, prog, f):
    """origin keys of the value the zero-step test looks at (the step, by role)"""
    for sb in sorted(f.reachable):
        if f.term(sb)["k"] != "switch":
            continue
        cd = flow.cond_of(f, sb)
        if cd.kind != "bin" or cd.rv["op"] not in ("Eq", "Ne"):
            continue
        a, b = cd.rv["a"], cd.rv["b"]
        other = a if const_int(b) == 0 else (b if const_int(a) == 0 else None)
        if other is None:
            continue
        side = flow.true_side(f, sb, cd) if cd.rv["op"] == "Eq" else cfg.bool_edges(f, sb, cd.neg)
        tgt = {x for (_, x) in side}
        reg = set()
        for x in tgt:
            reg |= cfg.region_dominated_by(f, x)
        if any(c.name == ERR_NEW and c.bb in reg for c in f.calls()):
            return sb, {okey(f, o) for o in flow.origins(f, other)}, reg
    return None, set(), set()


R1 = "C09.S1.forward-arms-share-one-pipeline"
R2 = "C09.S2.backward-arms-share-one-pipeline"
R3 = "C09.S3.text-is-sliced-by-characters"
R4 = "C09.S4.result-kind-follows-the-operand"
R5 = "C09.S5.zero-step-is-the-only-slicing-error"
R6 = "C09.S6.both-helpers-get-the-same-bounds"
R7 = "C09.S7.omitted-bound-is-not-encoded-as-an-index"
R8 = "C09.S8.unknown-length-is-not-taken-for-zero"


R7B = "C09.S7.optional-bound-is-not-clamped-into-range"
CLAMPS = ("max", "min", "clamp", "saturating_sub", "saturating_add")


def check_clamped_options(ctx, prog, helpers_, tag):
    """S7b (round 12, seed C09-12): where a helper keeps a bound as an `Option` whose `None` has a meaning of its own ("walk down
    to and including the first item"), a `Some(..)` must not carry a *clamped* number: clamping maps every bound that lies
    outside the sequence onto an index inside it, and `Some(0)` (exclusive: stop above the first item) is not what a stop
    before the first item means.  For every Option-typed local of the helper that is later tested for `None`: no payload it
    is given comes out of `max` / `min` / `clamp` / a saturating operation (directly, or as the result of the closure handed
    to `Option::map`)."""
    n = 0
    for hp in helpers_:
        h = prog.fn(hp)
        tested = set()
        for sb in sorted(h.reachable):
            if h.term(sb)["k"] != "switch":
                continue
            cd = flow.cond_of(h, sb)
            if cd.kind == "discr" and cd.adt == "core::option::Option" and cd.place is not None and "p" not in cd.place:
                tested.add(cd.place["l"])
        for l in sorted(tested):
            if l <= h.argc:
                continue            # the parameter itself
            n += 1
            bad = []

            def from_bound(g, op, depth=0):
                """does the operand derive from the payload of an optional i64 bound (a parameter's `Some`, or the argument
                of the closure handed to `Option::map`)"""
                if "c" in op or depth > 5:
                    return False
                for o in flow.origins(g, op):
                    if o.kind == "arg":
                        if g.kind == "closure" and o.arg >= 2:
                            return True
                        if g.kind != "closure" and o.arg <= g.argc and is_opt_i64(g.locals[o.arg]):
                            return True
                    elif o.kind == "bin":
                        if from_bound(g, o.rv["a"], depth + 1) or from_bound(g, o.rv["b"], depth + 1):
                            return True
                    elif o.kind == "cast":
                        if from_bound(g, o.rv["op"], depth + 1):
                            return True
                    elif o.kind == "call" and o.call.args and any(from_bound(g, a_, depth + 1) for a_ in o.call.args if "c" not in a_):
                        return True
                return False

            def clamp_in(g, op, depth=0):
                if "c" in op or depth > 4:
                    return
                for o in flow.origins(g, op):
                    if o.kind == "call" and o.call.name.rsplit("::", 1)[-1] in CLAMPS:
                        if any(from_bound(g, a_) for a_ in o.call.args if "c" not in a_):
                            bad.append(o.call.name.rsplit("::", 1)[-1])
                    elif o.kind == "call" and o.call.name.rsplit("::", 1)[-1] in ("from", "into") and o.call.args:
                        clamp_in(g, o.call.args[0], depth + 1)
                    elif o.kind == "cast":
                        clamp_in(g, o.rv["op"], depth + 1)
            for o in flow.origins(h, l):
                if o.kind == "agg" and o.rv.get("variant") == "Some":
                    for x in o.rv["ops"]:
                        clamp_in(h, x)
                elif o.kind == "call" and o.call.name.endswith(("Option::<T>::map", "Option::map", "Option::<T>::and_then")) and len(o.call.args) > 1:
                    for q in flow.origins(h, o.call.args[1]):
                        if q.kind == "agg" and q.rv.get("closure"):
                            from ..facts import norm_path
                            cl = prog.fns.get(norm_path(q.rv["closure"]))
                            if cl is not None:
                                clamp_in(cl, {"cp": {"l": 0}})
                                for c2 in cl.calls():
                                    if c2.name.rsplit("::", 1)[-1] in CLAMPS and any(from_bound(cl, a_) for a_ in c2.args if "c" not in a_):
                                        bad.append(c2.name.rsplit("::", 1)[-1])
                        elif q.kind == "arg" or q.kind == "call":
                            # a closure kept in a local / a function item: look at every closure of the helper it may be
                            for cl in prog.closures_of(hp):
                                if any(c2.name.rsplit("::", 1)[-1] in CLAMPS and any(from_bound(cl, a_) for a_ in c2.args if "c" not in a_)
                                       for c2 in cl.calls()):
                                    bad.append("clamp of the bound inside a closure of the helper")
            ctx.ob(R7B, "%s|option-local%s" % (short(hp), tag), not bad,
                   "an optional bound that is later tested for None receives a clamped payload (%s): a bound outside the "
                   "sequence becomes an ordinary index inside it" % sorted(set(bad)), h.where(0))
    return n


def check_sentinels(ctx, prog, helpers_, tag):
    """S7: inside the slicing helpers an omitted bound (`None`) must stay distinguishable from every explicit one.  The
    contradiction that gives it away: a number that is a constant K exactly when the Option parameter is None, and
    computed from the bound otherwise, is later *compared with K* - the comparison cannot tell `[::-1]` from an explicit
    bound that happens to resolve to K (`[2:0:-1]` included element 0)."""
    n = 0
    for hp in helpers_:
        h = prog.fn(hp)
        for g in [h] + prog.closures_of(hp):
            for sb in sorted(g.reachable):
                if g.term(sb)["k"] != "switch":
                    continue
                cd = flow.cond_of(g, sb)
                if cd.kind != "bin" or cd.rv["op"] not in ("Eq", "Ne"):
                    continue
                for a, b in ((cd.rv["a"], cd.rv["b"]), (cd.rv["b"], cd.rv["a"])):
                    k = const_int(b)
                    if k is None or "c" in a:
                        continue
                    n += 1
                    os_ = flow.origins(g, a)
                    consts = [o for o in os_ if o.kind == "const" and str(o.const.get("int")) == str(k) and o.bb is not None]
                    others = [o for o in os_ if o.kind != "const"]
                    from_none = False
                    for o in consts:
                        for gf in flow.guard_facts(prog, g, o.bb):
                            if gf[0] == "stdvariant" and gf[1] == "core::option::Option" and set(gf[2]) <= {"0", "otherwise"} \
                                    and "1" not in gf[2]:
                                from_none = True
                    ctx.ob(R7, "%s|%s==%s%s" % (short(g.path), "local", k, tag), not (consts and others and from_none),
                           "a value that is %s exactly when a bound was omitted, and computed from the bound otherwise, is compared "
                           "with %s: an explicit bound resolving to %s is taken for an omitted one" % (k, k, k), g.where(sb))
    return n


def backward_index_closures(prog):
    """closures (by path) that map the indices produced by the backward helper - called with the length of a collected
    operand - to elements: every index they are handed is below that length"""
    out = set()
    try:
        class _C:
            def need(self, c, m):
                if not c:
                    raise KeyError(m)
        fwd, bwd = helpers(_C(), prog)
    except KeyError:
        return out
    for g in prog.fns.values():
        for c in g.calls():
            if c.name != IT + "map" or len(c.args) < 2 or "c" in c.args[0]:
                continue
            recv = [o for o in flow.origins(g, c.args[0]) if o.kind == "call" and o.call.name == bwd]
            if not recv:
                continue
            lens = [o for o in flow.origins(g, recv[0].call.args[3])]
            if not lens or not all(o.kind == "call" and o.call.name.rsplit("::", 1)[-1] == "len" for o in lens):
                continue
            for o in flow.origins(g, c.args[1]):
                if o.kind == "agg" and o.rv.get("closure"):
                    from ..facts import norm_path
                    out.add(norm_path(o.rv["closure"]))
    return out


def step_capture_is_tested(prog, g, op):
    """inside a closure of a function with a zero-step test: does the operand come from the captured, tested step
    (the closure is built on the non-zero side of the test)"""
    root = prog.fns.get(g.root) if g.root else None
    if root is None:
        return False
    class _C:
        pass
    zsb, skeys, zreg = step_keys(None, prog, root)
    if zsb is None:
        return False
    sc = Scope(prog, root)
    rs = sc.resolve(g, op)
    if not rs or not all(okey(h, o) in skeys for (h, o) in rs):
        return False
    # the closure aggregate is built outside the error region of the test and after it
    h = g
    while h.kind == "closure" and h.parent and prog.fns.get(h.parent) is not root:
        h = prog.fns.get(h.parent)
        if h is None:
            return False
    for bb, i, st in root.all_stmts():
        rv = st.get("rv")
        if rv and rv["k"] == "agg" and rv.get("closure"):
            from ..facts import norm_path
            if norm_path(rv["closure"]) == h.path:
                return bb not in zreg and cfg.dominates(root, zsb, bb)
    return False


def short(n):
    return n.rsplit("::", 1)[1] if "::" in n else n


def arm_of(regs, bb):
    hit = sorted(v for v, r in regs.items() if bb in r)
    return "|".join(hit) if hit else "-"


BYTEWISE = ("core::str::<impl str>::len", "alloc::string::String::len", "core::str::<impl str>::as_bytes",
            "core::str::<impl str>::bytes", "core::str::<impl str>::get", "core::str::<impl str>::split_at",
            "core::str::<impl str>::char_indices", "core::str::<impl str>::is_char_boundary", "core::str::<impl str>::is_ascii",
            "core::str::<impl str>::get_unchecked")
R9 = "C09.S9.subscript-of-a-text-counts-characters"


def check_text_arms(ctx, prog, f, sc, text_reg, rsb, rule, inst, tag):
    """the arms for text never measure or cut the text in bytes, and count its length in characters"""
    text_fns = [(f, text_reg)]
    for g in sc.fns[1:]:
        for bb, i, s in f.all_stmts():
            rv = s.get("rv")
            if rv and rv["k"] == "agg" and rv.get("closure") and bb in text_reg and g.path.endswith(rv["closure"].rsplit("::", 1)[-1]):
                text_fns.append((g, set(g.reachable)))
    # private helpers an arm delegates to (`char_at(s, key)`) belong to the arm: one level, whole body
    for g, reg in list(text_fns):
        for c in g.calls():
            if c.bb in reg:
                h = prog.fns.get(c.name)
                if h is not None and h.crate == "minijinja" and not h.is_pub and h.kind != "closure" and h.path != f.path \
                        and h.loc.f == f.loc.f and all(h is not x[0] for x in text_fns) and any(
                            h.locals[l].get("prim") == "str" for l in range(1, h.argc + 1)):
                    text_fns.append((h, set(h.reachable)))
                    for cl in prog.closures_of(h.path):
                        text_fns.append((cl, set(cl.reachable)))
    nbad = 0
    for g, reg in text_fns:
        for c in g.calls():
            if c.bb in reg and (c.name in BYTEWISE or c.name.endswith("Index<I> for str>::index")):
                # for ASCII text bytes and characters coincide: a byte-wise fast path under `is_ascii()` is fine
                if c.name.endswith("::is_ascii"):
                    continue
                if any(gf[0] == "call" and gf[2] is True and gf[1].endswith("::is_ascii") for gf in flow.guard_facts(prog, g, c.bb)):
                    continue
                nbad += 1
                ctx.ob(rule, "%s|%s%s" % (short(g.path), short(c.name), tag), False,
                       "the text arm measures or cuts the text in bytes (%s): Python counts characters" % c.name, g.where(c.bb))
    counts = [c for g, reg in text_fns for c in g.calls() if c.bb in reg and c.name.endswith("Iterator>::count")]
    ctx.ob(rule, inst + tag, nbad == 0 and bool(counts) and bool(text_reg),
           "length of a text = number of characters (Chars::count); %d functions of the arm scanned" % len(text_fns), f.where(rsb))


def run(ctx):
    ctx.explain("C09 (partial): agreement of the per-kind arms of ops::slice around the two shared helpers.  For every call of "
                "the forward helper the use of its two results and of the step is traced (through closure captures) into the "
                "iterator adaptors applied to the operand, and all arms must agree on skip(offset).take(length).step_by(step); "
                "every call of the backward helper must receive (start, stop, |step|, the operand's own length) and feed an "
                "indexing map; the text arm never measures bytes; each arm builds the result kind of its operand; the only "
                "errors are a non-integer bound, a zero step and an operand that cannot be sliced.  NOT decided: the arithmetic "
                "inside get_offset_and_len / range_step_backwards (which indices a given (len, start, stop, step) selects), "
                "negative-index normalisation of subscripts.")
    for cfgname in ctx.configs():
        prog = ctx.program(cfgname)
        tag = "" if cfgname == "MAX" else "[%s]" % cfgname
        f = prog.fn(SLICE)
        fwd, bwd = helpers(ctx, prog)
        sc = Scope(prog, f)
        zsb, skeys, zreg = step_keys(ctx, prog, f)
        ctx.ob(R5, "zero-step-test-exists" + tag, zsb is not None,
               "slice compares the step with 0 and builds an error on the equal side", f.where(0))
        if zsb is None:
            continue

        # the ValueRepr switch and its arms
        sws = arms.enum_switches(prog, f, REPR)
        ctx.need(sws, "missing anchor: ops::slice does not match on ValueRepr")
        rsb = sws[0][0]
        regs = arms.arm_regions(prog, f, rsb, REPR)
        text_reg = regs.get("String", set()) | regs.get("SmallStr", set())
        bytes_reg = regs.get("Bytes", set())
        obj_reg = regs.get("Object", set())

        def tags(g, op):
            out = set()
            for (h, o) in sc.resolve(g, op):
                if o.kind == "call" and o.call.name == fwd:
                    out.add("fwd@%d.%s" % (o.call.bb, ".".join(o.proj) or "*"))
                elif o.kind == "call" and short(o.call.name) == "unsigned_abs":
                    inner = {okey(h2, x) for (h2, x) in sc.resolve(h, o.call.args[0])}
                    out.add("abs(step)" if inner and inner <= skeys else "abs(?)")
                elif o.kind == "call" and short(o.call.name) in ("len", "count"):
                    out.add("len")
                elif okey(h, o) in skeys:
                    out.add("step")
                else:
                    out.add("other")
            return out

        # ---- S1 -----------------------------------------------------------------------------------------------
        fsites = [c for c in f.calls() if c.name == fwd]
        bsites = [(g, c) for g in sc.fns for c in g.calls() if c.name == bwd]
        ctx.floor("C09 forward helper call sites" + tag, len(fsites), 3)
        ctx.floor("C09 backward helper call sites" + tag, len(bsites), 3)
        sigs = {}
        for h in fsites:
            uses = []
            chain = []
            for g in sc.fns:
                for c in g.calls():
                    for i, a in enumerate(c.args):
                        for t in tags(g, a):
                            if t.startswith("fwd@%d." % h.bb):
                                uses.append((short(c.name), i, t.split(".", 1)[1]))
                                if short(c.name) == "skip" and c.name.startswith(IT):
                                    # follow the adaptor chain from here
                                    cur, gg = c, g
                                    chain = ["skip"]
                                    for _ in range(8):
                                        nxt = None
                                        for d in gg.calls():
                                            if d.args and cur.dest is not None and op_place(d.args[0]) is not None and "c" not in d.args[0]:
                                                for o in flow.origins(gg, d.args[0]):
                                                    if o.kind == "call" and o.call.bb == cur.bb and o.call.name == cur.name:
                                                        nxt = d
                                        if nxt is None or not nxt.name.startswith(IT):
                                            break
                                        nm = short(nxt.name)
                                        if nm not in NEUTRAL:
                                            extra = ""
                                            if len(nxt.args) > 1:
                                                extra = "(" + ",".join(sorted(x.replace("fwd@%d" % h.bb, "") for x in tags(gg, nxt.args[1]))) + ")"
                                            chain.append(nm + extra)
                                        cur = nxt
            sig = (tuple(sorted(set(uses))), tuple(chain))
            sigs[h.bb] = sig
        want = ((("skip", 1, "0"), ("take", 1, "1")), ("skip", "take(.1)", "step_by(step)"))
        by_sig = {}
        for bb, s in sigs.items():
            by_sig.setdefault(s, []).append(bb)
        major = max(by_sig.items(), key=lambda kv: len(kv[1]))[0] if by_sig else None
        for h in fsites:
            s = sigs[h.bb]
            arm = arm_of(regs, h.bb)
            ok = s == want
            ctx.ob(R1, "%s|forward-call-in-arm-%s%s" % (short(SLICE), arm, tag), ok,
                   "offset -> skip, length -> take, then step_by(step), like %d of %d arms; this arm: uses %s chain %s"
                   % (len(by_sig.get(major, [])), len(fsites), list(s[0]), list(s[1])), f.where(h.bb))
        # ---- S2 / S6 ------------------------------------------------------------------------------------------
        def bound_keys(g, a):
            return frozenset(okey(h, o) for (h, o) in sc.resolve(g, a))
        ref_bounds = None
        for h in fsites:
            b = (bound_keys(f, h.args[0]), bound_keys(f, h.args[1]))
            if ref_bounds is None:
                ref_bounds = b
            ctx.ob(R6, "forward-call-in-arm-%s%s" % (arm_of(regs, h.bb), tag), b == ref_bounds and len(b[0]) > 0 and b[0] != b[1],
                   "start / stop are the converted operands, the same in every arm", f.where(h.bb))
        for n, (g, c) in enumerate(bsites):
            where = g.where(c.bb)
            b = (bound_keys(g, c.args[0]), bound_keys(g, c.args[1]))
            hostbb = c.bb
            if g.kind == "closure":
                # where the closure is built
                for bb, i, s in f.all_stmts():
                    rv = s.get("rv")
                    if rv and rv["k"] == "agg" and rv.get("closure") and g.path.endswith(rv["closure"].rsplit("::", 1)[-1]):
                        hostbb = bb
            arm = arm_of(regs, hostbb)
            inst = "backward-call-%d-in-arm-%s%s" % (n + 1, arm, tag)
            ctx.ob(R6, inst, b == ref_bounds, "start / stop are the converted operands, the same as the forward helper gets", where)
            t2 = tags(g, c.args[2])
            t3 = tags(g, c.args[3])
            mapped = False
            for d in g.calls():
                if d.name == IT + "map" and d.args and "c" not in d.args[0]:
                    if any(o.kind == "call" and o.call.bb == c.bb for o in flow.origins(g, d.args[0])):
                        # the mapping closure indexes a collection
                        for cl in prog.closures_of(f.path):
                            pass
                        mapped = True
            ctx.ob(R2, inst, t2 == {"abs(step)"} and t3 == {"len"} and mapped,
                   "the backward helper gets |step| (unsigned_abs of the tested step) and the length of the collected operand, and "
                   "its indices are mapped to elements; here step=%s len=%s mapped=%s" % (sorted(t2), sorted(t3), mapped), where)
        # ---- S3 / S9 ------------------------------------------------------------------------------------------
        check_text_arms(ctx, prog, f, sc, text_reg, rsb, R3, "string-arm-counts-characters", tag)
        gi = prog.fns.get("minijinja::value::Value::get_item_opt")
        if gi is not None:
            gsw = arms.enum_switches(prog, gi, REPR)
            if gsw:
                gregs = arms.arm_regions(prog, gi, gsw[0][0], REPR)
                gtext = gregs.get("String", set()) | gregs.get("SmallStr", set())
                check_text_arms(ctx, prog, gi, Scope(prog, gi), gtext, gsw[0][0], R9, "subscript-of-a-text-counts-characters", tag)
        # ---- S4 -----------------------------------------------------------------------------------------------
        VAL = "minijinja::value::Value"

        def makers(reg):
            out = set()
            for c in f.calls():
                if c.bb in reg and c.dest is not None and "p" not in c.dest and f.locals[c.dest["l"]].get("adt") == VAL \
                        and not c.name.endswith("::clone"):
                    out.add(c.name)
            return out
        mk_text, mk_bytes, mk_obj = makers(text_reg), makers(bytes_reg), makers(obj_reg)
        ctx.ob(R4, "string-arm" + tag, bool(mk_text) and all("From<alloc::string::String>" in m for m in mk_text),
               "a string from a string; constructors found: %s" % sorted(short(m) + "<-" + m.split("From<")[-1][:24] for m in mk_text), f.where(rsb))
        ctx.ob(R4, "bytes-arm" + tag, bool(mk_bytes) and all(m.endswith("Value::from_bytes") for m in mk_bytes),
               "bytes from bytes; constructors found: %s" % sorted(mk_bytes), f.where(rsb))
        tup = [m for m in mk_obj if "From<minijinja::value::tuple::Tuple>" in m]
        lazy = [m for m in mk_obj if m.endswith("Value::make_object_iterable")]
        rest = [m for m in mk_obj if m not in tup and m not in lazy]
        ctx.ob(R4, "object-arm" + tag, bool(tup) and bool(lazy) and not rest,
               "a tuple from a tuple, a list-like iterable otherwise; constructors found: %s" % sorted(mk_obj), f.where(rsb))
        # the tuple constructor sits on the is_tuple side
        for c in f.calls():
            if c.bb in obj_reg and "From<minijinja::value::tuple::Tuple>" in c.name:
                facts_ = flow.guard_facts(prog, f, c.bb)
                on_tuple = False
                for gf in facts_:
                    if gf[0] == "local" and gf[2] is True:
                        pl = gf[1]
                        if isinstance(pl, dict) and "p" not in pl:
                            for o in flow.origins(f, {"cp": pl}):
                                if o.kind == "call" and short(o.call.name) == "is_tuple":
                                    on_tuple = True
                    if gf[0] == "call" and gf[2] is True and short(gf[1]) == "is_tuple":
                        on_tuple = True
                ctx.ob(R4, "tuple-result-only-for-tuples" + tag, on_tuple, "Tuple is built under is_tuple()", f.where(c.bb))
        # ---- S5 -----------------------------------------------------------------------------------------------
        sliceable = text_reg | bytes_reg | regs.get("Undefined", set()) | regs.get("None", set())
        # inside the object arm: the side on which the object is a sequence / iterable (the other side falls through to
        # "cannot be sliced")
        OREPR = "minijinja::value::object::ObjectRepr"
        for sb in sorted(obj_reg):
            if f.term(sb)["k"] != "switch":
                continue
            mv = flow.matches_variants(prog, f, sb, OREPR) if OREPR in prog.adts else None
            cd = flow.cond_of(f, sb)
            if mv is not None and {"Seq", "Iterable"} & set(mv):
                for (_, x) in cfg.bool_edges(f, sb, not cd.neg):
                    sliceable = sliceable | cfg.region_dominated_by(f, x)
                break
            if cd.kind == "discr" and cd.adt == OREPR:
                tg = arms.variant_targets(prog, f, sb, OREPR)
                for v in ("Seq", "Iterable"):
                    if v in tg and tg[v] != tg.get("Map") and tg[v] != tg.get("Plain"):
                        sliceable = sliceable | cfg.region_dominated_by(f, tg[v])
        nerr = 0
        for c in f.calls():
            if c.name == ERR_NEW:
                nerr += 1
                ctx.ob(R5, "error-%d%s" % (nerr, tag), c.bb not in sliceable,
                       "an error of slice is built for a zero step or for an operand that cannot be sliced, never inside the arm "
                       "of a kind that can", f.where(c.bb))
        for bb, i, s in f.all_stmts():
            rv = s.get("rv")
            if s["k"] == "assign" and rv and rv["k"] == "agg" and rv.get("variant") == "Err" and rv.get("adt") == "core::result::Result":
                ctx.ob(R5, "err-built-in-arm-%s%s" % (arm_of(regs, bb), tag), bb not in sliceable,
                       "no arm of a sliceable kind builds an error", f.where(bb))
        for g in sc.fns:
            for c in g.calls():
                reg_bb = c.bb if g is f else None
                if c.name.startswith("core::option::Option::<T>::unwrap") and short(c.name) in ("unwrap", "expect") and g is not f:
                    ctx.ob(R5, "%s|unwrap%s" % (short(g.path), tag), False, "an unwrap inside a slicing closure can fail at run time", g.where(c.bb))
        n7 = check_sentinels(ctx, prog, [fwd, bwd], tag)
        n7b = check_clamped_options(ctx, prog, [fwd, bwd], tag)
        ctx.count("C09 optional bounds tested for None" + tag, n7b)
        ctx.count("C09 comparisons with a constant inside the helpers" + tag, n7)
        ctx.count("C09 functions in scope" + tag, len(sc.fns))
    if not ctx.is_borrowed:
        from . import c07 as _c07
        prog = ctx.program("MAX")
        b = ctx.borrowed("C07", "C09.S8:", only=lambda rule, inst: "V15" in rule and "value::ops::" in inst)
        _c07.check_defaulted_lengths(b, prog, "")
    ctx.assume("std semantics of Iterator::skip / take / step_by / map; the arithmetic of the two helpers is not decided")
