"""C04 — compile-time evaluation is transparent: literals behave like variables.

Sibling cross-check of the constant folder (compiler/ast.rs) against the code generator + VM:
 K1 operator-table agreement: for every BinOpKind / CompareOpKind the folder calls the same operator function, with
    the same operand order, as the VM arm of the instruction the code generator emits for that operator.
 K2 short-circuit arms of the folder return a clone of one of the two operands (the VM's JumpIf*OrPop can only leave
    an operand on the stack), and with the same selection rule: `and` -> left if left is falsy else right;
    `or` -> left if left is truthy else right.
 K3 folding never fails eagerly: every Result of an operator function inside the folder is consumed by `.ok()` (or
    matched), never unwrapped, and compile_expr emits LoadConst only on `Some`.
 K4 `not` agrees: the folder negates Value::is_true, the VM negates UndefinedBehavior::is_true, which defers to
    Value::is_true for defined values.
 K5 container literals: List/Tuple/Map::as_const and the BuildList/BuildTuple/BuildMap handlers construct the
    value through the same constructor family.
"""
from .. import cfg, flow, errflow, query, arms
from ..facts import op_place, norm_path

EVAL_BINOP = "minijinja::compiler::ast::eval_binop"
EVAL_COMPARE = "minijinja::compiler::ast::eval_compare"
AS_CONST = "minijinja::compiler::ast::Expr::as_const"
BINOPKIND = "minijinja::compiler::ast::BinOpKind"
CMPKIND = "minijinja::compiler::ast::CompareOpKind"
COMPILE_BIN = "minijinja::compiler::codegen::CodeGenerator::compile_bin_op"
EMIT_CMP = "minijinja::compiler::codegen::CodeGenerator::emit_compare"
COMPARE_OP = "minijinja::compiler::codegen::compare_op"
COMPILE_EXPR = "minijinja::compiler::codegen::CodeGenerator::compile_expr"
INSTR = "minijinja::compiler::instructions::Instruction"
CMPOP = "minijinja::compiler::instructions::CompareOp"
EI = "minijinja::vm::Executor::eval_impl"
POP = "minijinja::vm::context::Stack::pop"
VALUE = "minijinja::value::Value"

SEM_PREFIX = ("minijinja::value::ops::",)
SEM_EXACT = {
    "<minijinja::value::Value as core::cmp::PartialEq>::eq": "eq",
    "<minijinja::value::Value as core::cmp::PartialEq>::ne": "ne",
    "core::cmp::PartialEq::ne": "ne",
    "<minijinja::value::Value as core::cmp::PartialOrd>::lt": "lt",
    "<minijinja::value::Value as core::cmp::PartialOrd>::le": "le",
    "<minijinja::value::Value as core::cmp::PartialOrd>::gt": "gt",
    "<minijinja::value::Value as core::cmp::PartialOrd>::ge": "ge",
    "core::cmp::PartialOrd::lt": "lt", "core::cmp::PartialOrd::le": "le",
    "core::cmp::PartialOrd::gt": "gt", "core::cmp::PartialOrd::ge": "ge",
}


CMP_METHODS = {"core::cmp::PartialEq::eq": "eq", "core::cmp::PartialEq::ne": "ne", "core::cmp::PartialOrd::lt": "lt",
               "core::cmp::PartialOrd::le": "le", "core::cmp::PartialOrd::gt": "gt", "core::cmp::PartialOrd::ge": "ge"}



_AC_KEEP_FULL = {EVAL_BINOP, EVAL_COMPARE, "minijinja::compiler::ast::List::as_const", "minijinja::compiler::ast::Map::as_const",
                 "minijinja::compiler::ast::Tuple::as_const", "minijinja::compiler::ast::const_values"}


def _ac(prog):
    """Expr::as_const read through the private helpers an arm of it may have been moved into (`Compare::as_const`);
    the functions the rules know by name stay calls"""
    from .. import inline
    return inline.view(prog, prog.fn(AS_CONST),
                       keep=lambda t: t in _AC_KEEP_FULL or t.startswith("minijinja::value::") or not t.startswith("minijinja::compiler::ast::"),
                       allow_pub=True, max_blocks=90)


def _ac_closures(prog):
    from .. import inline
    out = list(prog.closures_of(AS_CONST))
    for h in inline.inlined_helpers(_ac(prog)):
        out += prog.closures_of(h)
    return out


def sem_name(c):
    # comparisons: the declared trait method with a (possibly referenced) Value receiver
    if c.path in CMP_METHODS:
        if (c.self_ty or {}).get("adt") == VALUE:
            return CMP_METHODS[c.path]
        return None
    n = c.name
    for p in SEM_PREFIX:
        if n.startswith(p):
            return n[len(p):]
    return None


def negated(prog, fn, region, variant, adt):
    """does the arm for `variant` negate its boolean result?  Looks at `Not` statements in the region and in closures
    built there; a Not guarded by an inner switch on the same enum applies only to the variants that reach it."""
    from ..facts import norm_path
    for b in sorted(region):
        for st in fn.stmts(b):
            rv = st.get("rv", {})
            if rv.get("k") == "un" and rv["op"] == "Not":
                sel = None
                for (sb, taken) in flow.guards(fn, b):
                    if sb not in region:
                        continue
                    cd = flow.cond_of(fn, sb)
                    mv = flow.matches_variants(prog, fn, sb, adt)
                    if mv is not None:
                        side = flow.bool_true_labels(taken)
                        if side is True:
                            sel = mv if sel is None else (sel & mv)
                        elif side is False:
                            allv = {v["name"] for v in prog.adt(adt)["variants"]}
                            sel = (allv - mv) if sel is None else (sel & (allv - mv))
                        continue
                    if cd.kind == "discr" and cd.adt == adt:
                        tg = arms.variant_targets(prog, fn, sb, adt)
                        t = fn.term(sb)
                        lab = {v: x for v, x in t["arms"]}
                        a = prog.adt(adt)
                        names = set()
                        for v in a["variants"]:
                            key = v["discr"] if v["discr"] in lab else "otherwise"
                            if key in taken:
                                names.add(v["name"])
                        sel = names if sel is None else (sel & names)
                if sel is None or variant in sel:
                    return True
            if rv.get("k") == "agg" and rv.get("closure"):
                cl = prog.fns.get(norm_path(rv["closure"]))
                if cl and any(s2.get("rv", {}).get("k") == "un" and s2["rv"]["op"] == "Not" for _, _, s2 in cl.all_stmts()):
                    return True
    return False


def sem_calls(fn, region):
    out = []
    for c in arms.calls_in(fn, region):
        s = sem_name(c)
        if s is not None and s not in ("coerce", "as_f64"):
            out.append((s, c))
    return out


def param_side(fn, op, left, right):
    """which folder parameter an operand derives from: 'L' / 'R' / '?'"""
    sides = set()
    for o in flow.origins(fn, op, through_calls=lambda k: 0 if k.name.endswith("::clone") or k.name.endswith("::deref") else None):
        if o.kind == "arg":
            sides.add("L" if o.arg == left else "R" if o.arg == right else "?")
        else:
            sides.add("?")
    return sides.pop() if len(sides) == 1 else "?"


def pop_side(fn, op, region):
    """which operand a VM value is: the first pop in the arm is the right operand (top of stack), the second the left"""
    pops = [c for c in fn.calls() if c.bb in region and c.name == POP]
    pops.sort(key=lambda c: len(cfg.dominators(fn)[c.bb]))
    sides = set()
    for o in flow.origins(fn, op, through_calls=lambda k: 0 if k.name.endswith("::clone") else None, within=region):
        if o.kind == "call" and o.call.name == POP and o.call in pops:
            i = pops.index(o.call)
            sides.add("R" if i == 0 else "L" if i == 1 else "?")
        else:
            sides.add("?")
    return sides.pop() if len(sides) == 1 else "?"


def folder_table(ctx, prog, fpath, kind_adt, _depth=0):
    f = prog.fn(fpath)
    sw = arms.enum_switches(prog, f, kind_adt, on_local=1)
    ctx.need(sw, "C04: no switch on %s in %s" % (kind_adt, fpath))
    bb = sw[0][0]
    regs = arms.arm_regions(prog, f, bb, kind_adt)
    tab = {}
    for v, reg in regs.items():
        ops_ = []
        for s, c in sem_calls(f, reg):
            sig = tuple(param_side(f, a, 2, 3) for a in c.args[:2])
            ops_.append((s, sig))
        neg_ = negated(prog, f, reg, v, kind_adt)
        # an arm may hand the operands to the sibling folder with a constant operator
        # (`BinOpKind::Eq => return eval_compare(CompareOpKind::Eq, left, right)`): its row of that table, with the
        # operand sides mapped through the call's arguments
        for c in arms.calls_in(f, reg):
            sib = {EVAL_COMPARE: CMPKIND, EVAL_BINOP: BINOPKIND}.get(c.name)
            if sib is None or c.name == fpath or len(c.args) < 3 or _depth > 0:
                continue
            vs = {o.rv["variant"] for o in flow.origins(f, c.args[0]) if o.kind == "agg" and o.rv.get("adt") == sib}
            if len(vs) != 1:
                continue
            _, _, _, sub = folder_table(ctx, prog, c.name, sib, _depth + 1)
            row = sub.get(next(iter(vs)))
            if row is None:
                continue
            side = {"L": param_side(f, c.args[1], 2, 3), "R": param_side(f, c.args[2], 2, 3), "?": "?"}
            ops_ += [(s_, tuple(side.get(x, "?") for x in sig_)) for s_, sig_ in row[0]]
            neg_ = neg_ != row[1] if isinstance(neg_, bool) and isinstance(row[1], bool) else (neg_ or row[1])
        tab[v] = (sorted(set(ops_)), neg_)
    return f, bb, regs, tab


def check_folder_never_undefined(ctx, prog, rule, tag=""):
    """K10 / C12.M9: compile-time evaluation never *produces* an undefined value.  What an undefined value does when
    it is printed, tested, iterated or looked into is decided by the environment's undefined behaviour at run time
    (`handle_undefined`, `assert_value_not_undefined`, `is_true`, `try_iter`), none of which the folder can consult:
    a fold that yields undefined (a missed key of a literal, `unwrap_or(Value::UNDEFINED)`) makes the literal behave
    unlike the same lookup on a variable in every strict mode."""
    roots = [AS_CONST] + [k for k in prog.fns if k.startswith("minijinja::compiler::ast::") and k.endswith("::as_const")
                          and prog.fns[k].kind != "closure"]
    n = 0
    for r in sorted(set(roots)):
        if not prog.has_fn(r):
            continue
        for f in [prog.fn(r)] + prog.closures_of(r):
            n += 1
            hits = []
            for bb, o in query.all_operands(f):
                c = o.get("c")
                if c and str(c.get("named", "")).endswith("Value::UNDEFINED"):
                    hits.append(f.tloc(bb))
            for bb, i, s_ in f.all_stmts():
                rv = s_.get("rv", {})
                if rv.get("k") == "agg" and rv.get("variant") == "Undefined" and str(rv.get("adt", "")).endswith("ValueRepr"):
                    hits.append(f.tloc(bb))
            ctx.ob(rule, tag + f.path.replace("minijinja::compiler::ast::", ""), not hits,
                   "constant folding produces an undefined value (%s): its effect depends on the undefined behaviour of the "
                   "environment, which only the interpreter applies (handle_undefined / strict checks are skipped)" % ", ".join(map(str, hits[:3])),
                   f.loc)
    ctx.floor(rule.split(".")[0] + "." + rule.split(".")[1] + " folding functions scanned for undefined" + tag, n, 3)


def check_folding_does_not_select_statements(ctx, prog):
    """K13 (round 11, seed C04-11): the constant folder yields *values*.  Which statements the generator compiles must not
    depend on it: compiling a statement has effects of its own at load time (a `{% block %}` is registered in the
    template's block table, a macro is declared), so a branch that is skipped because its condition folds to false makes
    `{% if false %}` differ from `{% if flag %}` with flag = false (`self.note()` is unknown, a child's override is not
    seen).  In every function of the code generator, no call that compiles statements is control-dependent on a value
    derived from `as_const()`."""
    from . import c18 as _c18
    G = "minijinja::compiler::codegen::CodeGenerator::"
    n = 0
    for k, f in prog.fns.items():
        if not k.startswith(G) or f.kind == "closure":
            continue
        sinks = [c for c in f.calls() if _c18._is_stmt_sink(prog, c.name)]
        if not sinks:
            continue
        for c in sinks:
            n += 1
            culprit = None
            for (sb, taken) in flow.guards(f, c.bb):
                cd = flow.cond_of(f, sb)
                ops_ = []
                if cd.kind == "discr" and cd.place is not None:
                    ops_.append({"cp": cd.place})
                elif cd.kind == "call":
                    ops_ += [a for a in cd.call.args if "c" not in a]
                elif cd.kind == "local" and cd.place is not None:
                    ops_.append({"cp": cd.place})
                for op in ops_:
                    for o in flow.origins(f, op, through_calls=lambda q: 0 if q.name.endswith(("::is_true", "::as_ref", "::deref", "::is_some", "::is_none", "::unwrap_or", "::unwrap_or_default", "::map")) else None):
                        if o.kind == "call" and o.call.name.endswith("::as_const"):
                            culprit = f.where(sb)
            ctx.ob("C04.K13.folding-does-not-select-what-is-compiled", "%s|%s@%d" % (k.split("::")[-1], c.name.split("::")[-1], n), culprit is None,
                   "a statement is compiled (or not) depending on the result of as_const() - a literal condition then behaves "
                   "differently from a variable with the same value (test at %s)" % culprit, f.where(c.bb))
    # ... and the generator asks the folder for one purpose only: to emit the folded value.  Every `as_const()` call in the
    # code generator (closures included) feeds the payload of a `LoadConst` (or a constant it negates first); a call whose
    # answer is only *tested* (`filter(|e| e.as_const().is_none())`: "a constant loop filter needs no selecting pass")
    # changes what is emitted for literals as opposed to variables of the same value.
    for k, f in prog.fns.items():
        if not k.startswith("minijinja::compiler::codegen::"):
            continue
        for c in f.calls():
            if not c.name.endswith("::as_const"):
                continue
            n += 1
            feeds = False
            for g in [f]:
                for bb, i, st in g.all_stmts():
                    rv = st.get("rv")
                    if rv and rv["k"] == "agg" and rv.get("variant") == "LoadConst" and rv["ops"] and "c" not in rv["ops"][0]:
                        for o in flow.origins(g, rv["ops"][0], through_calls=lambda q: 0 if q.name.endswith(("::clone", "::unwrap", "::neg")) else None):
                            if o.kind == "call" and o.call.bb == c.bb and o.call.name == c.name:
                                feeds = True
            ctx.ob("C04.K13.folding-does-not-select-what-is-compiled", "%s|as_const-feeds-LoadConst" % (k.split("codegen::")[-1]), feeds,
                   "the code generator asks the constant folder here without emitting the folded value: the answer can only "
                   "decide *what* is generated, which makes a literal behave unlike a variable of the same value", f.where(c.bb))
    return n


def _resolve_folders(prog):
    """the two operator folders of the AST module, by role when they were renamed (`compare_holds`): the function of
    compiler::ast that takes the operator kind and switches on it"""
    global EVAL_BINOP, EVAL_COMPARE, _AC_KEEP_FULL
    for kind, cur in ((BINOPKIND, "EVAL_BINOP"), (CMPKIND, "EVAL_COMPARE")):
        name = globals()[cur]
        if prog.has_fn(name):
            continue
        for k, f in sorted(prog.fns.items()):
            if not k.startswith("minijinja::compiler::ast::") or f.kind == "closure":
                continue
            if any(f.locals[l].get("adt") == kind for l in range(1, f.argc + 1)) and arms.enum_switches(prog, f, kind):
                _AC_KEEP_FULL = (set(_AC_KEEP_FULL) - {name}) | {k}
                globals()[cur] = k
                break


ORDER_RESTORING = ("reverse_top", "drain", "split_off", "drain_top")


def check_map_literal_insertion_order(ctx, prog, ev, vm_regs):
    """K14 (round 12, seed C04-12): a map literal with a key that occurs twice keeps the *last* entry - in the folder
    (`Map::as_const` inserts the pairs in source order) and at run time alike, or hoisting one value of the literal
    into a variable changes the result.  The generator pushes key, value, key, value, ...; a handler that pops the
    pairs and inserts them as they come off the stack inserts them last to first (the first entry wins, and turning
    the finished map around afterwards does not bring the lost entry back).  In the BuildMap / BuildKwargs handlers
    (read through private helpers) a loop that pops and inserts must come after the step that restores the source
    order of the operands (`reverse_top`, `drain`, `split_off`); the folder's loop must not run backwards."""
    n = 0
    for v in ("BuildMap", "BuildKwargs"):
        reg = vm_regs.get(v)
        if not reg:
            continue
        places = [(ev, set(reg))]
        for c in arms.calls_in(ev, reg):
            g_ = prog.fns.get(c.resolved or c.path)
            if g_ is not None and g_.kind != "closure" and not g_.is_pub and g_.crate == ev.crate and g_.path.startswith("minijinja::vm::"):
                places.append((g_, set(g_.reachable)))
        judged = False
        ok = True
        detail = ""
        where = ev.loc
        for fn_, r_ in places:
            dom = cfg.dominators(fn_)
            for h, body in cfg.natural_loops(fn_):
                if h not in r_:
                    continue
                ins = [c for c in arms.calls_in(fn_, body) if c.name.split("::")[-1] == "insert"]
                pops = [c for c in arms.calls_in(fn_, body) if c.name.endswith(("Stack::pop", "Stack::try_pop", "Vec::pop"))]
                if not ins or not pops:
                    continue
                judged = True
                restoring = [c for c in arms.calls_in(fn_, r_) if c.name.split("::")[-1] in ORDER_RESTORING and c.bb in dom[h] and c.bb not in body]
                if not restoring:
                    ok = False
                    where = fn_.where(h)
                    detail = ("%s pops the pairs of a map literal and inserts them as they come off the stack - last to first - "
                              "without restoring their source order first: of two entries with the same key the first one "
                              "survives at run time while the constant folder keeps the last one" % fn_.path.split("::")[-1])
        if not judged:
            # no popping loop: the pairs are taken off in one piece (drain / split_off keep the source order)
            taken = [c for fn_, r_ in places for c in arms.calls_in(fn_, r_) if c.name.split("::")[-1] in ORDER_RESTORING]
            rev = [c for fn_, r_ in places for c in arms.calls_in(fn_, r_) if c.name.split("::")[-1] in ("rev", "reverse")]
            ok = bool(taken) and not rev
            detail = "cannot see how the %s handler takes its pairs off the stack in source order" % v
        n += 1
        ctx.ob("C04.K14.map-literal-pairs-are-inserted-in-source-order", "eval_impl|" + v, ok, detail, where)
    for k, f in sorted(prog.fns.items()):
        if k.startswith("minijinja::compiler::ast::Map") and k.endswith("::as_const") and f.kind != "closure":
            loops = [(h, b) for h, b in cfg.natural_loops(f) if any(c.name.split("::")[-1] == "insert" for c in arms.calls_in(f, b))]
            back = [c for c in f.calls() if c.name.split("::")[-1] in ("rev", "reverse", "next_back", "pop")]
            n += 1
            ctx.ob("C04.K14.map-literal-pairs-are-inserted-in-source-order", "Map::as_const", bool(loops) and not back,
                   "the constant folder inserts the pairs of a map literal in source order (a forward loop with an insert); "
                   "found %d inserting loops, backwards steps: %s" % (len(loops), [c.name.split("::")[-1] for c in back]), f.loc)
    return n



def run(ctx):
    ctx.explain("C04: sibling cross-check by switch-arm summaries: (BinOpKind/CompareOpKind -> operator function and "
                "operand order) extracted from the constant folder is compared with (kind -> Instruction) from the "
                "code generator composed with (Instruction -> operator function and pop order) from the interpreter "
                "loop; the short-circuit arms of the folder must return a clone of an operand chosen by the "
                "truthiness of the left operand exactly as JumpIfFalseOrPop/JumpIfTrueOrPop do; operator Results in "
                "the folder are only ever `.ok()`-ed.  Decides that both evaluators run the same function on the "
                "same operands for every operator; it does not re-verify the operator functions themselves.")
    prog = ctx.prog
    _resolve_folders(prog)
    n13 = check_folding_does_not_select_statements(ctx, prog)
    ctx.floor("C04.K13 statement-compiling calls of the generator", n13, 10)
    ev = prog.fn(EI)
    # ---- VM table: Instruction variant -> semantic calls
    disp = arms.enum_switches(prog, ev, INSTR)
    ctx.need(disp and len(ev.term(disp[0][0])["arms"]) >= 40, "C04: interpreter dispatch not found")
    dbb = disp[0][0]
    vm_regs = arms.arm_regions(prog, ev, dbb, INSTR)
    n14 = check_map_literal_insertion_order(ctx, prog, ev, vm_regs)
    ctx.floor("C04.K14 map literal evaluators", n14, 3)
    vm_tab = {}
    for v, reg in vm_regs.items():
        ops_ = []
        for s, c in sem_calls(ev, reg):
            sig = tuple(pop_side(ev, a, reg) for a in c.args[:2])
            ops_.append((s, sig))
        vm_tab[v] = (sorted(set(ops_)), negated(prog, ev, reg, v, INSTR))
    # ---- K11 (after seed C04-9): the interpreter has no arithmetic of its own.  In the arm of an arithmetic / membership
    # instruction the value that is pushed is the result of the shared operator function and nothing else: a "fast path"
    # that computes on the operands itself (`checked_div` on two i64) cannot be seen by the tables above and gives the
    # run-time evaluator a semantics the compile-time evaluator does not have (truncating vs euclidean division).
    PUSHFN = "minijinja::vm::context::Stack::push"
    n11 = 0
    for v in ("Add", "Sub", "Mul", "Div", "IntDiv", "Rem", "Pow", "Neg", "In", "StringConcat"):
        reg = vm_regs.get(v)
        if not reg:
            continue
        want = {s_ for s_, _ in vm_tab.get(v, ([], False))[0]}
        thru = lambda k: 0 if (k.name.endswith("Try>::branch") or k.name.endswith("::from_residual")) else None
        for c in arms.calls_in(ev, reg):
            if c.name != PUSHFN or len(c.args) < 2:
                continue
            n11 += 1
            srcs = flow.origins(ev, c.args[1], through_calls=thru, within=reg)
            odd = [o for o in srcs if not (o.kind == "call" and sem_name(o.call) in want)]
            ctx.ob("C04.K11.interpreter-arm-pushes-the-operator's-result", "Instruction::%s" % v, bool(srcs) and not odd,
                   "the %s arm of the interpreter pushes a value that is not the result of %s (%s): the run-time operator has a "
                   "path of its own that the compile-time evaluation of the same expression does not take"
                   % (v, sorted(want), [repr(o)[:80] for o in odd][:3]), ev.where(c.bb))
    ctx.floor("C04.K11 pushes in the arithmetic arms of the interpreter", n11, 8)
    # CompareAndPreserve: inner switch on CompareOp
    cap_reg = vm_regs.get("CompareAndPreserve", set())
    cap_tab = {}
    # the arms may be merged (`Eq | Ne | Lt .. => { checks; match op { .. } }`): every switch on the operator inside the
    # handler contributes; a variant's operators are what all the switches that separate it agree on
    per_v = {}
    for bb, cd in arms.enum_switches(prog, ev, CMPOP):
        if bb not in cap_reg:
            continue
        for v, reg in arms.arm_regions(prog, ev, bb, CMPOP).items():
            ops_ = []
            pops_region = cap_reg
            for s, c in sem_calls(ev, reg):
                # in CompareAndPreserve `b = pop; a = pop` happen before the inner switch
                sig = tuple(pop_side(ev, a, pops_region) for a in c.args[:2])
                ops_.append((s, sig))
            if ops_:
                per_v.setdefault(v, []).append((len(reg), set(ops_), negated(prog, ev, reg, v, CMPOP)))
    for v, lst in per_v.items():
        common = set.intersection(*[x[1] for x in lst])
        lst.sort(key=lambda x: x[0])
        cap_tab[v] = (sorted(common), lst[0][2])
    # ---- codegen tables
    # read through private helpers an arm may have been moved into (`compile_sc_bin_op(c, and)`)
    _KEEP_CG = ("compile_expr", "add", "add_with_span", "sc_bool", "start_sc_bool", "end_sc_bool", "push_span", "pop_span",
                "compile_bin_op", "compile_compare", "emit_compare", "set_line_from_span")
    cb = prog.view(COMPILE_BIN, keep=lambda t: t.rsplit("::", 1)[-1] in _KEEP_CG or not t.startswith("minijinja::compiler::codegen::"), max_blocks=60)
    sw = [x for x in arms.enum_switches(prog, cb, BINOPKIND)]
    ctx.need(sw, "C04: compile_bin_op has no switch on BinOpKind")
    cb_regs = arms.arm_regions(prog, cb, sw[0][0], BINOPKIND)
    cg_bin = {}
    for v, reg in cb_regs.items():
        ins = sorted({rv["variant"] for _, _, rv in arms.aggregates_in(cb, reg, INSTR)})
        sc = [c.name.split("::")[-1] for c in arms.calls_in(cb, reg) if c.name.endswith("sc_bool")]
        cg_bin[v] = (ins, sc)
    ec = prog.fn(EMIT_CMP)
    sw2 = arms.enum_switches(prog, ec, CMPKIND)
    ctx.need(sw2, "C04: emit_compare has no switch on CompareOpKind")
    ec_regs = arms.arm_regions(prog, ec, sw2[0][0], CMPKIND)
    cg_cmp = {v: sorted({rv["variant"] for _, _, rv in arms.aggregates_in(ec, reg, INSTR)}) for v, reg in ec_regs.items()}
    # NotIn appends Instruction::Not after In
    notin_neg = any(rv["variant"] == "Not" for _, _, rv in arms.aggregates_in(ec, ec.reachable, INSTR))
    co = prog.fn(COMPARE_OP)
    sw3 = arms.enum_switches(prog, co, CMPKIND)
    co_regs = arms.arm_regions(prog, co, sw3[0][0], CMPKIND) if sw3 else {}
    cg_cmpop = {v: sorted({rv["variant"] for _, _, rv in arms.aggregates_in(co, reg, CMPOP)}) for v, reg in co_regs.items()}

    # ---- folder tables
    fb, fb_bb, fb_regs, fold_bin = folder_table(ctx, prog, EVAL_BINOP, BINOPKIND)
    fc, fc_bb, fc_regs, fold_cmp = folder_table(ctx, prog, EVAL_COMPARE, CMPKIND)
    ctx.floor("C04.K1 BinOpKind variants", len(fold_bin), 15)
    ctx.floor("C04.K1 CompareOpKind variants", len(fold_cmp), 8)

    # ---- K1
    for v in sorted(fold_bin):
        if v in ("ScAnd", "ScOr"):
            ins, sc = cg_bin.get(v, ([], []))
            ctx.ob("C04.K1.short-circuit-uses-sc_bool", "BinOpKind::%s" % v, "sc_bool" in sc and not ins,
                   "codegen arm: instructions %s, calls %s" % (ins, sc), cb.loc)
            continue
        ins, _ = cg_bin.get(v, ([], []))
        ok = len(ins) == 1
        vm = vm_tab.get(ins[0]) if ok else None
        fold = fold_bin[v]
        same = ok and vm is not None and fold[0] == vm[0] and fold[0] != [] and "?" not in str(fold[0])
        ctx.ob("C04.K1.binop-table-agrees", "BinOpKind::%s" % v, same,
               "folder: %s   codegen: %s   vm: %s   (operator function and operand order, L/R = left/right operand)"
               % (fold[0], ins, vm[0] if vm else None), fb.loc)
        ctx.sample({"rule": "C04.K1", "op": v, "folder": str(fold[0]), "instruction": ins, "vm": str(vm[0] if vm else None)})
    for v in sorted(fold_cmp):
        ins = cg_cmp.get(v, [])
        fold = fold_cmp[v]
        base = [i for i in ins if i != "Not"]
        ok = len(base) == 1
        vm = vm_tab.get(base[0]) if ok else None
        neg_cg = (v == "NotIn") and notin_neg
        same = ok and vm is not None and fold[0] == vm[0] and fold[0] != [] and (fold[1] == neg_cg)
        ctx.ob("C04.K1.compare-table-agrees", "CompareOpKind::%s" % v, same,
               "folder: %s negated=%s   codegen: %s   vm: %s" % (fold[0], fold[1], ins, vm[0] if vm else None), fc.loc)
        # chained comparisons go through CompareAndPreserve(compare_op(kind))
        co_v = cg_cmpop.get(v, [])
        okc = len(co_v) == 1 and co_v[0] in cap_tab
        cap = cap_tab.get(co_v[0]) if okc else None
        samec = okc and cap[0] == fold[0] and cap[1] == fold[1]
        ctx.ob("C04.K1.chained-compare-table-agrees", "CompareOpKind::%s" % v, samec,
               "folder: %s negated=%s   compare_op: %s   CompareAndPreserve arm: %s" % (fold[0], fold[1], co_v, cap),
               fc.loc)

    # ---- K2
    for v, (want_true, want_false) in (("ScAnd", ("R", "L")), ("ScOr", ("L", "R"))):
        reg = fb_regs[v]
        # every value reaching the Some(..) of this arm is a clone of a parameter
        rets = []
        for b in sorted(reg):
            for s in fb.stmts(b):
                rv = s.get("rv", {})
                if s["k"] == "assign" and rv.get("k") == "agg" and rv.get("variant") == "Some":
                    rets.append((b, rv))
        ok = bool(rets)
        detail = []
        for b, rv in rets:
            for o in flow.origins(fb, rv["ops"][0]):
                if o.kind == "call" and o.call.name.endswith("Value as core::clone::Clone>::clone") or (
                        o.kind == "call" and o.call.name.endswith("::clone")):
                    side = param_side(fb, o.call.args[0], 2, 3)
                    detail.append(side)
                    # which truthiness of `left` leads here?
                    if side == "?":
                        ok = False
                    # selection rule
                    cond_side = None
                    for (sb, taken) in flow.guards(fb, o.call.bb):
                        if sb not in reg:
                            continue
                        cd = flow.cond_of(fb, sb)
                        if cd.kind == "call" and cd.call.name == "minijinja::value::Value::is_true" and param_side(
                                fb, cd.call.args[0], 2, 3) == "L":
                            t = flow.bool_true_labels(taken)
                            if t is not None:
                                cond_side = (t != cd.neg)
                    if cond_side is True and side != want_true:
                        ok = False
                        detail.append("left truthy -> %s (VM leaves %s)" % (side, want_true))
                    if cond_side is False and side != want_false:
                        ok = False
                        detail.append("left falsy -> %s (VM leaves %s)" % (side, want_false))
                    if cond_side is None:
                        ok = False
                        detail.append("result not selected by left.is_true()")
                else:
                    ok = False
                    detail.append("non-operand value %r" % o)
        if not ok:
            # the two operators may share an arm that computes which operand to keep (`keep_left = left.is_true() !=
            # matches!(op, ScAnd)`): the four cases (operator x truthiness of the left operand) are walked with both known
            from .. import typestate
            ok, detail2 = True, []
            for truth, want in ((True, want_true), (False, want_false)):
                def on_call(k_, st_, val_, truth=truth):
                    if k_.name == "minijinja::value::Value::is_true" and param_side(fb, k_.args[0], 2, 3) == "L":
                        return [(st_, ("B", "1" if truth else "0"))]
                    return None
                wr = typestate.explore(prog, fb, 0, on_call, env0={1: ("V", frozenset([v]))}, enum_limit=24)
                sides = set()
                for c_ in fb.calls():
                    if c_.name.endswith("::clone") and c_.bb in wr.visited and c_.bb in reg:
                        for o_ in flow.origins(fb, c_.args[0], within=wr.visited,
                                               through_calls=lambda k: 0 if k.name.endswith("::deref") else None):
                            sides.add(("L" if o_.arg == 2 else "R" if o_.arg == 3 else "?") if o_.kind == "arg" else "?")
                detail2.append("left %s -> %s" % ("truthy" if truth else "falsy", sorted(sides)))
                if wr.budget_hit or sides != {want}:
                    ok = False
            detail = detail2 + ["(walked per operator and truth value)"]
        ctx.ob("C04.K2.short-circuit-returns-operand", "eval_binop|%s" % v, ok,
               "values returned by the folder's %s arm: %s; the VM's JumpIf%sOrPop leaves the left operand when it "
               "decides and the right operand otherwise" % (v, detail, "False" if v == "ScAnd" else "True"), fb.loc)

    # ---- K3
    n3 = 0
    scope = [_ac(prog), fb, fc] + _ac_closures(prog) + prog.closures_of(EVAL_COMPARE) + prog.closures_of(EVAL_BINOP)
    # compile_expr is read through private helpers its fast paths may have been moved into (`negated_literal(expr)`)
    from .. import inline as _inl
    ce = _inl.view(prog, prog.fn(COMPILE_EXPR), keep=lambda t: t.startswith("minijinja::compiler::codegen::CodeGenerator::") or
                   t.startswith("minijinja::value::") or t.startswith("minijinja::compiler::ast::"), max_blocks=30)
    for f in scope + [ce]:
        for c in f.calls():
            if c.name.startswith("minijinja::value::ops::") and f.locals[c.dest["l"]].get("adt") == "core::result::Result":
                if f is ce and c.name != "minijinja::value::ops::neg":
                    continue
                n3 += 1
                ds = errflow.disposition(f, c)
                bad = [d for d in ds if d[0] in ("panics", "returned", "propagated", "dropped", "escapes")]
                if f is ce:
                    # `if let Ok(negated) = neg(..)`: matched, Err arm falls through to run-time code
                    bad = [d for d in ds if d[0] in ("panics", "escapes", "dropped")]
                ctx.ob("C04.K3.fold-never-fails-eagerly", "%s|%s" % (f.path, c.name.split("::")[-1]), not bad and bool(ds),
                       "Result of %s in the folder is %s: a failing constant expression must fall back to run-time "
                       "evaluation" % (c.name, ds), f.where(c.bb))
    ctx.floor("C04.K3 operator calls in the folder", n3, 10)
    # K3 over the rest of the front end (round 10, seed C04-10): wherever else code that runs while a template is LOADED
    # (lexer, parser, code generator, tracker) evaluates one of the shared operator functions, a failure must not become
    # a load-time error either - the same expression with a variable fails only if and when it is executed
    done = {f.path for f in scope} | {COMPILE_EXPR}
    for f in prog.fns.values():
        if f.crate != "minijinja" or not f.path.startswith("minijinja::compiler::") or f.path in done or (f.root or "") in done:
            continue
        for c in f.calls():
            if c.name.startswith("minijinja::value::ops::") and c.dest is not None and "p" not in c.dest \
                    and f.locals[c.dest["l"]].get("adt") == "core::result::Result":
                ds = errflow.disposition(f, c)
                bad = [d for d in ds if d[0] in ("panics", "returned", "propagated", "dropped", "escapes")]
                ctx.ob("C04.K3.fold-never-fails-eagerly", "%s|%s" % (f.path, c.name.split("::")[-1]), not bad and bool(ds),
                       "Result of %s, evaluated while the template is loaded, is %s: a failing constant expression must fall "
                       "back to run-time evaluation, not fail the load" % (c.name, ds), f.where(c.bb))
    # K3b: wherever else the AST module evaluates an operator at compile time (collection helpers, closures), a
    # failure must make the *whole fold* give up (None up to as_const), never drop or replace the element: the
    # closure holding the call may only be consumed by Option::and_then / Option::map, not by an iterator adaptor
    # that swallows None (filter_map, flat_map, filter, find_map, flatten).
    SWALLOW = ("::filter_map", "::flat_map", "::filter", "::find_map", "::flatten", "::map_while", "::take_while",
               "::unwrap_or", "::unwrap_or_default", "::unwrap_or_else")
    nk = 0
    for g in prog.fns.values():
        if not g.loc.f.endswith("minijinja/src/compiler/ast.rs"):
            continue
        ops_calls = [c for c in g.calls() if c.name.startswith("minijinja::value::ops::") and
                     g.locals[c.dest["l"]].get("adt") == "core::result::Result"]
        if not ops_calls:
            continue
        nk += 1
        if g.kind != "closure":
            continue
        def consumers_of(cl):
            out = []
            for h in [x for x in prog.fns.values() if x.loc.f == cl.loc.f]:
                for bb, i, st in h.all_stmts():
                    rv = st.get("rv", {})
                    if rv.get("k") == "agg" and rv.get("closure") and norm_path(rv["closure"]) == cl.path:
                        for c in h.calls():
                            if any(any(o.kind == "agg" and o.rv is rv for o in flow.origins(h, a)) for a in c.args):
                                out.append((h, c))
            return out
        consumers = []
        work = [g]
        seen_cl = set()
        while work:
            cl = work.pop()
            if cl.path in seen_cl:
                continue
            seen_cl.add(cl.path)
            for h, c in consumers_of(cl):
                consumers.append((h, c))
                if h.kind == "closure":
                    work.append(h)      # the Option travels on as the result of the enclosing closure
        bad = [(h, c) for h, c in consumers if c.name.endswith(SWALLOW)]
        ctx.ob("C04.K3.failed-fold-is-not-swallowed", g.path, bool(consumers) and not bad,
               "a closure that evaluates %s at compile time is consumed by %s: when the operator fails the element "
               "is silently dropped (or defaulted) instead of leaving the expression to run-time evaluation" % (
                   sorted({c.name.split("::")[-1] for c in ops_calls}), [c.name.split("::")[-1] for _, c in (bad or consumers)]),
               g.loc)
    ctx.floor("C04.K3b functions of the AST module evaluating operators", nk, 3)
    # compile_expr: LoadConst(v) from as_const only under Some
    acs = ce.calls_to(AS_CONST)
    ctx.floor("C04.K3 as_const call in compile_expr", len(acs), 1)
    for c in acs:
        sp = errflow.result_split(ce, c.dest["l"])
        ctx.ob("C04.K3.loadconst-only-on-some", COMPILE_EXPR, bool(sp.switches) and not sp.consumers,
               "as_const() result must be matched (Some -> LoadConst, None -> run-time code); consumers: %s"
               % [k.name for k in sp.consumers], ce.where(c.bb))

    # ---- K4
    ub = prog.fn("minijinja::utils::UndefinedBehavior::is_true")
    ctx.ob("C04.K4.vm-truthiness-defers-to-Value::is_true", ub.path,
           bool(ub.calls_to("minijinja::value::Value::is_true")), "", ub.loc)
    fold_not = False
    for f in [_ac(prog)] + _ac_closures(prog):
        if f.calls_to("minijinja::value::Value::is_true") and any(
                s.get("rv", {}).get("k") == "un" and s["rv"]["op"] == "Not" for _, _, s in f.all_stmts()):
            fold_not = True
    ctx.ob("C04.K4.folder-not-negates-is_true", AS_CONST, fold_not, "", _ac(prog).loc)
    vm_not = vm_regs.get("Not", set())
    ctx.ob("C04.K4.vm-not-negates-is_true", "eval_impl|Not",
           any(c.name == "minijinja::utils::UndefinedBehavior::is_true" for c in arms.calls_in(ev, vm_not)) and vm_tab["Not"][1],
           "", ev.loc)

    # ---- K9: the folder takes every folded value from somewhere the run time would take it from - the constant
    # operands themselves, the shared operator functions (K1/K2), the container constructors (K5).  It never
    # *fabricates* a value: the only value built from a Rust scalar inside as_const is `Value::from(!v.is_true())`
    # of the Not arm (K4).  A second fabrication site (e.g. `Some(Value::from(false))` for `0 and x`) is a fold
    # that does not go through the run-time operation.
    import re as _re
    nfab = 0
    ac_ = _ac(prog)
    sw9 = arms.enum_switches(prog, ac_, "minijinja::compiler::ast::Expr")
    cmp_region = arms.arm_regions(prog, ac_, sw9[0][0], "minijinja::compiler::ast::Expr").get("Compare", set()) if sw9 else set()
    for f in [_ac(prog)] + _ac_closures(prog):
        for c in f.calls():
            n = c.name
            if not (_re.search(r"From<.*> for minijinja::value::Value>::from$", n) or n.startswith("minijinja::value::Value::from")):
                continue
            nfab += 1
            os_ = flow.origins(f, c.args[0]) if c.args else []
            is_not = bool(os_) and all(o.kind == "un" and o.rv.get("op") == "Not" and any(
                x.kind == "call" and x.call.name == "minijinja::value::Value::is_true" for x in flow.origins(f, o.rv["a"]))
                for o in os_)
            # the truth value of a comparison chain (K6 checks how it is computed) is a bool at run time too
            if f is ac_ and c.bb in cmp_region and os_ and all(o.kind == "const" and o.const.get("ty") == "bool" for o in os_):
                is_not = True
            ctx.ob("C04.K9.folder-does-not-fabricate-values", "%s|%s" % (f.path.replace(AS_CONST, "as_const"), _re.sub(r"^.*From<(.*)> for.*$", lambda m_: "from<%s>" % m_.group(1), n)),
                   is_not,
                   "as_const builds a value from a Rust scalar (%s) instead of taking the result of the run-time operation on "
                   "the constant operands: the folded expression yields another value than the same expression with "
                   "variables" % [repr(o) for o in os_], f.where(c.bb))
    ctx.floor("C04.K9 value constructions inside as_const", nfab, 1)

    # ---- K10
    check_folder_never_undefined(ctx, prog, "C04.K10.folding-never-yields-undefined")

    # ---- K5
    def ctor_family(f, region=None):
        out = set()
        for c in f.calls():
            if region is not None and c.bb not in region:
                continue
            n = c.name
            if n.endswith("Value::from_object") or "for minijinja::value::Value>::from" in n or n.endswith("Tuple>::from") \
                    or "minijinja::value::tuple::Tuple" in n and n.endswith("::from"):
                tys = [t.get("s", "") for t in c.callee.get("targs", [])]
                out.add(("from_object" if n.endswith("from_object") else "from") + ":" + _shape(n + " " + " ".join(tys)))
        return out

    pairs = (("List", "minijinja::compiler::ast::List::as_const", "BuildList", {"vec"}),
             ("Tuple", "minijinja::compiler::ast::Tuple::as_const", "BuildTuple", {"tuple"}),
             ("Map", "minijinja::compiler::ast::Map::as_const", "BuildMap", {"map"}))
    for nm, fpath, instr, want in pairs:
        f = prog.fn(fpath)
        a = {x.split(":")[1] for x in ctor_family(f)} - {"other"}
        b = {x.split(":")[1] for x in ctor_family(ev, vm_regs.get(instr, set()))} - {"other"}
        ctx.ob("C04.K5.container-literal-constructors-agree", nm, bool(a) and a == b,
               "folder builds %s, VM %s builds %s" % (sorted(a), instr, sorted(b)), f.loc)
    ctx.count("interpreter arms summarised", len(vm_regs))

    # ---- K7: literal keyword arguments.  The code generator collects all-literal kwargs into one constant object
    # instead of emitting code for them; whichever way a call is compiled, every keyword argument must contribute:
    # on each path through its arm of the emitting loop its value is either compiled or put into the constant map.
    cca = prog.fn("minijinja::compiler::codegen::CodeGenerator::compile_call_args")
    CALLARG = "minijinja::compiler::ast::CallArg"
    n7 = 0
    for sb, cd in arms.enum_switches(prog, cca, CALLARG):
        regs = arms.arm_regions(prog, cca, sb, CALLARG)
        emitting = any(c.name == COMPILE_EXPR for c in arms.calls_in(cca, regs.get("KwargSplat", set())))
        if not emitting:
            continue
        n7 += 1
        reg = regs.get("Kwarg", set())
        events = {c.bb for c in arms.calls_in(cca, reg) if c.name == COMPILE_EXPR or c.name.split("::")[-1] == "insert"}
        entry = [x for v, x in arms.variant_targets(prog, cca, sb, CALLARG).items() if v == "Kwarg"]
        exits = {t for b in reg for t in cca.succ[b] if t not in reg}
        ok = bool(entry) and all(cfg.paths_must_pass(cca, e, events, exits) for e in entry)
        ctx.ob("C04.K7.every-kwarg-contributes", cca.path, ok,
               "a path through the keyword-argument arm of the emitting loop neither compiles the value nor stores "
               "its constant: the argument silently disappears from the call for some literal forms", cca.where(sb))
    ctx.floor("C04.K7 emitting loops over call arguments", n7, 1)

    # ---- K8: the operands the interpreter sees are the values of the operand expressions.  In compile_bin_op and
    # compile_compare every path to a return compiles each operand expression with compile_expr; an operand replaced
    # by something else for some literal shapes (a pre-built lookup table, a normalised constant) makes the operator
    # see a different value than the same operand held in a variable.
    for fn_name, fields in (("compile_bin_op", ("left", "right")), ("compile_compare", ("expr",))):
        g8 = prog.view("minijinja::compiler::codegen::CodeGenerator::" + fn_name,
                       keep=lambda t: t.rsplit("::", 1)[-1] in _KEEP_CG or not t.startswith("minijinja::compiler::codegen::"), max_blocks=60)
        for fld in fields:
            sites = {c.bb for c in g8.calls() if c.name == COMPILE_EXPR and len(c.args) > 1 and any(
                fld in o.proj for o in flow.origins(g8, c.args[1]))}
            ctx.ob("C04.K8.operand-is-compiled-as-an-expression", "%s|%s" % (fn_name, fld),
                   bool(sites) and cfg.paths_must_pass(g8, 0, sites, g8.returns()),
                   "a path through %s reaches its end without compile_expr on the `%s` operand: for some literal shapes "
                   "the operator is given something other than the value of that operand expression" % (fn_name, fld), g8.loc)
    # in compile_compare each further link's operand is compiled in the loop over `ops`
    gcc = prog.fn("minijinja::compiler::codegen::CodeGenerator::compile_compare")
    link_sites = {c.bb for c in gcc.calls() if c.name == COMPILE_EXPR and len(c.args) > 1 and any(
        "as Some" in o.proj and "expr" in o.proj for o in flow.origins(gcc, c.args[1]))}
    nexts_ = [c for c in gcc.calls() if c.name.endswith("::next")]
    ok_link = False
    for c in nexts_:
        sp = errflow.result_split(gcc, c.dest["l"]) if c.dest is not None and "p" not in c.dest else None
        for (sb, none_t, some_t, other, adt) in (sp.switches if sp else []):
            if some_t and link_sites and all(cfg.paths_must_pass(gcc, st_, link_sites, [c.bb]) for st_ in some_t):
                ok_link = True
    ctx.ob("C04.K8.operand-is-compiled-as-an-expression", "compile_compare|ops[].expr", ok_link,
           "an iteration over the links of a comparison chain can skip compile_expr on the link's operand", gcc.loc)

    # ---- K6: unary minus and comparison chains
    ac = _ac(prog)
    UNOP = "minijinja::compiler::ast::UnaryOpKind"
    usw = arms.enum_switches(prog, ac, UNOP)
    ctx.need(usw, "C04.K6: as_const has no switch on UnaryOpKind")
    uregs = arms.arm_regions(prog, ac, usw[0][0], UNOP)

    def region_sem(f, reg):
        names = {s for s, _ in sem_calls(f, reg)}
        for bb, i, st in f.all_stmts():
            if bb in reg and st["k"] == "assign" and st["rv"].get("k") == "agg" and st["rv"].get("closure"):
                from ..facts import norm_path
                g = prog.fns.get(norm_path(st["rv"]["closure"]))
                if g is not None:
                    names |= {s for s, _ in sem_calls(g, g.reachable)}
        return names
    fneg = region_sem(ac, uregs.get("Neg", set()))
    vneg = {s for s, _ in vm_tab.get("Neg", ([], False))[0]}
    ceneg = {sem_name(c) for c in ce.calls()} & {"neg"}
    ctx.ob("C04.K6.unary-minus-agrees", "UnaryOpKind::Neg", fneg == {"neg"} and vneg == {"neg"} and ceneg == {"neg"},
           "folder arm calls %s, compile_expr's literal fast path calls %s, the interpreter's Neg arm calls %s: all "
           "three must be ops::neg alone" % (sorted(fneg), sorted(ceneg), sorted(vneg)), ac.loc)
    # comparison chain: a op1 b op2 c  ==  (a op1 b) and (b op2 c), false as soon as one link is false
    chain = ac.calls_to(EVAL_COMPARE)
    ctx.floor("C04.K6 eval_compare call in as_const", len(chain), 1)
    for c in chain:
        def srcs(op):
            thru = lambda k: 0 if (k.name.endswith("Try>::branch") or k.name.endswith("::deref") or k.name.endswith("::clone")) else None
            return {(o.call.name.split("::")[-1], o.call.bb) for o in flow.origins(ac, op, through_calls=thru) if o.kind == "call"}
        l, r = srcs(c.args[1]), srcs(c.args[2])
        ctx.ob("C04.K6.chain-compares-neighbours", AS_CONST, bool(r) and r < l,
               "the left operand of each link must be the head expression or the previous link's right operand "
               "(`left = right`): left comes from %s, right from %s" % (sorted(l), sorted(r)), ac.where(c.bb))
        # the link's result decides through is_true; the deciding-false side returns a constant false
        ok = False
        detail = "no is_true test on the link result"
        for t in ac.calls_to("minijinja::value::Value::is_true"):
            if not any(o.kind == "call" and o.call is c for o in flow.origins(
                    ac, t.args[0], through_calls=lambda k: 0 if ("branch" in k.name or "deref" in k.name) else None)):
                continue
            for sb in ac.reachable:
                if ac.term(sb)["k"] != "switch":
                    continue
                cd = flow.cond_of(ac, sb)
                if cd.kind == "call" and cd.call is t:
                    fs = cfg.bool_edges(ac, sb, cd.neg)      # edges taken when is_true() is false
                    fblocks = set()
                    for e in fs:
                        fblocks |= cfg.reach_from(ac, e[1])
                    consts = []
                    for k in ac.calls():
                        if k.bb in fblocks and "From<bool> for minijinja::value::Value" in k.name:
                            consts += [o.const.get("int", o.const.get("bool")) for o in flow.origins(ac, k.args[0]) if o.kind == "const"]
                    ok = c.bb not in fblocks and bool(consts) and all(str(x).lower() in ("0", "false") for x in consts)
                    detail = "after a false link: next link reachable=%s, value returned is the constant %s" % (c.bb in fblocks, consts)
        if not ok:
            # the verdict of a link may travel as a value (an outcome enum built in a helper, matched by the caller): walk
            # the paths with the variants known.  After a link that is not true no further link is evaluated and every
            # bool the folder builds on the way out is the constant false.
            from .. import typestate
            tcalls = {t.bb for t in ac.calls_to("minijinja::value::Value::is_true") if any(
                o.kind == "call" and o.call is c for o in flow.origins(
                    ac, t.args[0], through_calls=lambda k: 0 if ("branch" in k.name or "deref" in k.name) else None))}

            def on_call(k, st, val):
                if k.bb in tcalls:
                    return [("T", ("B", "1")), ("F", ("B", "0"))]
                return None
            if tcalls:
                wr = typestate.explore(prog, ac, "T", on_call)
                fblocks = {b for (b, st_) in wr.visited_states if st_ == "F"} - tcalls
                consts = []
                for k in ac.calls():
                    if k.bb in fblocks and "From<bool> for minijinja::value::Value" in k.name:
                        consts += [o.const.get("int", o.const.get("bool")) for o in flow.origins(ac, k.args[0]) if o.kind == "const"] or ["?"]
                ok = not wr.budget_hit and c.bb not in fblocks and bool(consts) and all(str(x).lower() in ("0", "false") for x in consts)
                detail = "walked with the verdict known - after a false link: next link reachable=%s, bools built: %s" % (c.bb in fblocks, consts)
        if not ok:
            # the link evaluator may answer with the verdict itself (`compare_holds(..) -> Option<bool>`): the switch then
            # tests the bool that comes out of `?` directly
            for sb in sorted(ac.reachable):
                t_ = ac.term(sb)
                if t_["k"] != "switch" or t_.get("ty") != "bool" or "c" in t_["discr"]:
                    continue
                cd = flow.cond_of(ac, sb)
                src = flow.origins(ac, t_["discr"], through_calls=lambda k: 0 if ("branch" in k.name or "deref" in k.name) else None)
                if not any(o.kind == "call" and o.call is c for o in src):
                    continue
                fblocks = set()
                for e in cfg.bool_edges(ac, sb, cd.neg):
                    fblocks |= cfg.reach_from(ac, e[1])
                consts = []
                for k in ac.calls():
                    if k.bb in fblocks and "From<bool> for minijinja::value::Value" in k.name:
                        consts += [o.const.get("int", o.const.get("bool")) for o in flow.origins(ac, k.args[0]) if o.kind == "const"] or ["?"]
                ok = c.bb not in fblocks and bool(consts) and all(str(x).lower() in ("0", "false") for x in consts)
                detail = "the link answers with a bool - after a false link: next link reachable=%s, value returned is the constant %s" % (c.bb in fblocks, consts)
        ctx.ob("C04.K6.chain-stops-at-first-false-link", AS_CONST, ok, detail, ac.where(c.bb))


def _shape(s):
    if "Tuple" in s:
        return "tuple"
    if "IndexMap" in s or "BTreeMap" in s or "ValueMap" in s:
        return "map"
    if "Vec<" in s:
        return "vec"
    return "other"
