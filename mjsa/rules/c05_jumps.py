"""C05.B8 — every value the interpreter assigns to its program counter is a position in the instructions it is running.

The interpreter is one loop over `state.instructions.get(pc)`.  Jump operands of the running instruction, constants and
`pc + k` are positions of the running instructions by construction (the code generator patches every jump target inside
the instruction vector it builds, C05.B1).  Any other value is *remembered*: it was computed at one time and is used at
another, and it is a position in whichever instructions were running when it was computed.  Two kinds exist:

  return address   `current_recursion_jump`, kept in the loop frame the same evaluation pushed and pops (B1/B3 balance):
                   accepted when every producer of the field is `pc + k` of an interpreter or a constant;
  object field     `recurse_jump_target` of a loop object.  The object is a template value: it can be passed to an
                   imported macro, seen from an included template or from a block body, all of which run other
                   instructions with the same context.  Such a jump must be dominated by a comparison of the identity of
                   the running instructions (something derived from `state.instructions`) with a sibling field of the
                   same object, and every producer of the field must pair the position with the identity of the
                   instructions of the interpreter that supplied the position.

(found as a defect of the unchanged tree: `loop(...)` from an included template, a nested block or an imported macro
jumped into foreign instructions - wrong output, endless evaluation, panics on a missing loop frame; fix 0331a27.)
"""
from .. import cfg, flow
from ..facts import op_place

IGET = "minijinja::compiler::instructions::Instructions::get"
RULE = "C05.B8.jump-target-belongs-to-the-running-instructions"
PROD = "C05.B8.remembered-position-is-stored-with-its-instructions"


def _named_base(f, op):
    """the user-named local an operand is a plain copy of (through unnamed temporaries)"""
    if "c" in op:
        return None
    p = op_place(op)
    l = p["l"]
    for _ in range(6):
        if p.get("p"):
            return None
        if f.local_name(l):
            return l
        ds = flow.whole_defs(f, l)
        if len(ds) != 1 or ds[0].kind != "stmt" or ds[0].rv["k"] != "use" or "c" in ds[0].rv["op"]:
            return None
        p = op_place(ds[0].rv["op"])
        l = p["l"]
    return None


def interpreters(prog):
    """[(Fn, pc_local)]: functions that fetch the running instruction by a counter they also assign to"""
    out = []
    for f in prog.fns.values():
        if f.kind == "closure":
            continue
        for c in f.calls():
            if c.name != IGET or len(c.args) != 2:
                continue
            if not any(o.kind == "arg" and o.proj and o.proj[-1] == "instructions" for o in flow.origins(f, c.args[0])):
                continue
            l = _named_base(f, c.args[1])
            if l is not None and len([d for d in flow.whole_defs(f, l) if d.kind == "stmt"]) > 1:
                out.append((f, l))
    return out


def _is_pc_plus_const(f, pc, rv):
    if rv.get("k") != "bin" or rv.get("op") not in ("Add", "AddWithOverflow", "AddUnchecked"):
        return False
    a, b = rv.get("a"), rv.get("b")
    for x, y in ((a, b), (b, a)):
        if x is not None and y is not None and "c" in y and "c" not in x and _named_base(f, x) == pc:
            return True
    return False


def _field_of(o):
    """(field name, projection after it) of the innermost named struct field an origin was read through"""
    pr = list(o.proj)
    for i in range(len(pr) - 1, -1, -1):
        n = pr[i]
        if not n.isdigit() and not n.startswith("as ") and n not in ("ptr", "pointer"):
            return n, tuple(pr[i + 1:])
    return None, ()


def _base_key(o):
    return (o.kind, o.bb, o.arg, o.call.name if o.call else None)


def _identity_guard(prog, f, bb, val_origins):
    """a dominating == / != between something derived from the running instructions and a sibling of the jump value"""
    for sbb, labels in flow.guards(f, bb):
        c = flow.cond_of(f, sbb)
        if c.kind == "call" and prog.has_fn(c.call.name) and _helper_guard(prog, f, c, labels, val_origins):
            return sbb
        if c.kind != "bin" or c.rv.get("op") not in ("Eq", "Ne"):
            continue
        eq_side = (labels <= {"0"}) if c.rv["op"] == "Ne" else ("0" not in labels)
        if c.neg:
            eq_side = not eq_side
        if not eq_side:
            continue
        sides = [flow.origins(f, c.rv["a"], through_calls=flow._xpass), flow.origins(f, c.rv["b"], through_calls=flow._xpass)]
        for me, other in ((0, 1), (1, 0)):
            ident = any(o.kind == "arg" and "instructions" in o.proj for o in sides[me])
            if not ident:
                continue
            for vo in val_origins:
                fld, _ = _field_of(vo)
                for so in sides[other]:
                    sf, _ = _field_of(so)
                    if _base_key(so) == _base_key(vo) and sf == fld and fld is not None:
                        return sbb
    return None


def _helper_guard(prog, f, c, labels, val_origins):
    """the comparison lives in a helper: `if !Self::runs_instructions(state, id) { bail }`.  The helper returns the
    result of an == / != between something derived from `.instructions` of one parameter and another parameter; the
    call passes a sibling of the jump value for the latter, and the jump sits on the helper's 'equal' side."""
    g = prog.fn(c.call.name)
    if g.kind == "closure" or not g.raw.get("blocks"):
        return False
    for o in flow.origins(g, 0):
        if o.kind != "bin" or o.rv.get("op") not in ("Eq", "Ne"):
            continue
        sides = [flow.origins(g, o.rv["a"]), flow.origins(g, o.rv["b"])]
        for me, other in ((0, 1), (1, 0)):
            if not any(x.kind == "arg" and "instructions" in x.proj for x in sides[me]):
                continue
            params = [x.arg for x in sides[other] if x.kind == "arg" and not x.proj]
            if len(params) != 1 or params[0] > len(c.call.args):
                continue
            passed = flow.origins(f, c.call.args[params[0] - 1], through_calls=flow._xpass)
            sib = False
            for vo in val_origins:
                fld, _ = _field_of(vo)
                for so in passed:
                    sf, _ = _field_of(so)
                    if fld is not None and sf == fld and _base_key(so) == _base_key(vo):
                        sib = True
            if not sib:
                continue
            truth = flow.bool_true_labels(labels)
            if truth is None:
                continue
            truth = truth != c.neg
            equal_when = (o.rv["op"] == "Eq")
            if truth == equal_when:
                return True
    return False


def check_jumps(ctx, prog, tag):
    ints = interpreters(prog)
    ctx.floor("C05.B8 interpreter loops (fetch by counter)" + tag, len(ints), 1)
    pcs = {f.path: l for f, l in ints}
    ndefs = 0
    nrem = 0
    for f, pc in ints:
        short = f.path.split("::")[-1]
        ordn = {}
        for d in flow.whole_defs(f, pc):
            if d.kind != "stmt":
                continue
            ndefs += 1
            rv = d.rv
            if _is_pc_plus_const(f, pc, rv):
                ctx.ob(RULE, "%s%s|next" % (tag, short), True, "", f.where(d.bb))
                continue
            if rv["k"] != "use":
                ctx.ob(RULE, "%s%s|computed:%s" % (tag, short, rv["k"]), False,
                       "the program counter is assigned a computed value (%s)" % rv["k"], f.where(d.bb))
                continue
            os_ = flow.origins(f, rv["op"], through_calls=flow._xpass)
            remembered = []
            for o in os_:
                if o.kind == "const":
                    continue
                if o.kind == "bin" and _is_pc_plus_const(f, pc, o.rv):
                    continue
                if o.kind == "call" and o.call.name == IGET and any(
                        x.kind == "arg" and x.proj and x.proj[-1] == "instructions" for x in flow.origins(f, o.call.args[0])) \
                        and any(p.startswith("as ") and p != "as Some" for p in o.proj):
                    continue        # a jump operand of the instruction just fetched from the running instructions
                remembered.append(o)
            if not remembered:
                kinds = sorted({("operand:" + [p for p in o.proj if p.startswith("as ") and p != "as Some"][0][3:])
                                if o.kind == "call" else ("const" if o.kind == "const" else "next") for o in os_})
                ctx.ob(RULE, "%s%s|%s" % (tag, short, "+".join(kinds)), True, "", f.where(d.bb))
                continue
            nrem += 1
            fld, rest = _field_of(remembered[0])
            key = "%s%s|remembered:%s" % (tag, short, fld or "?")
            ordn[key] = ordn.get(key, 0) + 1
            inst = key + ("#%d" % ordn[key] if ordn[key] > 1 else "")
            if fld is None:
                ctx.ob(RULE, inst, False, "the program counter is assigned a value of unknown provenance: %s" % remembered,
                       f.where(d.bb))
                continue
            g = _identity_guard(prog, f, d.bb, remembered)
            prods = flow.field_producers(prog, fld)
            if g is not None:
                ctx.ob(RULE, inst, True, "guarded by the instructions-identity comparison in bb%d" % g, f.where(d.bb))
                _check_paired_producers(ctx, prog, tag, fld, rest, prods, pcs)
                continue
            # no identity guard: acceptable only for a return address, i.e. when every producer is pc + k (or a constant)
            bad = []
            n = 0
            for (pf, pbb, adt, op, call) in prods:
                if op is None:
                    bad.append("%s: assigned from %s" % (pf.path, call.name if call else "a computed value"))
                    continue
                if "c" in op:
                    continue
                p = op_place(op)
                for (lf, lo) in flow.xorigins(prog, pf, flow._fake_operand(p["l"], flow._proj_names(p) + rest)):
                    n += 1
                    if lo.kind == "const":
                        continue
                    if lo.kind == "bin" and lf.path in pcs and _is_pc_plus_const(lf, pcs[lf.path], lo.rv) and lf.path == f.path:
                        continue
                    bad.append("%s: %r" % (lf.path.split("::")[-1], lo))
            ok = bool(prods) and n > 0 and not bad
            ctx.ob(RULE, inst, ok,
                   "the program counter is assigned a position remembered in `%s` without comparing the identity of the "
                   "running instructions with the instructions the position belongs to; the value is not merely a return "
                   "address of this evaluation (%s): code running other instructions with access to the value (an "
                   "included template, a block body, an imported macro) jumps to that position in its own instructions"
                   % (fld, "; ".join(bad[:4]) or "no producer found"), f.where(d.bb))
    ctx.floor("C05.B8 program counter assignments" + tag, ndefs, 8)
    ctx.floor("C05.B8 remembered positions" + tag, nrem, 2)


def _check_paired_producers(ctx, prog, tag, fld, rest, prods, pcs):
    """the field is a (identity, position) pair: where it is built, the identity is that of `state.instructions` of the
    function that was handed the position, and every caller hands over its own state and its own program counter"""
    done = getattr(ctx, "_b8_done", None)
    if done is None:
        done = ctx._b8_done = set()
    if (tag, fld) in done:
        return
    done.add((tag, fld))
    n = 0
    for (pf, pbb, adt, op, call) in prods:
        if op is None or "c" in op:
            continue
        p = op_place(op)
        # look at the pair itself: strip the last projection (the position's index in the pair)
        pair_proj = rest[:-1]
        for (lf, lo) in flow.xorigins(prog, pf, flow._fake_operand(p["l"], flow._proj_names(p) + pair_proj), depth=2):
            if lo.kind == "agg" and lo.rv.get("variant") == "None":
                continue
            n += 1
            inst = "%s%s|%s" % (tag, lf.path.split("::")[-1], fld)
            if lo.kind != "agg" or lo.rv.get("agg") != "tuple" or len(lo.rv["ops"]) != 2:
                ctx.ob(PROD, inst, False, "`%s` is given a value that is not an (instructions identity, position) pair "
                       "built in place: %r" % (fld, lo), lf.where(lo.bb) if lo.bb is not None else lf.loc)
                continue
            sides = [flow.origins(lf, o_) for o_ in lo.rv["ops"]]
            ident = [i for i in (0, 1) if any(o.kind == "arg" and "instructions" in o.proj for o in sides[i])]
            if len(ident) != 1:
                ctx.ob(PROD, inst, False, "the pair stored in `%s` does not contain the identity of `state.instructions`" % fld,
                       lf.where(lo.bb))
                continue
            st_arg = [o.arg for o in sides[ident[0]] if o.kind == "arg"][0]
            pos = sides[1 - ident[0]]
            pos_args = [o.arg for o in pos if o.kind == "arg" and not o.proj]
            if lf.path in pcs:
                ok = all(_named_base(lf, lo.rv["ops"][1 - ident[0]]) == pcs[lf.path] for _ in (0,))
                ctx.ob(PROD, inst, ok, "position is not the interpreter's own counter", lf.where(lo.bb))
                continue
            if len(pos_args) != 1 or len(pos) != 1:
                ctx.ob(PROD, inst, False, "the position stored in `%s` is not a parameter handed in by the interpreter: %r"
                       % (fld, pos), lf.where(lo.bb))
                continue
            sites = prog.callers().get(lf.path, [])
            bad = []
            for c in sites:
                cf = c.fn
                if cf.path not in pcs:
                    bad.append("%s is not an interpreter loop" % cf.path.split("::")[-1])
                    continue
                if _named_base(cf, c.args[pos_args[0] - 1]) != pcs[cf.path]:
                    bad.append("%s passes something else than its program counter" % cf.path.split("::")[-1])
                so = flow.origins(cf, c.args[st_arg - 1])
                io = [o for x in cf.calls_to(IGET) for o in flow.origins(cf, x.args[0])]
                if not ({(o.kind, o.arg) for o in so} & {(o.kind, o.arg) for o in io}):
                    bad.append("%s passes another state than the one it runs" % cf.path.split("::")[-1])
            ctx.ob(PROD, inst, bool(sites) and not bad, "; ".join(bad) or "no caller", lf.where(lo.bb))
    ctx.floor("C05.B8 (identity, position) pairs built" + tag, n, 1)
