"""C16 — (clause) tojson output contains none of the characters < > & '.

Round trip of composite values through serde and JSON validity are value-level and NOT decided.  Decided structurally
(T2 re-entrant serialization scope, T3/T4 scalar payloads cross the bridge unchanged: see the functions below):
 T1 in `filters::tojson` the only value returned on success is `Value::from_safe_string(buf)` where `buf` is a fresh
    String that is written exclusively inside the per-character loop over the serialised JSON: a `match` on the
    character whose listed arms cover '<', '>', '&', '\\'' and push constants free of these characters, and whose
    default arm pushes the matched character itself.  Both formatter branches (compact / pretty) flow into that same
    closure.
"""
from .. import cfg, flow, errflow, query
from ..facts import op_place, norm_path

TOJSON = "minijinja::filters::builtins::tojson"
FORBIDDEN = {ord("<"): "<", ord(">"): ">", ord("&"): "&", ord("'"): "'"}
SAFE = "minijinja::value::Value::from_safe_string"




def _clean_piece_of_a_split(f, c, forbidden):
    """`buf.push_str(&rest[..idx])` with `Some(idx) = rest.find(PATTERN)`, or `buf.push_str(rest)` where
    `rest.find(PATTERN)` just returned None: the piece holds none of PATTERN's characters, and PATTERN lists every
    forbidden one"""
    finds = [k for k in f.calls() if k.name == "core::str::<impl str>::find" and len(k.args) > 1
             and set(forbidden) <= flow.const_char_set(f, k.args[1])]
    if not finds:
        return False
    arg = c.args[1]

    def base_local(op):
        ls = set()
        for o in flow.origins(f, op, through_calls=lambda k: None):
            pass
        p = op_place(op)
        seen = 0
        while p is not None and seen < 8:
            seen += 1
            ds = [d for d in flow.whole_defs(f, p["l"]) if d.kind == "stmt"]
            if len(ds) == 1 and ds[0].rv["k"] in ("ref", "use"):
                q = ds[0].rv.get("place") or op_place(ds[0].rv.get("op", {}))
                if q is None:
                    break
                if len(flow.whole_defs(f, q["l"])) > 1 or q["l"] <= f.argc:
                    return q["l"]
                p = q
            else:
                break
        return p["l"] if p is not None else None
    for o in flow.origins(f, arg):
        ok = False
        if o.kind == "call" and o.call.name.endswith("Index<I> for str>::index") and len(o.call.args) > 1:
            # rest[..idx]
            for r in flow.origins(f, o.call.args[1]):
                if r.kind == "agg" and (r.rv.get("adt") or "").endswith("range::RangeTo") and r.rv["ops"]:
                    for e in flow.origins(f, r.rv["ops"][0]):
                        if e.kind == "call" and e.call in finds and base_local(e.call.args[0]) == base_local(o.call.args[0]) \
                                and cfg.dominates(f, e.call.bb, c.bb):
                            ok = True
        if not ok:
            # the rest itself, on the None side of the search
            b = base_local(arg)
            for k in finds:
                if base_local(k.args[0]) != b or k.dest is None:
                    continue
                sp = errflow.result_split(f, k.dest["l"]) if "p" not in k.dest else None
                for (sb, none_t, some_t, other, adt) in (sp.switches if sp else []):
                    starts = set(none_t or {other})
                    if starts and all(cfg.dominates(f, st_, c.bb) for st_ in starts):
                        ok = True
        if not ok:
            return False
    return True


def check_char_filter(ctx, prog, f, rule, label, forbidden, safe=SAFE):
    """f: function/closure that builds a String char by char; returns True when structurally filtered"""
    safe_calls = f.calls_to(safe)
    ok_all = True
    for sc in safe_calls:
        src = flow.origins(f, sc.args[0])
        bufs = set()
        for o in src:
            if o.kind == "call" and o.call.name in ("alloc::string::String::with_capacity", "alloc::string::String::new"):
                bufs.add(o.call.dest["l"])
            else:
                ctx.ob(rule + ".result-is-the-filtered-buffer", label, False,
                       "the safe string returned is %r, not the buffer filled by the filter loop" % o, f.where(sc.bb))
                ok_all = False
        for buf in bufs:
            # every mutation of buf
            for c in f.calls():
                if not c.args:
                    continue
                p = op_place(c.args[0])
                if p is None:
                    continue
                tgt = set()
                for d in flow.whole_defs(f, p["l"]):
                    if d.kind == "stmt" and d.rv["k"] == "ref" and d.rv.get("mut"):
                        tgt.add(d.rv["place"]["l"])
                if buf not in tgt:
                    continue
                nm = c.name
                if nm == "alloc::string::String::push_str":
                    s = flow.const_str(c.args[1], f)
                    if s is None:
                        # one of several constants (`push_str(match b { b'<' => "..", .. })`): all of them are checked
                        cs_ = [flow.const_str({"c": o.const}, f) if o.kind == "const" else None for o in flow.origins(f, c.args[1])]
                        if cs_ and all(x is not None for x in cs_):
                            s = "".join(cs_)
                    if s is None and _clean_piece_of_a_split(f, c, forbidden):
                        ctx.ob(rule + ".replacement-is-clean", "%s|push_str(<piece before the next forbidden character>)" % label, True,
                               "", f.where(c.bb))
                        continue
                    bad = s is None or any(ch in s for ch in forbidden.values())
                    ctx.ob(rule + ".replacement-is-clean", "%s|push_str(%r)" % (label, s), not bad,
                           "replacement text %r contains a forbidden character (or is not a constant)" % s, f.where(c.bb))
                    ok_all &= not bad
                elif nm == "alloc::string::String::push":
                    # must sit in the default arm of a switch on that very character which lists all forbidden ones
                    good = False
                    ch_or = {o.key() for o in flow.origins(f, c.args[1])}
                    for (sb, taken) in flow.guards(f, c.bb):
                        t = f.term(sb)
                        d = op_place(t["discr"])
                        if d is None:
                            continue
                        if not ({o.key() for o in flow.origins(f, t["discr"])} & ch_or):
                            continue
                        listed = {int(v) for v, _ in t["arms"]}
                        if set(taken) == {"otherwise"} and set(forbidden) <= listed:
                            good = True
                        else:
                            missing = [forbidden[k] for k in forbidden if k not in listed]
                            ctx.sample({"rule": rule, "missing": missing})
                    ctx.ob(rule + ".raw-char-only-in-default-arm", "%s|push" % label, good,
                           "the character is copied unchanged on a path that does not exclude all of %s"
                           % sorted(forbidden.values()), f.where(c.bb))
                    ok_all &= good
                else:
                    ctx.ob(rule + ".buffer-mutated-only-by-push", "%s|%s" % (label, nm), False,
                           "unmodelled write into the result buffer", f.where(c.bb))
                    ok_all = False
    return ok_all, len(safe_calls)


GUARD = "minijinja::value::InternalSerializationGuard"
VREPR = "minijinja::value::ValueRepr"


def check_serialization_scope(ctx, prog, tag):
    """T2: values embedded in serialised data come back as the same values only while the thread-local
    INTERNAL_SERIALIZATION flag is true; conversions nest (a Serialize impl may itself convert), so the scope must be
    re-entrant: the site that sets the flag captures the previous value into its guard, and the guard's drop clears
    the flag only as that captured value dictates."""
    if not prog.has_fn("minijinja::value::serializing_for_value"):
        ctx.count("configs without serde")
        return
    n = 0
    for f in prog.fns.values():
        if f.crate != "minijinja":
            continue
        for c in f.calls():
            if c.name not in ("core::cell::Cell::replace", "core::cell::Cell::set") or len(c.args) < 2:
                continue
            p0 = op_place(c.args[0])
            if p0 is None or not f.locals[p0["l"]].get("s", "").endswith("core::cell::Cell<bool>"):
                continue
            if (c.args[1].get("c") or {}).get("int") != "1":
                continue
            n += 1
            # the previous value: result of this replace(), or a Cell::get on the same cell that dominates the set
            prev_calls = [c] if c.name.endswith("::replace") else [
                k for k in f.calls() if k.name == "core::cell::Cell::get" and cfg.dominates(f, k.bb, c.bb)]
            captured = False
            for bb, i, st in f.all_stmts():
                rv = st.get("rv", {})
                if rv.get("k") == "agg" and rv.get("adt") == GUARD:
                    for o in rv["ops"]:
                        for src in flow.origins(f, o):
                            if src.kind == "call" and any(src.call is k for k in prev_calls):
                                captured = True
                            if src.kind == "un":
                                for s2 in flow.origins(f, src.rv["op"] if "op" in src.rv and isinstance(src.rv["op"], dict) else src.rv.get("a", {})):
                                    if s2.kind == "call" and any(s2.call is k for k in prev_calls):
                                        captured = True
            ctx.ob("C16.T2.serialization-scope-captures-previous-state", tag + f.path, captured,
                   "the flag is set to true without its previous value reaching the guard: when conversions nest, the "
                   "inner guard clears the flag for the rest of the outer conversion and embedded values (safe "
                   "strings, undefined, objects) stop round-tripping", f.where(c.bb))
    ctx.floor("C16.T2 sites entering the serialization scope" + tag, n, 1)
    drops = [f for f in prog.fns.values() if GUARD.split("::")[-1] in f.path and f.path.endswith("core::ops::drop::Drop>::drop")]
    ctx.floor("C16.T2 guard drop impl" + tag, len(drops), 1)
    for d in drops:
        for c in d.calls():
            if c.name != "core::cell::Cell::set":
                continue
            v = (c.args[1].get("c") or {}).get("int")
            if v is None:
                src = flow.origins(d, c.args[1])
                ok = bool(src) and all(o.kind == "arg" and o.proj for o in src)      # writes back a saved field
            else:
                ok = False
                for (sb, taken) in flow.guards(d, c.bb):
                    cd = flow.cond_of(d, sb)
                    if cd.kind == "local" and cd.place is not None and any(
                            isinstance(e, dict) and e.get("of") == GUARD for e in cd.place.get("p", [])):
                        ok = True
            ctx.ob("C16.T2.guard-drop-follows-captured-state", tag + d.path, ok,
                   "the guard clears the flag unconditionally: an inner (nested) conversion ends the outer scope",
                   d.where(c.bb))


def _roots_are_arg(f, op, argno, depth=0):
    """every root of the operand, looking through casts and wrapper aggregates, is parameter `argno`"""
    src = flow.origins(f, op)
    if not src or depth > 4:
        return False
    for o in src:
        if o.kind == "arg":
            if o.arg != argno:
                return False
        elif o.kind == "cast":
            if not _roots_are_arg(f, o.rv["op"], argno, depth + 1):
                return False
        elif o.kind == "call" and "core::convert::num::<impl core::convert::From<" in o.call.name and o.call.name.endswith("::from"):
            # std only implements From between integer / float types when the conversion is lossless
            if not _roots_are_arg(f, o.call.args[0], argno, depth + 1):
                return False
        elif o.kind == "agg" and len(o.rv["ops"]) == 1:
            if not _roots_are_arg(f, o.rv["ops"][0], argno, depth + 1):
                return False
        else:
            return False
    return True


SCALARS = {"Bool": "bool", "U64": "u64", "I64": "i64", "F64": "f64", "U128": "u128", "I128": "i128"}


def check_scalar_tables(ctx, prog, tag):
    """T3/T4: scalar payloads pass through the serde bridge unchanged.  Serializer: serialize_<scalar>(v) builds the
    variant from `v` through widening casts only.  Deserializer: the deserialize_any arm of each scalar variant hands
    exactly its payload to the visitor (the visitor method's parameter type is enforced by the compiler), with no
    cast or arithmetic in between."""
    ser = {p: f for p, f in prog.fns.items() if "ValueSerializer" in p and "::serialize_" in p and f.crate == "minijinja"}
    if not ser:
        return
    n = 0
    for p, f in sorted(ser.items()):
        nm = p.split("::")[-1]
        if nm[len("serialize_"):] not in ("bool", "i8", "i16", "i32", "i64", "i128", "u8", "u16", "u32", "u64", "u128", "f32", "f64"):
            continue
        n += 1
        bad = []
        # a narrow method may delegate to the widest one of its family (`serialize_i8` -> `serialize_i64(i64::from(v))`):
        # sibling methods of the serializer are read as part of the method
        from .. import inline
        f = inline.view(prog, f, keep=lambda t: not ("ValueSerializer" in t and "::serialize_" in t), allow_pub=True)
        for bb, i, st in f.all_stmts():
            rv = st.get("rv", {})
            if rv.get("k") == "cast":
                frm, to = rv.get("from"), rv.get("to")
                if rv["kind"] == "IntToInt" and query.lossy_int_cast(frm, to):
                    bad.append("%s as %s" % (frm, to))
                elif rv["kind"] == "FloatToFloat" and (frm, to) != ("f32", "f64"):
                    bad.append("%s as %s" % (frm, to))
                elif rv["kind"] in ("FloatToInt", "IntToFloat"):
                    bad.append("%s as %s" % (frm, to))
            if rv.get("k") == "bin":
                bad.append("arithmetic %s" % rv["op"])
        built = [st["rv"].get("variant") for bb, i, st in f.all_stmts() if st.get("rv", {}).get("k") == "agg" and st["rv"].get("adt") == VREPR]
        from_arg = False
        for bb, i, st in f.all_stmts():
            rv = st.get("rv", {})
            if rv.get("k") == "agg" and rv.get("adt") == VREPR and rv["ops"]:
                from_arg = _roots_are_arg(f, rv["ops"][0], 2)
        ctx.ob("C16.T3.scalar-serialised-unchanged", tag + nm, not bad and len(built) == 1 and from_arg,
               "%s builds %s with %s" % (nm, built, bad or "a payload that is not its argument"), f.loc)
    ctx.floor("C16.T3 scalar serializer methods" + tag, n, 13)
    da = [f for p, f in prog.fns.items() if p.endswith("for minijinja::value::Value>::deserialize_any") and "deserialize" in p]
    if not da:
        ctx.count("configs without deserialization")
        return
    f = da[0]
    from .. import arms
    sw = arms.enum_switches(prog, f, VREPR)
    ctx.need(sw, "C16.T4: deserialize_any has no switch on ValueRepr")
    regs = arms.arm_regions(prog, f, sw[0][0], VREPR)
    m = 0
    for v, ty in SCALARS.items():
        reg = regs.get(v, set())
        vis = [c for c in f.calls() if c.bb in reg and "::visit_" in c.name]
        ok = len(vis) == 1 and vis[0].name.split("::")[-1] == "visit_" + ty
        if ok:
            src = flow.origins(f, vis[0].args[1])
            ok = bool(src) and all(o.kind == "arg" and ("as " + v) in o.proj for o in src)
        m += 1
        ctx.ob("C16.T4.scalar-deserialised-unchanged", tag + v, ok,
               "the %s arm of deserialize_any must hand its own payload to visit_%s (found %s)" % (
                   v, ty, [c.name.split("::")[-1] for c in vis]), f.where(sw[0][0]))
    for v, want in (("String", ("visit_str", "visit_string", "visit_borrowed_str")),
                    ("SmallStr", ("visit_str", "visit_string", "visit_borrowed_str")),
                    ("Bytes", ("visit_bytes", "visit_byte_buf", "visit_borrowed_bytes"))):
        reg = regs.get(v, set())
        vis = [c for c in f.calls() if c.bb in reg and "::visit_" in c.name]
        m += 1
        ctx.ob("C16.T4.text-deserialised-as-text", tag + v, len(vis) == 1 and vis[0].name.split("::")[-1] in want,
               "the %s arm calls %s" % (v, [c.name.split("::")[-1] for c in vis]), f.where(sw[0][0]))
    ctx.floor("C16.T4 deserialize_any arms" + tag, m, 9)


def check_json_autoescape(ctx, prog, tag):
    """T5: under JSON auto-escaping every printed value is what the JSON serializer produced.  The JSON arm of
    write_escaped hands the value to json_escape_write only, and every path through json_escape_write passes
    serde_json (no Display fast path: `NaN`/`inf`, unquoted strings ... are not JSON)."""
    J = "minijinja::utils::json_escape_write"
    if not prog.has_fn(J):
        ctx.count("configs without the json feature")
        return
    f = prog.fn(J)
    ser = {c.bb for c in f.calls() if c.name.startswith("serde_json::") and c.name.split("::")[-1] in (
        "to_string", "to_writer", "to_vec", "to_string_pretty", "to_writer_pretty", "to_value", "serialize")}
    ctx.ob("C16.T5.json-autoescape-writes-serializer-output", tag + J, bool(ser) and cfg.paths_must_pass(f, 0, ser, f.returns()),
           "a path through json_escape_write returns without passing the JSON serializer: what it writes there (the "
           "Display form of the value) is not JSON for non-finite floats, strings, none ...", f.loc)
    we = prog.fn("minijinja::utils::write_escaped")
    from .. import arms
    AE = "minijinja::utils::AutoEscape"
    sw = arms.enum_switches(prog, we, AE)
    ctx.need(sw, "C16.T5: write_escaped has no switch on AutoEscape")
    regs = arms.arm_regions(prog, we, sw[0][0], AE)
    sinks = sorted({c.name for c in arms.calls_in(we, regs.get("Json", set())) if c.args and any(
        we.locals[op_place(a)["l"]].get("adt") == "minijinja::output::Output" for a in c.args if op_place(a) and "p" not in op_place(a))})
    ctx.ob("C16.T5.json-arm-goes-through-the-json-writer", tag + "write_escaped|Json", sinks == [J],
           "the Json arm of write_escaped passes the output to %s" % sinks, we.loc)


def check_handle_registry(ctx, prog, tag):
    """T6: an embedded template value travels through serde as a handle into a thread-local registry.  The producer
    (`<Value as Serialize>::serialize`) only registers it; the entry is taken out by the consumer that resolves the
    handle (`SerializeTupleStruct::end` of the value serializer) and by nobody else.  A serializer may buffer the
    marker and replay it later (serde's flatten / tagged-enum `Content`), so removing the entry right after the marker
    was written turns the value into "value handle not in registry"."""
    REG = "minijinja::value::ValueHandleRegistry::"
    users = {}
    for f in prog.fns.values():
        for c in f.calls():
            if c.name.startswith(REG) and c.name.split("::")[-1] in ("insert", "remove", "clear", "take", "get"):
                users.setdefault(c.name.split("::")[-1], []).append(f)
    if not users:
        ctx.count("configs without the handle registry")
        return
    PROD = "<minijinja::value::Value as serde_core::ser::Serialize>::serialize"
    CONS = "<minijinja::value::serialize::SerializeTupleStruct as serde_core::ser::SerializeTupleStruct>::end"
    def owned_by(g, allowed, depth=3):
        """g is the allowed function, a closure of it, or a crate-private helper that only such functions call"""
        root = g.root or g.path
        if root == allowed or g.path.startswith(allowed):
            return True
        rf = prog.fns.get(root)
        if rf is None or rf.is_pub or depth <= 0:
            return False
        sites = prog.callers().get(root, [])
        return bool(sites) and all(owned_by(c.fn, allowed, depth - 1) for c in sites)
    for op, allowed in (("insert", PROD), ("remove", CONS)):
        fs = users.get(op, [])
        ctx.ob("C16.T6.handle-registry-%s-site" % op, tag + op, bool(fs) and all(owned_by(g, allowed) for g in fs),
               "ValueHandleRegistry::%s is called from %s; expected only %s: an entry removed by anyone but the consumer "
               "that resolves the handle is missing when a buffering serializer replays the marker" % (
                   op, sorted({g.path for g in fs}), allowed), fs[0].loc if fs else "")
    for op in ("clear", "take"):
        for g in users.get(op, []):
            ctx.ob("C16.T6.handle-registry-%s-site" % op, tag + g.path, False, "registry emptied by %s" % g.path, g.loc)



def check_announced_lengths(ctx, prog, tag):
    """T8 (after seed C16-7): a serializer that is told a length acts on it - serde_json writes `[]` at once when it is
    told `Some(0)`, and the elements that follow make the text invalid.  Whatever the engine's own `Serialize`
    implementations announce to `serialize_seq` / `serialize_map` / `serialize_tuple` is `None` or an exact length:
    nothing in its computation is an iterator's `size_hint` (a lower bound) or arithmetic on a count."""
    n = 0
    for f in sorted(prog.fns.values(), key=lambda x: x.path):
        if f.crate != "minijinja":
            continue
        for c in f.calls():
            last = (c.path or c.name).split("::")[-1]
            if last not in ("serialize_seq", "serialize_map", "serialize_tuple") or "ser::Serializer" not in (c.path or ""):
                continue
            if len(c.args) < 2:
                continue
            n += 1
            lib = []
            calls, leaves = flow.backward_calls(prog, f, c.args[1], library=lib)
            bad = sorted({k.name.split("::")[-1] for k in calls + lib if k.name.split("::")[-1] in ("size_hint", "min", "max", "count")})
            arith = [o for g_, o in leaves if o.kind == "bin"] + [o for o in flow.origins(f, c.args[1]) if o.kind == "bin"]
            ctx.ob("C16.T8.announced-length-is-exact-or-absent", "%s%s|%s" % (tag, f.path.split("::")[-1] if f.kind != "closure" else f.path, last),
                   not bad and not arith,
                   "%s announces a length computed with %s to %s: a bound is not a length - told `Some(0)` serde_json closes "
                   "the array before the elements are written (`[], 7, 8]`)" % (f.path, ", ".join(bad) or "arithmetic", last), f.where(c.bb))
    if prog.has_fn("<minijinja::value::Value as serde_core::ser::Serialize>::serialize") or n:
        ctx.floor("C16.T8 lengths announced to a serializer" + tag, n, 2)


def check_searched_fields(ctx, prog, tag, crates=("minijinja", "minijinja_contrib")):
    """T11 (round 10, seed C16-10): a lookup that binary-searches a field of its own object relies on an invariant of the
    *type* - the field is sorted - that every place constructing the type has to establish.  For every field that a
    method of the engine searches that way: each construction site of the type fills the field with a fresh empty
    collection (it is then only appended to) or with a value that was sorted in the constructing function.  A second
    constructor that stores the entries as they come (the serializer building a struct's map directly) makes the search
    miss keys: fields silently become undefined, values no longer round-trip."""
    from .. import query as _q
    fields = {}
    for f in prog.fns.values():
        if f.crate not in crates or f.kind == "closure":
            continue
        # helpers of the program that binary-search a parameter (`find_location_record(records, idx)`): a call that hands
        # them a field of `self` searches that field
        def _searching_param(h):
            for c2 in h.calls():
                if "binary_search" in c2.name or c2.name.endswith("::partition_point"):
                    for o2 in flow.origins(h, c2.args[0], through_calls=lambda k: 0 if k.name.endswith(("::deref", "::as_slice", "::as_ref")) else None):
                        if o2.kind == "arg" and not [x for x in o2.proj if not x.startswith("as ")]:
                            return o2.arg
            return None
        for c in f.calls():
            searched = None
            if "binary_search" in c.name or c.name.endswith("::partition_point"):
                searched = c.args[0]
            else:
                h = prog.fns.get(c.name)
                if h is not None and h.crate in crates and h.kind != "closure":
                    pi = _searching_param(h)
                    if pi is not None and pi - 1 < len(c.args):
                        searched = c.args[pi - 1]
            if searched is None or "c" in searched:
                continue
            for o in flow.origins(f, searched, through_calls=lambda k: 0 if k.name.endswith(("::deref", "::as_slice", "::as_ref")) else None):
                if o.kind == "arg" and o.arg == 1 and o.proj:
                    adt = f.locals[1].get("adt")
                    if adt in ("alloc::sync::Arc", "alloc::rc::Rc", "alloc::boxed::Box"):
                        adt = (f.locals[1].get("args") or [None])[0]
                    fld = [x for x in o.proj if not x.startswith("as ")][0]
                    if adt:
                        fields.setdefault((adt, fld), []).append(f.where(c.bb))
    n = 0
    FRESH = ("::new", "::with_capacity", "::default", "Default>::default")
    for (adt, fld), where in sorted(fields.items()):
        a = prog.adts.get(adt)
        if a is None:
            continue
        names = [x["name"] for x in a["variants"][0]["fields"]]
        for (g, bb, i, rv) in _q.aggregates_of(prog, adt):
            if g.crate not in crates:
                continue
            idx = names.index(fld) if fld in names else (int(fld) if fld.isdigit() else None)
            if idx is None or idx >= len(rv["ops"]):
                continue
            n += 1
            op = rv["ops"][idx]
            os_ = flow.origins(g, op) if "c" not in op else []
            fresh = bool(os_) and all(o.kind == "call" and o.call.name.endswith(FRESH) for o in os_)
            keys = {o.key() for o in os_}
            sorted_here = False
            for c in g.calls():
                last = c.name.rsplit("::", 1)[-1]
                if last.startswith("sort") and c.args and "c" not in c.args[0]:
                    ks = {o.key() for o in flow.origins(g, c.args[0], through_calls=lambda k: 0 if k.name.endswith(("::deref_mut", "::as_mut_slice", "::as_mut")) else None)}
                    if ks & keys and cfg.can_reach(g, c.bb, bb):
                        sorted_here = True
            ctx.ob("C16.T11.searched-field-is-sorted-where-the-type-is-built", "%s%s.%s|built-in-%s" % (tag, adt.split("::")[-1], fld, g.path.split("::")[-1] if g.kind != "closure" else g.path),
                   fresh or sorted_here,
                   "%s.%s is binary-searched (%s) but this construction site stores a collection that is neither fresh and empty "
                   "nor sorted here" % (adt.split("::")[-1], fld, where[0]), g.where(bb))
    return n, len(fields)


def check_no_fabricated_elements(ctx, prog, tag):
    """T12 (round 11, seed C16-11): the composite serializers (`SerializeSeq / Tuple / Map / Struct ...` of the value
    serializer) record what they are handed - the serialised form of an element, key or field - and nothing else.  An
    element they make up themselves (`none` for a field serde told them was skipped) is not part of the serialised value:
    it does not deserialise back to the type (`#[serde(default)]` would have filled it), and the template sees keys the
    data does not have.  Every value pushed / inserted into the collection under construction inside an impl of the
    `serde::ser::Serialize*` traits has no origin that is a `ValueRepr` built in place or a constant."""
    n = 0
    for k, f in prog.fns.items():
        if f.crate != "minijinja" or not f.loc.f.endswith("value/serialize.rs") or f.kind == "closure":
            continue
        tr = k
        if not any(x in tr for x in ("ser::SerializeSeq", "ser::SerializeTuple", "ser::SerializeMap", "ser::SerializeStruct")):
            continue
        for c in f.calls():
            last = c.name.rsplit("::", 1)[-1]
            if last not in ("push", "insert", "push_back", "extend"):
                continue
            vals = c.args[1:]
            for a in vals:
                if "c" in a:
                    continue
                n += 1
                made = []

                def scan(g, op, depth=0):
                    for o in flow.origins(g, op):
                        if o.kind == "agg" and (o.rv.get("adt") or "").endswith("ValueRepr"):
                            made.append(o.rv.get("variant"))
                        elif o.kind == "agg" and o.rv.get("agg") == "tuple" and depth < 3:
                            for x in o.rv["ops"]:
                                if "c" not in x:
                                    scan(g, x, depth + 1)
                        elif o.kind == "agg" and (o.rv.get("adt") or "").endswith("::Value") and depth < 3:
                            for x in o.rv["ops"]:
                                if "c" not in x:
                                    scan(g, x, depth + 1)
                        elif o.kind == "call" and o.call.name.endswith(("::into", "::from")) and depth < 3 and o.call.args:
                            if "c" in o.call.args[0]:
                                made.append("constant")
                            else:
                                scan(g, o.call.args[0], depth + 1)
                scan(f, a)
                ctx.ob("C16.T12.composite-serializer-records-only-what-it-is-given", "%s%s|%s#%d" % (tag, k.split(" for ")[-1].rstrip(">") + "::" + k.rsplit("::", 1)[-1], last, n), not made,
                       "%s stores a value it built itself (%s) into the collection under construction: an element serde did not "
                       "hand over becomes part of the value" % (k.rsplit("::", 1)[-1], made), f.where(c.bb))
    return n


def check_entries_come_from_the_value(ctx, prog, tag):
    """T13 (round 12, seed C16-12): what a composite value deserialises to is decided by the entries the *value* has.
    The names the target type declares (`fields: &'static [&'static str]` of `deserialize_struct` / `struct_variant`,
    `variants` of `deserialize_enum`) must not decide which entries the visitor is shown: an entry made up for a
    declared-but-absent field (`get_attr(field).unwrap_or_default()`) reaches serde as a present `undefined`, so
    `#[serde(default)]` is never applied and the round trip of a type that skips empty fields fails.  In
    value/deserialize.rs no map / sequence access handed to a visitor is computed from such a parameter (passing the
    names on to another deserializer method is fine)."""
    from .c07 import _param_deps
    n = 0
    for k, f in sorted(prog.fns.items()):
        if f.crate != "minijinja" or not f.loc.f.endswith("value/deserialize.rs") or f.kind == "closure":
            continue
        names = [i for i in range(1, f.argc + 1) if "[&" in f.locals[i].get("s", "") and "str" in f.locals[i].get("s", "")]
        if not names:
            continue
        n += 1
        bad = []
        for c in f.calls():
            nm = c.name
            if not any(x in nm for x in ("MapDeserializer", "SeqDeserializer", "MapAccessDeserializer", "SeqAccessDeserializer",
                                         "::visit_map", "::visit_seq")):
                continue
            deps = set()
            for a in c.args:
                deps |= _param_deps(f, a, 0, False)
            if deps & set(names):
                bad.append(c)
        inst = k.split(" for ")[-1].rstrip(">") + "::" + k.rsplit("::", 1)[-1] if " for " in k else "::".join(k.split("::")[-2:])
        ctx.ob("C16.T13.entries-shown-to-the-visitor-come-from-the-value", tag + inst, not bad,
               "%s builds the entries it shows the visitor from the names the target type declares: a declared field the value "
               "does not have arrives as a present `undefined` entry (serde's defaults are not applied, the round trip of a "
               "value with skipped fields fails)" % k.rsplit("::", 1)[-1], f.where(bad[0].bb) if bad else f.loc)
    return n



def run(ctx):
    ctx.explain("C16 (tojson HTML-safety clause only): structural filter rule on the closure that post-processes the "
                "serialised JSON: the only returned safe string is a buffer written char by char, the default arm "
                "of the character match copies the character and the listed arms cover < > & ' with replacements "
                "free of them.  Decides, for all values, that tojson output contains none of < > & '.  T2: the "
                "serialization scope flag is captured and restored re-entrantly.  T3/T4: scalar payloads cross the "
                "serde bridge through widening casts only and reach the visitor of their own type.  Composite "
                "round trip and validity of the JSON are value-level and NOT decided by this check.")
    ctx.assume("serde_json produces the string that is filtered; nothing is appended after the filter")
    for cname in ctx.configs():
        prog = ctx.program(cname)
        if not prog.has_fn(TOJSON):
            ctx.count("configs without the json feature")
            continue
        tag = "" if cname == "MAX" else "[%s]" % cname
        f = prog.fn(TOJSON)
        cls = prog.closures_of(TOJSON)
        builders = [c for c in cls if c.calls_to(SAFE)]
        ctx.ob("C16.T1.single-safe-string-site", tag + TOJSON, len(builders) == 1 and not f.calls_to(SAFE),
               "from_safe_string is called in %s" % ([c.path for c in builders] + ([f.path] if f.calls_to(SAFE) else [])),
               f.loc)
        n = 0
        for b in builders:
            # read through a private helper the filter loop may have been moved into
            from .. import inline
            bv = inline.view(prog, b, keep=("from_safe_string", "push", "push_str", "with_capacity", "new", "find", "index", "chars", "next",
                                            "serialize_json", "len", "as_bytes"))
            ok, k = check_char_filter(ctx, prog, bv, "C16.T1", tag + b.path.split("::")[-1], FORBIDDEN)
            n += k
            # the closure is applied to the Ok value of serialize_json on every path: f's return flows from
            # Result::map(closure)
            maps = [c for c in f.calls() if c.name == "core::result::Result::map" and any(
                o.kind == "agg" and norm_path(o.rv.get("closure", "")) == b.path
                for a in c.args for o in flow.origins(f, a))]
            ctx.ob("C16.T1.filter-applied-to-every-success", tag + TOJSON,
                   len(maps) == 1 and maps[0].dest == {"l": 0},
                   "the filtering closure is not the last step of the returned Result", f.loc)
            # both formatter branches reach that map: serialize_json results all flow into it
            sj = [c for c in f.calls() if c.name.endswith("serialize_json")]
            for c in sj:
                reach = cfg.reach_from(f, c.bb)
                ctx.ob("C16.T1.every-serialisation-is-filtered", "%s%s|serialize_json" % (tag, TOJSON),
                       bool(maps) and maps[0].bb in reach and not any(
                           r in reach and not cfg.can_reach(f, c.bb, maps[0].bb, avoid=[r]) and r != maps[0].bb
                           for r in []), "", f.where(c.bb))
            ctx.floor("C16.T1 serialize_json call sites" + tag, len(sj), 2)
        ctx.floor("C16.T1 safe-string constructions in tojson" + tag, n, 1)
        # other producers of "safe" JSON in the builtin filters: none may bypass (inventory)
    for cname in ctx.configs():
        prog = ctx.program(cname)
        tag = "" if cname == "MAX" else "[%s]" % cname
        check_serialization_scope(ctx, prog, tag)
        check_scalar_tables(ctx, prog, tag)
        check_json_autoescape(ctx, prog, tag)
        # T10 (after seed C16-9): bytes that are valid UTF-8 have a string view (`as_str()` is Some for them).  A bridge
        # function that decides by that view hands such bytes to the visitor as a string, so a byte string no longer
        # round-trips (by reference only, and only when its content happens to be UTF-8).  Inside the bridge `as_str()` is
        # used only under `kind() == String` (or in an arm of the string representations).
        from .c07 import strview_is_guarded
        n10 = 0
        for g in sorted(prog.fns.values(), key=lambda x: x.path):
            if g.crate != "minijinja" or not (g.loc.f.endswith(("value/deserialize.rs", "value/serialize.rs")) or "serde_core::ser::Serialize" in g.path):
                continue
            n10 += 1
            bad10 = [c for c in g.calls() if c.name == "minijinja::value::Value::as_str" and c.args and not strview_is_guarded(g, c)]
            ctx.ob("C16.T10.text-view-is-used-for-strings-only", tag + g.path, not bad10,
                   "%s decides by `as_str()` without `kind() == String`: bytes whose content is UTF-8 take the string path"
                   % g.path.split("::")[-1], g.where(bad10[0].bb) if bad10 else g.loc)
        if any(g.loc.f.endswith("value/deserialize.rs") for g in prog.fns.values()):
            ctx.floor("C16.T10 functions of the serde bridge" + tag, n10, 30)
        # T9: the bridge treats the two string representations (heap / inline) alike: text goes in and comes out whatever
        # its length (shared rule, C07.V13)
        from .c07 import check_string_reprs
        check_string_reprs(ctx, prog, tag, "C16.T9.string-representations-are-handled-alike",
                           lambda f: f.loc.f.endswith(("value/deserialize.rs", "value/serialize.rs")) or "serde_core::ser::Serialize" in f.path)
        check_handle_registry(ctx, prog, tag)
        check_announced_lengths(ctx, prog, tag)
        n12 = check_no_fabricated_elements(ctx, prog, tag)
        if any(g.loc.f.endswith("value/serialize.rs") for g in prog.fns.values()):
            ctx.floor("C16.T12 elements recorded by the composite serializers" + tag, n12, 5)
        n13 = check_entries_come_from_the_value(ctx, prog, tag)
        if any(g.loc.f.endswith("value/deserialize.rs") for g in prog.fns.values()):
            ctx.floor("C16.T13 deserializer methods that are told the declared names" + tag, n13, 2)
        n11, nf11 = check_searched_fields(ctx, prog, tag)
        ctx.count("C16.T11 binary-searched fields" + tag, nf11)
        ctx.count("C16.T11 construction sites of types with a searched field" + tag, n11)
    # positive control
    cprog = ctx.controls
    sub = ctx.fresh()
    for fpath in ("mjsa_controls::c16::leaky_filter",):
        check_char_filter(sub, cprog, cprog.fn(fpath), "C16.T1", "control", FORBIDDEN,
                          safe="mjsa_controls::c16::Value::from_safe_string")
    ctx.control("C16.T1", any(not o[2] for o in sub.obligations))
    sub11 = ctx.fresh()
    check_searched_fields(sub11, cprog, "control", crates=("mjsa_controls",))
    ctx.control("C16.T11", any((not o[2]) and "raw" in o[1] for o in sub11.obligations) and any(o[2] and "sorted" in o[1] for o in sub11.obligations))
