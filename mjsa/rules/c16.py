"""C16 — (clause) tojson output contains none of the characters < > & '.

Round trip through serde and JSON validity are value-level and NOT decided.  Decided structurally:
 T1 in `filters::tojson` the only value returned on success is `Value::from_safe_string(buf)` where `buf` is a fresh
    String that is written exclusively inside the per-character loop over the serialised JSON: a `match` on the
    character whose listed arms cover '<', '>', '&', '\\'' and push constants free of these characters, and whose
    default arm pushes the matched character itself.  Both formatter branches (compact / pretty) flow into that same
    closure.
"""
from .. import cfg, flow, errflow, query
from ..facts import op_place, norm_path

TOJSON = "minijinja::filters::builtins::tojson"
FORBIDDEN = {ord("<"): "<", ord(">"): ">", ord("&"): "&", ord("'"): "'"}
SAFE = "minijinja::value::Value::from_safe_string"


def check_char_filter(ctx, prog, f, rule, label, forbidden, safe=SAFE):
    """f: function/closure that builds a String char by char; returns True when structurally filtered"""
    safe_calls = f.calls_to(safe)
    ok_all = True
    for sc in safe_calls:
        src = flow.origins(f, sc.args[0])
        bufs = set()
        for o in src:
            if o.kind == "call" and o.call.name in ("alloc::string::String::with_capacity", "alloc::string::String::new"):
                bufs.add(o.call.dest["l"])
            else:
                ctx.ob(rule + ".result-is-the-filtered-buffer", label, False,
                       "the safe string returned is %r, not the buffer filled by the filter loop" % o, f.where(sc.bb))
                ok_all = False
        for buf in bufs:
            # every mutation of buf
            for c in f.calls():
                if not c.args:
                    continue
                p = op_place(c.args[0])
                if p is None:
                    continue
                tgt = set()
                for d in flow.whole_defs(f, p["l"]):
                    if d.kind == "stmt" and d.rv["k"] == "ref" and d.rv.get("mut"):
                        tgt.add(d.rv["place"]["l"])
                if buf not in tgt:
                    continue
                nm = c.name
                if nm == "alloc::string::String::push_str":
                    s = flow.const_str(c.args[1], f)
                    if s is None:
                        for o in flow.origins(f, c.args[1]):
                            if o.kind == "const":
                                s = flow.const_str({"c": o.const}, f)
                    bad = s is None or any(ch in s for ch in forbidden.values())
                    ctx.ob(rule + ".replacement-is-clean", "%s|push_str(%r)" % (label, s), not bad,
                           "replacement text %r contains a forbidden character (or is not a constant)" % s, f.where(c.bb))
                    ok_all &= not bad
                elif nm == "alloc::string::String::push":
                    # must sit in the default arm of a switch on that very character which lists all forbidden ones
                    good = False
                    ch_or = {o.key() for o in flow.origins(f, c.args[1])}
                    for (sb, taken) in flow.guards(f, c.bb):
                        t = f.term(sb)
                        d = op_place(t["discr"])
                        if d is None:
                            continue
                        if not ({o.key() for o in flow.origins(f, t["discr"])} & ch_or):
                            continue
                        listed = {int(v) for v, _ in t["arms"]}
                        if set(taken) == {"otherwise"} and set(forbidden) <= listed:
                            good = True
                        else:
                            missing = [forbidden[k] for k in forbidden if k not in listed]
                            ctx.sample({"rule": rule, "missing": missing})
                    ctx.ob(rule + ".raw-char-only-in-default-arm", "%s|push" % label, good,
                           "the character is copied unchanged on a path that does not exclude all of %s"
                           % sorted(forbidden.values()), f.where(c.bb))
                    ok_all &= good
                else:
                    ctx.ob(rule + ".buffer-mutated-only-by-push", "%s|%s" % (label, nm), False,
                           "unmodelled write into the result buffer", f.where(c.bb))
                    ok_all = False
    return ok_all, len(safe_calls)


def run(ctx):
    ctx.explain("C16 (tojson HTML-safety clause only): structural filter rule on the closure that post-processes the "
                "serialised JSON: the only returned safe string is a buffer written char by char, the default arm "
                "of the character match copies the character and the listed arms cover < > & ' with replacements "
                "free of them.  Decides, for all values, that tojson output contains none of < > & '.  The serde "
                "round trip and validity of the JSON are value-level and NOT decided by this check.")
    ctx.assume("serde_json produces the string that is filtered; nothing is appended after the filter")
    for cname in ctx.configs():
        prog = ctx.program(cname)
        if not prog.has_fn(TOJSON):
            ctx.count("configs without the json feature")
            continue
        tag = "" if cname == "MAX" else "[%s]" % cname
        f = prog.fn(TOJSON)
        cls = prog.closures_of(TOJSON)
        builders = [c for c in cls if c.calls_to(SAFE)]
        ctx.ob("C16.T1.single-safe-string-site", tag + TOJSON, len(builders) == 1 and not f.calls_to(SAFE),
               "from_safe_string is called in %s" % ([c.path for c in builders] + ([f.path] if f.calls_to(SAFE) else [])),
               f.loc)
        n = 0
        for b in builders:
            ok, k = check_char_filter(ctx, prog, b, "C16.T1", tag + b.path.split("::")[-1], FORBIDDEN)
            n += k
            # the closure is applied to the Ok value of serialize_json on every path: f's return flows from
            # Result::map(closure)
            maps = [c for c in f.calls() if c.name == "core::result::Result::map" and any(
                o.kind == "agg" and norm_path(o.rv.get("closure", "")) == b.path
                for a in c.args for o in flow.origins(f, a))]
            ctx.ob("C16.T1.filter-applied-to-every-success", tag + TOJSON,
                   len(maps) == 1 and maps[0].dest == {"l": 0},
                   "the filtering closure is not the last step of the returned Result", f.loc)
            # both formatter branches reach that map: serialize_json results all flow into it
            sj = [c for c in f.calls() if c.name.endswith("serialize_json")]
            for c in sj:
                reach = cfg.reach_from(f, c.bb)
                ctx.ob("C16.T1.every-serialisation-is-filtered", "%s%s|serialize_json" % (tag, TOJSON),
                       bool(maps) and maps[0].bb in reach and not any(
                           r in reach and not cfg.can_reach(f, c.bb, maps[0].bb, avoid=[r]) and r != maps[0].bb
                           for r in []), "", f.where(c.bb))
            ctx.floor("C16.T1 serialize_json call sites" + tag, len(sj), 2)
        ctx.floor("C16.T1 safe-string constructions in tojson" + tag, n, 1)
        # other producers of "safe" JSON in the builtin filters: none may bypass (inventory)
    # positive control
    cprog = ctx.controls
    sub = type(ctx)(ctx.prop, ctx.tier, ctx.repo)
    for fpath in ("mjsa_controls::c16::leaky_filter",):
        check_char_filter(sub, cprog, cprog.fn(fpath), "C16.T1", "control", FORBIDDEN,
                          safe="mjsa_controls::c16::Value::from_safe_string")
    ctx.control("C16.T1", any(not o[2] for o in sub.obligations))
