"""C08 — numeric operators are exact or fail; they never wrap or lose the sign.

Structural clauses on value/ops.rs (and the integer conversions it relies on):
 N1 operator table: in the integer arm (CoerceResult::I128) of add/sub/mul/int_div/rem/pow/neg the result comes from
    the expected `i128::checked_*` method and its `None` reaches `return Err`; the float arms of `//` and `%` use the
    same (euclidean) convention: `f64::div_euclid` and `f64::rem_euclid`.
 N2 no value-changing integer cast on operand flow: every IntToInt cast in ops.rs numeric code and in the
    TryFrom<Value> integer conversions either cannot change the value, or is the round-trip idiom
    (`x as T as S == x`) / guarded by it.
 N3 no overflow-capable primitive arithmetic (MIR Assert Overflow/DivisionByZero/…) in the numeric operator functions.
 N4 integer literals: eat_number converts through from_str_radix / parse with the error mapped to a syntax error.
 N5 sign discipline of unary minus: every value `neg` returns is the result of a negation (float Neg, checked_mul by
    -1, checked_neg) — never the operand itself or a non-negative constant.
"""
import re

from .. import cfg, flow, errflow, query, arms
from ..facts import op_place, const_int

OPS = "minijinja::value::ops::"
COERCE = OPS + "coerce"
CR = "minijinja::value::ops::CoerceResult"

INT_TABLE = {
    "add": ("checked_add",), "sub": ("checked_sub",), "mul": ("checked_mul",),
    "int_div": ("checked_div_euclid",), "rem": ("checked_rem_euclid",), "pow": ("checked_pow",),
}
FLOAT_TABLE = {
    "add": ("bin:Add",), "sub": ("bin:Sub",), "mul": ("bin:Mul",),
    "int_div": ("call:div_euclid",), "rem": ("call:rem_euclid",), "pow": ("call:powf",),
}
NUMERIC_FNS = ["add", "sub", "mul", "div", "int_div", "rem", "pow", "neg", "coerce", "as_f64", "int_as_value"]


def coerce_arms(prog, f):
    """regions of the I128 / F64 arms of `match coerce(lhs, rhs, true)`"""
    out = {}
    for bb, cd in arms.enum_switches(prog, f, CR):
        regs = arms.arm_regions(prog, f, bb, CR)
        for v in ("I128", "F64"):
            if v in regs:
                out.setdefault(v, set()).update(regs[v])
    return out


def none_reaches_err(f, call):
    """the None/Err of a checked_* result leads to `return Err` (directly or through ok_or_else + `?`/return)"""
    if call.dest is None or "p" in call.dest:
        return False, "result not stored"
    sp = errflow.result_split(f, call.dest["l"])
    for (sb, none_t, some_t, other, adt) in sp.switches:
        tg = none_t or {other}
        for t in tg:
            ok, why = errflow.err_arm_returns_err(f, t)
            if not ok and _remainder_by_minus_one(f, t, call):
                continue
            if not ok:
                return False, "the None arm does not return Err (%s)" % why
        return True, ""
    for c in sp.consumers:
        if c.name in ("core::option::Option::ok_or_else", "core::option::Option::ok_or"):
            ds = errflow.disposition(f, c)
            if ds and all(d[0] in ("returned", "propagated") for d in ds):
                return True, ""
            return False, "ok_or_else result is %s" % ds
        if c.name in ("core::option::Option::and_then", "core::option::Option::map"):
            return none_reaches_err(f, c)
    return False, "None is not turned into an error (consumers %s)" % [c.name for c in sp.consumers]


def _remainder_by_minus_one(f, t, call):
    """`None if b == -1 => Ok(0)`: a checked remainder reports an overflow for MIN % -1 although the remainder (0) is
    exact; the None arm may answer that one case, everything else in it must still be an error"""
    if not call.name.endswith(("::checked_rem_euclid", "::checked_rem")) or len(call.args) < 2:
        return False
    from ..facts import const_int
    divisor = {o.key() for o in flow.origins(f, call.args[1])}
    reach = cfg.reach_from(f, t)
    for sb in sorted(reach):
        if f.term(sb)["k"] != "switch":
            continue
        cd = flow.cond_of(f, sb)
        if cd.kind != "bin" or cd.rv["op"] not in ("Eq", "Ne"):
            continue
        for x, y in ((cd.rv["a"], cd.rv["b"]), (cd.rv["b"], cd.rv["a"])):
            if "c" in x or "c" not in y or const_int(y) != -1:
                continue
            if not ({o.key() for o in flow.origins(f, x)} & divisor):
                continue
            eq_true = (cd.rv["op"] == "Eq") != cd.neg
            special = {e[1] for e in cfg.bool_edges(f, sb, eq_true)}
            other = {e[1] for e in cfg.bool_edges(f, sb, not eq_true)}
            # the other side is an error; the special side returns the constant 0
            if not all(errflow.err_arm_returns_err(f, o_)[0] for o_ in other):
                return False
            zero = False
            for b_ in set().union(*[cfg.reach_from(f, s_) for s_ in special]) if special else ():
                for c_ in f.calls():
                    if c_.bb == b_ and any("c" in a_ and const_int(a_) == 0 for a_ in c_.args):
                        zero = True
            return zero
    return False


def roundtrip_guard(f, bb, src_local_roots):
    """is block bb on the true side of `x as T as S == x` for the same x?"""
    for (sb, taken) in flow.guards(f, bb):
        cd = flow.cond_of(f, sb)
        if cd.kind == "bin" and cd.rv["op"] == "Eq":
            side = flow.bool_true_labels(taken)
            if side is not (not cd.neg):
                continue
            if is_roundtrip(f, cd.rv, src_local_roots):
                return True
    return False


def is_roundtrip(f, binrv, roots):
    sides = [binrv["a"], binrv["b"]]
    for i in (0, 1):
        back = flow.origins(f, sides[i], through_casts=False)
        other = {o.key() for o in flow.origins(f, sides[1 - i])}
        for o in back:
            if o.kind == "cast":
                inner = flow.origins(f, o.rv["op"], through_casts=False)
                for o2 in inner:
                    if o2.kind == "cast":
                        base = {x.key() for x in flow.origins(f, o2.rv["op"])}
                        if base & other and (not roots or base & roots):
                            return True
    return False


def check_narrow(ctx, prog, fns, tag):
    """N6: the width an operand is stored in never decides the outcome.  Inside the operator functions any arithmetic
    helper on a type narrower than 128 bits may only be a fast path: wrapping / saturating / overflowing forms are
    never acceptable, and the None of a narrow checked_* must fall through to the 128-bit computation (coerce +
    i128::checked_*), never straight to an error."""
    for op, f in fns:
        scope = [f] + prog.closures_of(f.path)
        wide = {c.bb for c in f.calls() if c.name.startswith("core::num::<impl i128>::checked_")
                or c.name == "minijinja::value::ops::coerce"}
        for g in scope:
            for c in g.calls():
                mm = re.match(r"core::num::<impl ([iu])(8|16|32|64)>::(\w+)$", c.name)
                if not mm:
                    continue
                meth = mm.group(3)
                if not meth.startswith(("checked_", "wrapping_", "saturating_", "overflowing_", "unchecked_")) and meth not in (
                        "pow", "abs", "rem_euclid", "div_euclid"):
                    continue
                key = "%s%s|%s%s::%s" % (tag, op, mm.group(1), mm.group(2), meth)
                if not meth.startswith("checked_"):
                    ctx.ob("C08.N6.narrow-arithmetic-is-only-a-fast-path", key, False,
                           "`%s` computes with %s%s::%s: a result that does not fit 64 bits wraps, saturates or "
                           "panics although it fits 128 bits" % (op, mm.group(1), mm.group(2), meth), g.where(c.bb))
                    continue
                ok = False
                why = "the None of the narrow operation is turned into an error"
                if g is f and c.dest is not None and "p" not in c.dest:
                    sp = errflow.result_split(f, c.dest["l"])
                    starts = set()
                    for (sb, none_t, some_t, other, adt) in sp.switches:
                        starts |= set(none_t or {other})
                    if starts and wide:
                        ok = all(cfg.paths_must_pass(f, st_, wide, f.returns()) for st_ in starts)
                    elif not sp.switches:
                        why = "the Option of the narrow operation is consumed by %s" % [k.name.split("::")[-1] for k in sp.consumers]
                ctx.ob("C08.N6.narrow-arithmetic-is-only-a-fast-path", key, ok,
                       "`%s` uses %s%s::%s and %s instead of falling through to the 128-bit computation: "
                       "`i64::MIN // -1` fails for 64-bit operands but succeeds for the same numbers stored wider"
                       % (op, mm.group(1), mm.group(2), meth, why), g.where(c.bb))


def float_roundtrip_sites(prog, fns):
    """[(f, switch bb, guarded)] for every `x as T as f64 == x` exactness test (float -> int -> float round trip) in
    fns; guarded = dominated by a float comparison of x with `T::MAX as f64` (the float-to-int cast saturates: 2^63
    casts to i64::MAX and back to 2^63, so the unguarded round trip accepts it and yields i64::MAX)."""
    out = []
    for f in fns:
        bounds = []
        rts = []
        for bb in sorted(f.reachable):
            if f.term(bb)["k"] != "switch":
                continue
            cd = flow.cond_of(f, bb)
            if cd.kind != "bin" or cd.rv.get("ty") not in ("f64", "f32"):
                continue
            if cd.rv["op"] in ("Eq", "Ne"):
                def _is_rt(op_):
                    p_ = op_place(op_)
                    if p_ is None or "p" in p_:
                        return False
                    for d in flow.whole_defs(f, p_["l"]):
                        if d.kind == "stmt" and d.rv["k"] == "cast" and d.rv["kind"] == "IntToFloat":
                            q_ = op_place(d.rv["op"])
                            if q_ is not None and "p" not in q_ and any(
                                    e.kind == "stmt" and e.rv["k"] == "cast" and e.rv["kind"] == "FloatToInt"
                                    for e in flow.whole_defs(f, q_["l"])):
                                return True
                    return False
                if _is_rt(cd.rv["a"]) or _is_rt(cd.rv["b"]):
                    rts.append(bb)
            if cd.rv["op"] in ("Lt", "Le", "Gt", "Ge"):
                for x in ("a", "b"):
                    for o in flow.origins(f, cd.rv[x]):
                        if o.kind == "const" and str(o.const.get("named", "")).endswith("::MAX"):
                            bounds.append(bb)
        for r in rts:
            out.append((f, r, any(cfg.dominates(f, b_, r) for b_ in bounds)))
    return out


def check_mixed_orderings(ctx, prog, tag, rule="C08.N8.mixed-ordering-casts-the-float-only-below-saturation", floor_name="C08.N8"):
    """the mixed float / integer orderings (functions taking a float and an integer and returning an Ordering) cast the
    float to the integer type only on paths that excluded the saturating range"""
    n8 = 0
    for g in prog.fns.values():
        if g.crate != "minijinja" or g.kind == "closure" or g.argc != 2:
            continue
        tys = [g.locals[1].get("s", ""), g.locals[2].get("s", "")]
        if not ("f64" in tys and any(t in ("i128", "u128", "i64", "u64") for t in tys)):
            continue
        if not g.locals[0].get("s", "").endswith("cmp::Ordering"):
            continue
        casts = [(bb, s_["rv"]) for bb, i, s_ in g.all_stmts() if s_.get("rv", {}).get("k") == "cast" and s_["rv"].get("kind") == "FloatToInt"]
        bounds = []
        for sb in sorted(g.reachable):
            if g.term(sb)["k"] != "switch":
                continue
            cd = flow.cond_of(g, sb)
            if cd.kind == "bin" and cd.rv.get("ty") in ("f64", "f32") and cd.rv["op"] in ("Lt", "Le", "Gt", "Ge"):
                for x in ("a", "b"):
                    for o in flow.origins(g, cd.rv[x]):
                        if o.kind == "const" and (str(o.const.get("named", "")).endswith("::MAX") or "e" in str(o.const.get("d", "")).lower()
                                                  or len(str(o.const.get("d", "")).split(".")[0].lstrip("-")) >= 19):
                            bounds.append(sb)
        for bb, rv in casts:
            n8 += 1
            ok = any(cfg.dominates(g, b_, bb) for b_ in bounds)
            ctx.ob(rule, "%s%s|as %s" % (tag, g.path.split("::")[-1], rv.get("to")), ok,
                   "%s casts its float operand to %s without a dominating comparison against the type's maximum: the cast "
                   "saturates, so a float at or beyond 2^N compares Equal to the largest integer" % (g.path.split("::")[-1], rv.get("to")),
                   g.where(bb))
    if any(k.endswith("value::cmp_f64_i128") for k in prog.fns):
        ctx.floor(floor_name + " float casts in mixed orderings" + tag, n8, 2)


def check_exactness_of_integer_floats(ctx, prog, tag, prefix="C08.N7"):
    """N7 (also C07.V9): which integers have an exact float form is decided by the cast round trip, guarded against the
    saturating float-to-int cast - the test that makes `==` (coercible pair) agree with the exact ordering fallback"""
    # ---- N7: which integers have an exact float form is decided by the cast round trip, guarded against the
    # saturating float-to-int cast.  In as_f64, per integer representation: every path to `None` passes the
    # round-trip test (`x as f64 as T == x`) or its saturation bound (`rv < T::MAX as f64`), and every round-trip
    # test is dominated by that bound.  A narrower test (a magnitude limit) calls exactly representable integers
    # inexact, so `==` (not coercible -> unequal) and `cmp` (exact fallback) disagree; a missing bound makes
    # `T::MAX` equal to the next power of two.
    af = prog.fn(OPS + "as_f64")
    VREPR_ = "minijinja::value::ValueRepr"
    swa = arms.enum_switches(prog, af, VREPR_)
    ctx.need(swa, prefix + ": as_f64 has no switch on ValueRepr")
    aregs = arms.arm_regions(prog, af, swa[0][0], VREPR_)
    aent = arms.variant_targets(prog, af, swa[0][0], VREPR_)
    for v in ("U64", "I64", "U128", "I128"):
        reg = aregs.get(v, set())
        rts, bounds = set(), set()
        # the comparisons are found where they are computed; their result must decide a branch of the arm, directly
        # (`if rv < MAX && rv as T == x`) or through a flag (`let is_exact = ..; if lossy || is_exact`)
        decided = set()
        for sb in sorted(reg):
            if af.term(sb)["k"] == "switch":
                for o in flow.origins(af, af.term(sb)["discr"]):
                    if o.kind == "bin":
                        decided.add((o.bb, o.idx))

        def _is_f2i(op_):
            p_ = op_place(op_)
            if p_ is None or "p" in p_:
                return False
            return any(d.kind == "stmt" and d.rv["k"] == "cast" and d.rv["kind"] == "FloatToInt"
                       for d in flow.whole_defs(af, p_["l"]))
        for bb, i, st in af.all_stmts():
            rv_ = st.get("rv", {})
            if bb not in reg or st["k"] != "assign" or rv_.get("k") != "bin" or (bb, i) not in decided:
                continue
            if rv_["op"] in ("Eq", "Ne") and rv_.get("ty") in ("u64", "i64", "u128", "i128"):
                if _is_f2i(rv_["a"]) or _is_f2i(rv_["b"]):
                    rts.add(bb)
            if rv_["op"] in ("Lt", "Le", "Gt", "Ge") and rv_.get("ty") == "f64":
                for x in ("a", "b"):
                    for o in flow.origins(af, rv_[x]):
                        if o.kind == "const" and str(o.const.get("named", "")).endswith("::MAX"):
                            bounds.add(bb)
        nones = {bb for bb, i, st in af.all_stmts() if bb in reg and st["k"] == "assign" and st["place"] == {"l": 0}
                 and st["rv"]["k"] == "agg" and st["rv"].get("variant") == "None"}
        ent = aent.get(v)
        ok_a = bool(rts) and ent is not None and (not nones or cfg.paths_must_pass(af, ent, rts | bounds, nones))
        ctx.ob(prefix + ".exactness-is-decided-by-the-round-trip", "%sas_f64|%s" % (tag, v), ok_a,
               "for %s integers as_f64 can return None without the cast round trip `x as f64 as T == x` having "
               "failed (round-trip tests found: %d): integers that do have an exact float form are called "
               "inexact, so `==` / `in` (not coercible -> unequal) disagree with the ordering" % (v, len(rts)), af.loc)
        ok_b = all(any(cfg.dominates(af, b_, r_) for b_ in bounds) for r_ in rts)
        ctx.ob(prefix + ".round-trip-is-guarded-against-saturation", "%sas_f64|%s" % (tag, v), ok_b,
               "the round trip for %s is not dominated by `rv < T::MAX as f64`: the float-to-int cast saturates, so "
               "T::MAX (not representable) passes the round trip and compares equal to the next power of two" % v, af.loc)


def run(ctx):
    ctx.explain("C08: frozen operator table checked against the MIR of value/ops.rs (integer arm -> i128::checked_* "
                "with None -> Err; float arms of // and % both euclidean), a lossy-cast lint with the round-trip "
                "idiom recognised, an overflow-assert lint on the numeric operator functions, error discipline of "
                "integer-literal conversion, and a sign-discipline rule for unary minus.  Decides that no integer "
                "path can wrap or silently truncate and that // and % share one convention; exactness of int/float "
                "comparison and the numeric values themselves are not decided.")
    ctx.assume("i128::checked_* and f64::{div,rem}_euclid have their documented std semantics")
    for cname in ctx.configs():
        prog = ctx.program(cname)
        tag = "" if cname == "MAX" else "[%s]" % cname
        # ---- N1
        for op, want in INT_TABLE.items():
            # read through private helpers an arm may have been moved into (`int_rem_euclid(a, b)`)
            f = prog.view(OPS + op, keep=None)
            regs = coerce_arms(prog, f)
            ctx.need("I128" in regs and "F64" in regs, "C08.N1: %s has no I128/F64 arms on CoerceResult" % op)
            calls = [c for c in arms.calls_in(f, regs["I128"]) if c.name.startswith("core::num::<impl i128>::")]
            # closures built in the arm (pow: and_then(|b| a.checked_pow(b)))
            cl_calls = []
            for bb in regs["I128"]:
                for s in f.stmts(bb):
                    rv = s.get("rv", {})
                    if rv.get("k") == "agg" and rv.get("closure"):
                        from ..facts import norm_path
                        cl = prog.fns.get(norm_path(rv["closure"]))
                        if cl:
                            cl_calls += [c for c in cl.calls() if c.name.startswith("core::num::<impl i128>::")]
            if cl_calls:
                # the closure is consumed by an Option combinator in the arm: its None must become an error too
                for c in arms.calls_in(f, regs["I128"]):
                    if c.name in ("core::option::Option::and_then", "core::option::Option::map"):
                        ok, why = none_reaches_err(f, c)
                        ctx.ob("C08.N1.overflow-becomes-error", "%s%s|%s(closure)" % (tag, op, c.name.split("::")[-1]),
                               ok, why, f.where(c.bb))
            names = sorted({c.name.split("::")[-1] for c in calls + cl_calls})
            ctx.ob("C08.N1.integer-arm-uses-checked-op", "%s%s" % (tag, op), names == list(want),
                   "integer arm of `%s` computes with %s, expected %s" % (op, names, list(want)), f.loc)
            for c in calls:
                ok, why = none_reaches_err(f, c)
                ctx.ob("C08.N1.overflow-becomes-error", "%s%s|%s" % (tag, op, c.name.split("::")[-1]), ok, why, f.where(c.bb))
                # N9: "always the exact result when operands and result fit": the one checked operation whose None
                # covers a case with a representable result is the remainder (MIN % -1 overflows in the quotient, the
                # remainder is 0): its None arm must answer that case
                if c.name.endswith(("::checked_rem_euclid", "::checked_rem")) and c.dest is not None and "p" not in c.dest:
                    sp_ = errflow.result_split(f, c.dest["l"])
                    handled = False
                    for (sb_, none_t, some_t, other_, adt_) in sp_.switches:
                        for t_ in (none_t or {other_}):
                            if _remainder_by_minus_one(f, t_, c):
                                handled = True
                    if not handled:
                        # or the divisor -1 never reaches the call (`I128(_, -1) => Ok(0)` matched first)
                        div_ = {o.key() for o in flow.origins(f, c.args[1])} if len(c.args) > 1 else set()
                        for (sb_, labels_) in flow.guards(f, c.bb):
                            t_ = f.term(sb_)
                            p_ = op_place(t_.get("discr", {})) if t_["k"] == "switch" else None
                            if p_ is None:
                                continue
                            # `if divisor == -1 { Some(0) } else { a.checked_rem_euclid(divisor) }`
                            cd_ = flow.cond_of(f, sb_)
                            side_ = flow.bool_true_labels(labels_)
                            if cd_.kind == "bin" and cd_.rv["op"] in ("Eq", "Ne") and side_ is not None:
                                from ..facts import const_int as _ci
                                for x_, y_ in ((cd_.rv["a"], cd_.rv["b"]), (cd_.rv["b"], cd_.rv["a"])):
                                    if "c" in y_ and "c" not in x_ and _ci(y_) == -1 and \
                                            ({o.key() for o in flow.origins(f, x_)} & div_):
                                        is_minus1 = ((cd_.rv["op"] == "Eq") != cd_.neg) == side_
                                        if not is_minus1:
                                            handled = True
                                continue
                            if not ({o.key() for o in flow.origins(f, t_["discr"])} & div_):
                                continue
                            minus1 = {"-1", str(2 ** 128 - 1), str(2 ** 64 - 1)}
                            has_arm = any(str(v_) in minus1 for v_, _x in t_["arms"])
                            if has_arm and not (set(labels_) & minus1):
                                handled = True
                    ctx.ob("C08.N9.remainder-by-minus-one-is-exact", "%s%s|%s" % (tag, op, c.name.split("::")[-1]), handled,
                           "`i128::MIN %% -1` is reported as an overflow (the quotient overflows) although the remainder, 0, is "
                           "exact and fits: the None arm of %s must return 0 for a divisor of -1" % c.name.split("::")[-1], f.where(c.bb))
            # operand order a OP b
            for c in calls:
                a = flow.origins(f, c.args[0])
                b = flow.origins(f, c.args[1]) if len(c.args) > 1 else []
                oa = any(o.proj and o.proj[-1] == "0" for o in a)
                ob_ = any(o.proj and o.proj[-1] == "1" for o in b)
                if op in ("sub", "int_div", "rem") and c.name.split("::")[-1] == want[0]:
                    ctx.ob("C08.N1.operand-order", "%s%s" % (tag, op), oa and ob_,
                           "checked op must be applied as lhs.OP(rhs); got %r / %r" % (a, b), f.where(c.bb))
            # float arm
            fw = FLOAT_TABLE[op]
            got = set()
            for bb in regs["F64"]:
                for s in f.stmts(bb):
                    rv = s.get("rv", {})
                    if rv.get("k") == "bin" and rv.get("ty") == "f64":
                        got.add("bin:" + rv["op"])
            for c in arms.calls_in(f, regs["F64"]):
                if c.name.startswith("std::f64::<impl f64>::") or c.name.startswith("core::f64::<impl f64>::"):
                    got.add("call:" + c.name.split("::")[-1])
            ctx.ob("C08.N1.float-arm-operator", "%s%s" % (tag, op), sorted(got) == list(fw),
                   "float arm of `%s` computes with %s, expected %s (`//` and `%%` must both be euclidean so that "
                   "(a // b) * b + a %% b == a)" % (op, sorted(got), list(fw)), f.loc)
        check_exactness_of_integer_floats(ctx, prog, tag)
        # N7b: the same saturation bound for every float -> int -> float exactness test (integer conversions of values)
        rt = float_roundtrip_sites(prog, [g for g in prog.fns.values() if g.crate == "minijinja"])
        for g, rb, guarded in rt:
            ctx.ob("C08.N7.float-to-int-round-trip-is-guarded-against-saturation", tag + g.path, guarded,
                   "`x as T as f64 == x` is not dominated by `x < T::MAX as f64`: 2^63 (or 2^N for the type) passes the test "
                   "through the saturating cast and is converted to T::MAX, a different integer", g.where(rb))
        ctx.floor("C08.N7 float->int->float exactness tests" + tag, len(rt), 6)
        check_mixed_orderings(ctx, prog, tag)
        # ---- N11 (after seed C08-9): who may turn an integer into a float (or back) inside the value core.  Comparing or
        # combining `x as f64` with a float silently rounds x above 2^53; the core's equality, order and operators go
        # through the exactness-aware conversions instead (`as_f64`: N7, the mixed orderings: N8).  A cast anywhere else
        # in value/mod.rs / value/ops.rs (a "fast path" for plain numbers) is reported.
        ALLOWED11 = {"minijinja::value::ops::as_f64": "N7 decides its exactness test",
                     "minijinja::value::cmp_f64_i128": "N8 decides its saturation bound",
                     "minijinja::value::cmp_f64_u128": "N8 decides its saturation bound"}
        n11 = 0
        for g in sorted(prog.fns.values(), key=lambda x: x.path):
            if g.crate != "minijinja" or not g.loc.f.endswith(("minijinja/src/value/mod.rs", "minijinja/src/value/ops.rs")):
                continue
            root = g.root or g.path
            for bb, i, st in query.casts(g, kinds=("IntToFloat", "FloatToInt")):
                n11 += 1
                rv = st["rv"]
                # conversions for output / construction are not comparisons: only the functions that compare, hash or
                # calculate are in scope (they take two values, or are the Eq / Ord / Hash impls)
                ok = root in ALLOWED11
                ctx.ob("C08.N11.integer-float-casts-stay-in-the-exact-conversions", "%s%s|%s as %s" % (tag, root, rv["from"], rv["to"]), ok,
                       ALLOWED11.get(root) or
                       "%s casts %s to %s inside the value core: above 2^53 the cast rounds, so a result computed from it "
                       "(an equality, an ordering, an operator) disagrees with the exact one and with the same number stored in "
                       "another width" % (root.split("::")[-1], rv["from"], rv["to"]), g.where(bb))
        ctx.floor("C08.N11 integer/float casts in the value core" + tag, n11, 10)
        # ---- N10 (= C07.V3, after seed C08-7): a float reached through the integer / float order (`0 <= -0.0`) is
        # compared with IEEE `==` first; a bit-pattern order (total_cmp) alone tells -0.0 from the integer 0
        from .c07 import check_float_order_vs_equality
        check_float_order_vs_equality(ctx, prog, tag, rule="C08.N10.float-order-agrees-with-float-equality", floor_name="C08.N10")
        # ---- N6
        check_narrow(ctx, prog, [(op, prog.fn(OPS + op)) for op in list(INT_TABLE) + ["neg", "div"] if prog.has_fn(OPS + op)], tag)
        # int_div: explicit zero check before checked_div_euclid is fine either way (checked returns None on 0)
        # ---- N5 + neg table
        ng = prog.fn(OPS + "neg")
        rets = [(bb, s["rv"]) for bb, i, s in ng.all_stmts() if s["k"] == "assign" and s["place"] == {"l": 0}
                and s["rv"]["k"] == "agg" and s["rv"].get("variant") == "Ok"]
        moved = [c for c in ng.calls() if c.dest == {"l": 0}]
        n5 = 0
        through = lambda k: 0 if (k.name.endswith("::into") or k.name.endswith("::from") or k.name == OPS + "int_as_value"
                                  or k.name == "core::result::Result::map") else None
        vals = [(bb, rv["ops"][0]) for bb, rv in rets]
        for c in moved:
            if c.name == "core::result::Result::map":
                vals.append((c.bb, c.args[0]))
        for bb, op_ in vals:
            for o in flow.origins(ng, op_, through_calls=through):
                n5 += 1
                ok = False
                what = repr(o)
                if o.kind == "un" and o.rv["op"] == "Neg":
                    ok = True
                elif o.kind == "call" and o.call.name.endswith("checked_neg"):
                    ok = True
                elif o.kind == "call" and o.call.name == "core::option::Option::ok_or_else":
                    src = flow.origins(ng, o.call.args[0])
                    ok = bool(src) and all(
                        x.kind == "call" and (x.call.name.endswith("checked_neg") or (
                            x.call.name.endswith("checked_mul") and const_int(x.call.args[1]) == -1)) for x in src)
                    what = repr(src)
                elif o.kind == "call" and o.call.name.endswith("checked_mul"):
                    ok = const_int(o.call.args[1]) == -1
                elif o.kind == "const":
                    v = o.const.get("int")
                    ok = v is not None and int(v) < 0
                    what = "constant %s" % (o.const.get("named") or o.const.get("d"))
                ctx.ob("C08.N5.neg-returns-a-negation", "%sneg|%s" % (tag, what.split(" bb")[0][:80]), ok,
                       "`neg` returns %s, which is not the result of a negation: the sign of the operand is kept"
                       % what, ng.where(bb))
        ctx.floor("C08.N5 values returned by neg" + tag, n5, 2)

        # ---- N2
        scope = [prog.fn(OPS + n) for n in NUMERIC_FNS if prog.has_fn(OPS + n)]
        scope += [f for f in prog.fns.values() if f.path.startswith("minijinja::value::argtypes::<impl core::convert::TryFrom<minijinja::value::Value> for")
                  and f.path.endswith("::try_from")]
        scope += [f for f in prog.fns.values() if f.root in {g.path for g in scope}]
        n2 = 0
        for f in scope:
            for bb, i, s in query.casts(f):
                rv = s["rv"]
                if not query.lossy_int_cast(rv["from"], rv["to"]):
                    continue
                n2 += 1
                src_roots = {o.key() for o in flow.origins(f, rv["op"])}
                dst = s["place"]
                ok = False
                # (a) the cast result only feeds the cast back + equality test
                if "p" not in dst:
                    us = errflow.uses(f, dst["l"])
                    only_back = bool(us)
                    for kind, ubb, obj in us:
                        if kind != "stmt":
                            only_back = False
                            break
                        j, st = obj
                        r2 = st["rv"]
                        if r2["k"] == "use":
                            # moved into a temp: follow one step
                            us2 = errflow.uses(f, st["place"]["l"]) if "p" not in st["place"] else []
                            if not all(k2 == "stmt" and o2[1]["rv"]["k"] == "cast" for k2, _, o2 in us2) or not us2:
                                only_back = False
                        elif r2["k"] != "cast":
                            only_back = False
                    if only_back:
                        ok = True
                # (b) guarded by the round-trip test on the same source
                if not ok and roundtrip_guard(f, bb, src_roots):
                    ok = True
                k = "%s%s|%s as %s" % (tag, f.path, rv["from"], rv["to"])
                ctx.ob("C08.N2.no-value-changing-cast", k, ok,
                       "`%s as %s` can change the value and is neither the round-trip test `x as T as S == x` nor "
                       "guarded by it" % (rv["from"], rv["to"]), f.where(bb))
        ctx.floor("C08.N2 potentially lossy integer casts examined" + tag, n2, 2)
        # ---- N12 (round 13, seed C08-13): "integer +, -, *, //, % are exact or an error".  The lossy form of the
        # integer -> float conversion (`as_f64(v, true)`: 2^127 becomes 1.7e38) belongs to the operator whose result is
        # a float by definition (true division).  An operator function that has an exact integer path - it asks
        # `coerce` for a common representation - never also converts its operands lossily: a "friendlier" fallback for
        # the operands `coerce` refuses turns an out-of-range integer subtraction into a rounded float instead of an
        # error.  Families: a top-level function of value/ops.rs with its nested functions and closures.
        n12 = 0
        AF = OPS + "as_f64"
        for f in sorted(prog.fns.values(), key=lambda x: x.path):
            if f.crate != "minijinja":
                continue
            for c in f.calls():
                if c.name != AF or len(c.args) < 2 or const_int(c.args[1]) != 1:
                    continue
                n12 += 1
                top = (f.root or f.path)
                parts = top.split("::")
                fam_root = "::".join(parts[:4]) if top.startswith(OPS) else top
                family = [g for k, g in prog.fns.items() if k == fam_root or k.startswith(fam_root + "::")]
                exact = [g.path for g in family for k in g.calls() if k.name == OPS + "coerce"]
                ctx.ob("C08.N12.lossy-conversion-only-in-float-valued-operators", "%s%s" % (tag, fam_root.replace(OPS, "")),
                       not exact, "%s converts an operand to f64 lossily although the operator has an exact integer path "
                       "(coerce is asked in %s): integers coerce refuses get a rounded float result instead of an error"
                       % (f.path.replace(OPS, ""), [x.replace(OPS, "") for x in exact]), f.where(c.bb))
        ctx.floor("C08.N12 lossy operand conversions" + tag, n12, 1)

        # ---- N3
        for n in NUMERIC_FNS:
            if not prog.has_fn(OPS + n):
                continue
            f = prog.fn(OPS + n)
            for g in [f] + prog.closures_of(f.path):
                for bb, t in query.asserts(g):
                    from .. import taint as _taint
                    kind_ = t["kind"]
                    if kind_.startswith(("DivisionByZero", "RemainderByZero")) and (
                            _taint.nonzero_guard(g, bb, _taint.divisor_of(g, t)) or _taint.positive_guard(g, bb, _taint.divisor_of(g, t))):
                        ctx.count("C08.N3 division asserts discharged by a dominating divisor test")
                        continue
                    if kind_ in ("Overflow:Div", "Overflow:Rem") and len(t.get("ops", [])) > 1 and (
                            _taint.positive_guard(g, bb, t["ops"][1])):
                        ctx.count("C08.N3 division asserts discharged by a dominating divisor test")
                        continue
                    ctx.ob("C08.N3.no-unchecked-arithmetic", "%s%s|%s" % (tag, g.path, t["kind"]), False,
                           "primitive arithmetic with an overflow/zero check that panics (debug) or wraps (release)",
                           g.where(bb))
        ctx.count("C08.N3 numeric operator functions scanned" + tag, len(NUMERIC_FNS))

        # ---- N4
        # read through a helper the conversion of the digits may have been moved into (`number_token(digits, radix, ..)`)
        en = prog.view("minijinja::compiler::lexer::Tokenizer::eat_number", keep=("syntax_error", "advance"), max_blocks=80)
        conv = [c for c in en.calls() if "from_str_radix" in c.name or c.name.endswith("str>::parse") or c.name.endswith("::parse")]
        ctx.floor("C08.N4 literal conversions in eat_number" + tag, len(conv), 2)
        conv_bbs = {k.bb for k in conv}
        walked = None
        for c in conv:
            ds = errflow.disposition(en, c)
            ok = bool(ds)
            for d in ds:
                if d[0] in ("returned", "propagated"):
                    continue
                if d[0] == "matched-not-propagated":
                    # accepted idiom: retry with a wider type; the Err arm must pass another conversion
                    others = [k.bb for k in conv if k.bb != c.bb]
                    if others and cfg.paths_must_pass(en, d[2], others, en.returns()):
                        continue
                ok = False
            if not ok:
                # the failure may travel as the *value* of a Result (a helper returns `Err(msg)`, the caller maps it to the
                # syntax error): walk the paths with the variants known.  A path on which the last conversion failed
                # must not return Ok.
                from .. import typestate
                if walked is None:
                    def on_call(k, st, val):
                        if k.bb in conv_bbs:
                            return [(0, ("Ok",)), (k.bb, ("Err",))]
                        return None
                    walked = typestate.explore(prog, en, 0, on_call)
                bad_exit = [x for x in walked.exits if x[0] == c.bb and (x[1] is None or "Ok" in x[1])]
                ok = not walked.budget_hit and bool(walked.exits) and not bad_exit
            ctx.ob("C08.N4.literal-conversion-error-is-reported",
                   "%seat_number|%s" % (tag, c.name.replace("core::num::<impl ", "").replace(">", "")),
                   ok, "result of %s is %s" % (c.name, ds), en.where(c.bb))
        for bb, i, s in query.casts(en):
            rv = s["rv"]
            if query.lossy_int_cast(rv["from"], rv["to"]) and rv["from"] in ("u128", "i128", "u64", "i64"):
                ctx.ob("C08.N4.no-lossy-cast-of-literal", "%seat_number|%s as %s" % (tag, rv["from"], rv["to"]), False,
                       "", en.where(bb))
    ctx.sample({"operator table": {k: list(v) for k, v in INT_TABLE.items()}, "float": {k: list(v) for k, v in FLOAT_TABLE.items()}})
    # positive control for the zero-count rule N6
    cprog = ctx.controls
    sub = ctx.fresh()
    check_narrow(sub, cprog, [("rem", cprog.fn("mjsa_controls::c08::rem"))], "control:")
    ctx.control("C08.N6", any(not o[2] for o in sub.obligations))
