"""Converse pairing: a closer runs only after its opener succeeded.

`decr_depth` subtracts from an unsigned counter, `BlockStack::pop` unwraps a checked_sub, `reset_closure` overwrites the
frame's closure: each is only sound after the matching opener (`incr_depth` Ok, `push()` true, `take_closure`) ran on
the same path.  Rule: in every function / closure of the interpreter that calls a closer, the closer is unreachable
from the function entry when the blocks that follow a *successful* opener are removed.  Branches on a flag that is
tested more than once and never written in the function are correlated: each assignment of such flags is analysed
separately."""
import itertools
import json

from .. import cfg, flow, errflow

C = "minijinja::vm::context::Context::"
PAIRS = [
    (C + "incr_depth", C + "decr_depth"),
    (C + "take_closure", C + "reset_closure"),
    ("minijinja::vm::state::BlockStack::push", "minijinja::vm::state::BlockStack::pop"),
    (C + "push_frame", C + "pop_frame"),
]


def success_blocks(f, o):
    """blocks entered only after opener call `o` succeeded"""
    if o.dest is not None and "p" not in o.dest:
        ty = f.locals[o.dest["l"]]
        if ty.get("adt") == "core::result::Result":
            sp = errflow.ok_err_blocks(f, o)
            return set(sp[0]) if sp is not None and sp[0] else set()
        if ty.get("s") == "bool":
            out = set()
            for bb in f.reachable:
                if f.term(bb)["k"] == "switch":
                    cd = flow.cond_of(f, bb)
                    if cd.kind == "call" and cd.call.bb == o.bb:
                        out |= {x for (_, x) in flow.true_side(f, bb, cd)}
            return out
    return {o.target} if o.target is not None else set()


def correlated_flags(f):
    """{place-key: [switch blocks]} for bool places tested at least twice and never stored to in f"""
    by = {}
    for bb in sorted(f.reachable):
        t = f.term(bb)
        if t["k"] != "switch" or t.get("ty") != "bool":
            continue
        cd = flow.cond_of(f, bb)
        if cd.kind == "local" and cd.place is not None:
            # canonical name of the tested flag: where its value comes from (a parameter, a captured variable ...)
            src = flow.origins(f, {"cp": cd.place})
            if src and all(o.kind == "arg" for o in src):
                key = json.dumps(sorted([o.arg, list(o.proj)] for o in src))
                by.setdefault(key, []).append((bb, cd))
    out = {}
    stored = {json.dumps(sorted([o.arg, list(o.proj)] for o in flow.origins(f, {"cp": d.place}) if o.kind == "arg"))
              for d in flow.stores(f)}
    for k, lst in by.items():
        if len(lst) >= 2 and k not in stored:
            out[k] = lst
    return out


def check_closers(ctx, prog, tag, rule, only=None, why=""):
    n = 0
    for f in sorted(prog.fns.values(), key=lambda x: x.path):
        if f.crate != "minijinja" or not f.loc.f.endswith(("minijinja/src/vm/mod.rs", "minijinja/src/vm/state.rs")):
            continue
        for op, cl in PAIRS:
            if only is not None and cl not in only:
                continue
            closers = f.calls_to(cl)
            if not closers or f.path in (op, cl):
                continue
            opens = f.calls_to(op)
            if cl.endswith("::pop_frame") and f.calls_to("minijinja::compiler::instructions::Instructions::get"):
                continue        # the interpreter loop pops what *another instruction* pushed: paired by C05.B1 / B5
            if not opens and cl.endswith("::reset_closure"):
                continue        # reset_closure is also the plain setter (Enclose creates the frame's closure with it)
            okb = set()
            for o in opens:
                okb |= success_blocks(f, o)
            flags = correlated_flags(f)
            keys = sorted(flags)[:3]
            for c in closers:
                n += 1
                bad = None
                for assign in itertools.product((True, False), repeat=len(keys)):
                    removed = set()
                    for k, v in zip(keys, assign):
                        for bb, cd in flags[k]:
                            removed |= cfg.bool_edges(f, bb, (not v) != cd.neg)
                    reach = cfg.reach_from(f, 0, avoid=okb, removed_edges=removed)
                    if c.bb in reach:
                        bad = dict(zip(keys, assign)) if keys else {}
                        break
                ctx.ob(rule, "%s%s|%s" % (tag, f.path.replace("minijinja::vm::", ""), cl.split("::")[-1]), bad is None,
                       "%s is reachable in %s without a successful %s before it on that path%s%s" % (
                           cl.split("::")[-1], f.path.split("::", 2)[-1], op.split("::")[-1],
                           (" (flags %s)" % bad) if bad else "", why), f.where(c.bb))
    return n
