"""Converse pairing: a closer runs only after its opener succeeded.

`decr_depth` subtracts from an unsigned counter, `BlockStack::pop` unwraps a checked_sub, `reset_closure` overwrites the
frame's closure: each is only sound after the matching opener (`incr_depth` Ok, `push()` true, `take_closure`) ran on
the same path.  Rule: in every function / closure of the interpreter that calls a closer, the closer is unreachable
from the function entry when the blocks that follow a *successful* opener are removed.  Branches on a flag that is
tested more than once and never written in the function are correlated: each assignment of such flags is analysed
separately."""
import itertools
import json

from .. import cfg, flow, errflow, inline, typestate

C = "minijinja::vm::context::Context::"
PAIRS = [
    (C + "incr_depth", C + "decr_depth"),
    (C + "take_closure", C + "reset_closure"),
    ("minijinja::vm::state::BlockStack::push", "minijinja::vm::state::BlockStack::pop"),
    (C + "push_frame", C + "pop_frame"),
]



PAIR_NAMES = ("incr_depth", "decr_depth", "take_closure", "reset_closure", "push", "pop", "push_frame", "pop_frame",
              "begin_capture", "end_capture", "eval_state", "with_execution_state", "get", "eval_impl", "call_block", "eval_macro")


def host_view(prog, f):
    """f with the private helpers an opener / closer may have been moved into spliced in"""
    return inline.view(prog, f, keep=PAIR_NAMES)


def analysed_in_callers(prog, f):
    """f is a crate-private helper and every function that calls it is analysed with f's body spliced in"""
    sites = prog.callers().get(f.path, [])
    return (not f.is_pub) and bool(sites) and all(f.path in inline.inlined_helpers(host_view(prog, c.fn)) for c in sites)


def paths_balance(prog, f, op, cl, allow_open_on_err=False):
    """path-sensitive re-examination of one pair in (the helper-transparent view of) f: returns
    (closer_without_opener, opener_without_closer): lists of block numbers, empty when every path is balanced"""
    v = host_view(prog, f)
    early, late = [], []

    def on_call(c, st, val):
        if c.name == op:
            ty = v.locals[c.dest["l"]] if (c.dest is not None and "p" not in c.dest) else {}
            if ty.get("adt") == "core::result::Result":
                return [(min(st + 1, 3), ("Ok",)), (st, ("Err",))]
            if ty.get("s") == "bool":
                return [(min(st + 1, 3), ("B", "1")), (st, ("B", "0"))]
            return [(min(st + 1, 3), None)]
        if c.name == cl:
            if st == 0:
                early.append(c.bb)
            return [(max(st - 1, 0), None)]
        return None

    def on_return(st, variants, bb):
        if st > 0 and not (allow_open_on_err and variants is not None and set(variants) == {"Err"}):
            late.append(bb)
    r = typestate.explore(prog, v, 0, on_call, on_return)
    if r.budget_hit:
        return [-1], [-1]
    paths_balance.ran = r.ran
    return sorted(set(early)), sorted(set(late))


def success_blocks(f, o):
    """blocks entered only after opener call `o` succeeded"""
    if o.dest is not None and "p" not in o.dest:
        ty = f.locals[o.dest["l"]]
        if ty.get("adt") == "core::result::Result":
            sp = errflow.ok_err_blocks(f, o)
            return set(sp[0]) if sp is not None and sp[0] else set()
        if ty.get("s") == "bool":
            out = set()
            for bb in f.reachable:
                if f.term(bb)["k"] == "switch":
                    cd = flow.cond_of(f, bb)
                    if cd.kind == "call" and cd.call.bb == o.bb:
                        out |= {x for (_, x) in flow.true_side(f, bb, cd)}
            return out
    return {o.target} if o.target is not None else set()


def correlated_flags(f):
    """{place-key: [switch blocks]} for bool places tested at least twice and never stored to in f"""
    by = {}
    for bb in sorted(f.reachable):
        t = f.term(bb)
        if t["k"] != "switch" or t.get("ty") != "bool":
            continue
        cd = flow.cond_of(f, bb)
        if cd.kind == "local" and cd.place is not None:
            # canonical name of the tested flag: where its value comes from (a parameter, a captured variable ...)
            src = flow.origins(f, {"cp": cd.place})
            if src and all(o.kind == "arg" for o in src):
                key = json.dumps(sorted([o.arg, list(o.proj)] for o in src))
                by.setdefault(key, []).append((bb, cd))
    out = {}
    stored = {json.dumps(sorted([o.arg, list(o.proj)] for o in flow.origins(f, {"cp": d.place}) if o.kind == "arg"))
              for d in flow.stores(f)}
    for k, lst in by.items():
        if len(lst) >= 2 and k not in stored:
            out[k] = lst
    return out


def check_closers(ctx, prog, tag, rule, only=None, why=""):
    n = 0
    for f in sorted(prog.fns.values(), key=lambda x: x.path):
        if f.crate != "minijinja" or not f.loc.f.endswith(("minijinja/src/vm/mod.rs", "minijinja/src/vm/state.rs")):
            continue
        for op, cl in PAIRS:
            if only is not None and cl not in only:
                continue
            closers = f.calls_to(cl)
            if not closers or f.path in (op, cl):
                continue
            opens = f.calls_to(op)
            if not opens and analysed_in_callers(prog, f):
                continue        # the closing half of a pair split over helpers: decided where the halves meet
            if not opens and f.kind == "closure" and f.root and prog.has_fn(f.root):
                # an undo handed to a combinator (`.map_err(|e| { pop_frame(); e })`): it runs on the side of the Result on
                # which std calls it - decided on the paths of the function that builds the closure
                early_, _ = paths_balance(prog, prog.fn(f.root), op, cl)
                if f.path in getattr(paths_balance, "ran", ()) and not early_:
                    continue
            if cl.endswith("::pop_frame") and f.calls_to("minijinja::compiler::instructions::Instructions::get"):
                continue        # the interpreter loop pops what *another instruction* pushed: paired by C05.B1 / B5
            if not opens and cl.endswith("::reset_closure"):
                continue        # reset_closure is also the plain setter (Enclose creates the frame's closure with it)
            okb = set()
            for o in opens:
                okb |= success_blocks(f, o)
            flags = correlated_flags(f)
            keys = sorted(flags)[:3]
            for c in closers:
                n += 1
                bad = None
                for assign in itertools.product((True, False), repeat=len(keys)):
                    removed = set()
                    for k, v in zip(keys, assign):
                        for bb, cd in flags[k]:
                            removed |= cfg.bool_edges(f, bb, (not v) != cd.neg)
                    reach = cfg.reach_from(f, 0, avoid=okb, removed_edges=removed)
                    if c.bb in reach:
                        bad = dict(zip(keys, assign)) if keys else {}
                        break
                if bad is not None:
                    # the success of the opener may live in a value (`if rv.is_ok()`, `.map_err(|e| { undo; e })`): walk the
                    # paths with the variants of Result locals known
                    early, _ = paths_balance(prog, f, op, cl)
                    if not early:
                        bad = None
                ctx.ob(rule, "%s%s|%s" % (tag, f.path.replace("minijinja::vm::", ""), cl.split("::")[-1]), bad is None,
                       "%s is reachable in %s without a successful %s before it on that path%s%s" % (
                           cl.split("::")[-1], f.path.split("::", 2)[-1], op.split("::")[-1],
                           (" (flags %s)" % bad) if bad else "", why), f.where(c.bb))
    return n
