"""C06 — inheritance / include / import composition: the error clauses.

Block resolution over chain shapes is value-level and not decided.  Decided (multi_template configurations):
 I1 double extends: in the LoadBlocks handler `parent_instructions.is_some()` guards the `load_blocks` call; its true
    side returns Err; the loaded instructions are stored into that same variable; output is discarded from then on
    (begin_capture(Discard)) and un-discarded when the parent's instructions are swapped in (end_capture after take()).
 I2 inheritance cycles: in load_blocks `loaded_templates.contains(name)` guards `get_template`; the true side returns
    Err; every successful load inserts into `loaded_templates`; errors of get_template / instructions_and_blocks are
    propagated (missing parent is an error).
 I3 include cycles: perform_include charges the recursion depth before evaluating (checked by C11.R1; referenced).
 I4 missing includes: in perform_include an Err of get_template is discarded only under `kind() == TemplateNotFound`,
    every other Err is returned; a TemplateNotFound error is produced when something was tried and ignore_missing
    is false.
"""
from .. import cfg, flow, errflow, query
from ..facts import op_place

EI = "minijinja::vm::Executor::eval_impl"
LB = "minijinja::vm::Executor::load_blocks"
PI = "minijinja::vm::Executor::perform_include"
GET_T = "minijinja::vm::state::State::get_template"
IAB = "minijinja::template::Template::instructions_and_blocks"
BEGIN = "minijinja::output::Output::begin_capture"
END = "minijinja::output::Output::end_capture"
GOOD = ("returned", "propagated")


def err_returned_from(fn, start, removed=()):
    """every path from `start` (under removed edges) reaches a return with an Err assigned to _0"""
    reach = cfg.reach_from(fn, start, removed_edges=removed)
    rets = [b for b in fn.returns() if b in reach]
    marks = set()
    for b in reach:
        for s in fn.stmts(b):
            if s["k"] == "assign" and s["place"] == {"l": 0} and s["rv"]["k"] == "agg" and s["rv"].get("variant") == "Err":
                marks.add(b)
        t = fn.term(b)
        if t["k"] == "call" and t.get("dest") == {"l": 0}:
            marks.add(b)
    if not rets:
        return False
    # no way back into the normal flow: every return reachable must be behind an Err mark
    return cfg.paths_must_pass(fn, start, marks, rets, removed_edges=removed)


def run(ctx):
    ctx.explain("C06 (error clauses only): guard/dominance rules on the LoadBlocks handler, load_blocks and "
                "perform_include: double extends, inheritance cycles and missing templates reach `return Err` on "
                "every path; the only discarded loader error is TemplateNotFound inside an include choice list; "
                "output is discarded between LoadBlocks and the swap to the parent's instructions.  Which block "
                "definition renders for a given chain (most-derived / super order) is value-level and NOT decided.")
    ctx.assume("include recursion accounting is decided under C11.R1 (perform_include is a charged re-entry)")
    cfgs = [c for c in ctx.configs() if c != "MIN"]
    for cname in cfgs:
        prog = ctx.program(cname)
        tag = "" if cname == "MAX" else "[%s]" % cname
        ev = prog.fn(EI)
        lb = prog.fn(LB)
        pi = prog.fn(PI)
        # ---- I1
        lcalls = ev.calls_to(LB)
        ctx.floor("C06.I1 load_blocks call sites in eval_impl" + tag, len(lcalls), 1)
        for c in lcalls:
            # where does the result go?  Some(result) -> local P
            ok_blocks = errflow.ok_err_blocks(ev, c)
            ds = errflow.disposition(ev, c)
            ctx.ob("C06.I1.load-error-propagated", tag + "eval_impl|load_blocks", bool(ds) and all(d[0] in GOOD for d in ds),
                   "%s" % ds, ev.where(c.bb))
            parent_locals = set()
            for bb, i, s in ev.all_stmts():
                rv = s.get("rv", {})
                if s["k"] == "assign" and rv.get("k") == "agg" and rv.get("variant") == "Some" and "p" not in s["place"]:
                    if any(o.kind == "call" and o.call.bb == c.bb for o in flow.origins(ev, rv["ops"][0])):
                        # follow the move into the long-lived variable
                        tgt = s["place"]["l"]
                        parent_locals.add(tgt)
                        for bb2, i2, s2 in ev.all_stmts():
                            if s2["k"] == "assign" and s2["rv"]["k"] == "use" and op_place(s2["rv"]["op"]) == {"l": tgt} \
                                    and "p" not in s2["place"]:
                                parent_locals.add(s2["place"]["l"])
            ctx.ob("C06.I1.loaded-parent-is-remembered", tag + "eval_impl|load_blocks", bool(parent_locals),
                   "the result of load_blocks is not stored as Some(..)", ev.where(c.bb))
            guarded = False
            err_side_ok = False
            for (sb, taken) in flow.guards(ev, c.bb):
                cd = flow.cond_of(ev, sb)
                if cd.kind == "call" and cd.call.name == "core::option::Option::is_some":
                    roots = {o.idx for o in flow.origins(ev, cd.call.args[0]) if o.kind == "undef"} | {
                        op_place(cd.call.args[0])["l"]}
                    src = set()
                    for o in flow.origins(ev, cd.call.args[0]):
                        if o.kind in ("agg", "const", "call", "undef", "other"):
                            pass
                    # the tested local: &P
                    tested = set()
                    for d in flow.whole_defs(ev, op_place(cd.call.args[0])["l"]):
                        if d.kind == "stmt" and d.rv["k"] == "ref":
                            tested.add(d.rv["place"]["l"])
                    side = flow.bool_true_labels(taken)
                    if (tested & parent_locals) and side is not None and (side != (not cd.neg)):
                        guarded = True
                        err_side_ok = all(err_returned_from(ev, x) for (_, x) in flow.true_side(ev, sb, cd))
            ctx.ob("C06.I1.second-extends-is-guarded", tag + "eval_impl|load_blocks", guarded,
                   "load_blocks is not guarded by `parent_instructions.is_some()` on the variable the result is "
                   "stored in: a second {% extends %} silently replaces the first", ev.where(c.bb))
            ctx.ob("C06.I1.second-extends-returns-error", tag + "eval_impl|load_blocks", err_side_ok,
                   "the is_some() side does not end in `return Err`", ev.where(c.bb))
            # discard after load
            if ok_blocks:
                begins = [k for k in ev.calls_to(BEGIN)]
                disc = []
                for k in begins:
                    for o in flow.origins(ev, k.args[1]):
                        if (o.kind == "agg" and o.rv.get("variant") == "Discard") or (
                                o.kind == "const" and "Discard" in o.const.get("d", "")):
                            disc.append(k.bb)
                # loop header = the instruction fetch
                heads = [k.bb for k in ev.calls() if k.name == "minijinja::compiler::instructions::Instructions::get"]
                ok = bool(disc) and all(cfg.paths_must_pass(ev, b, disc, heads) for b in ok_blocks[0])
                ctx.ob("C06.I1.output-discarded-after-extends", tag + "eval_impl|load_blocks", ok,
                       "after a successful LoadBlocks the handler continues without begin_capture(Discard): text "
                       "outside blocks of the child would be emitted", ev.where(c.bb))
        # swap to the parent's instructions ends the discard
        takes = [k for k in ev.calls() if k.name == "core::option::Option::take"]
        swapped = False
        for k in takes:
            tested = set()
            for d in flow.whole_defs(ev, op_place(k.args[0])["l"]):
                if d.kind == "stmt" and d.rv["k"] == "ref":
                    tested.add(d.rv["place"]["l"])
            sp = errflow.result_split(ev, k.dest["l"]) if k.dest and "p" not in k.dest else None
            if sp and sp.switches:
                for (sb, none_t, some_t, other, adt) in sp.switches:
                    for st in some_t:
                        heads = [x.bb for x in ev.calls() if x.name == "minijinja::compiler::instructions::Instructions::get"]
                        ends = [x.bb for x in ev.calls_to(END)]
                        if cfg.paths_must_pass(ev, st, ends, heads):
                            swapped = True
        ctx.ob("C06.I1.discard-ends-when-parent-starts", tag + "eval_impl", swapped,
               "taking the stashed parent instructions is not followed by end_capture on every path", ev.loc)

        # ---- I2
        gets = lb.calls_to(GET_T)
        ctx.floor("C06.I2 get_template calls in load_blocks" + tag, len(gets), 1)
        for c in gets:
            ds = errflow.disposition(lb, c)
            ctx.ob("C06.I2.missing-parent-is-an-error", tag + "load_blocks|get_template",
                   bool(ds) and all(d[0] in GOOD for d in ds), "%s" % ds, lb.where(c.bb))
            g_ok = False
            e_ok = False
            for (sb, taken) in flow.guards(lb, c.bb):
                cd = flow.cond_of(lb, sb)
                if cd.kind == "call" and cd.call.name.endswith("BTreeSet::contains") and any(
                        "loaded_templates" in o.proj for o in flow.origins(lb, cd.call.args[0])):
                    side = flow.bool_true_labels(taken)
                    if side is not None and side != (not cd.neg):
                        g_ok = True
                        e_ok = all(err_returned_from(lb, x) for (_, x) in flow.true_side(lb, sb, cd))
            ctx.ob("C06.I2.cycle-check-guards-load", tag + "load_blocks|get_template", g_ok,
                   "get_template is not guarded by `loaded_templates.contains(name)`: an inheritance cycle loops "
                   "forever", lb.where(c.bb))
            ctx.ob("C06.I2.cycle-returns-error", tag + "load_blocks|get_template", e_ok, "", lb.where(c.bb))
        for c in lb.calls_to(IAB):
            ds = errflow.disposition(lb, c)
            ctx.ob("C06.I2.parent-compile-error-propagated", tag + "load_blocks|instructions_and_blocks",
                   bool(ds) and all(d[0] in GOOD for d in ds), "%s" % ds, lb.where(c.bb))
        ins = [k for k in lb.calls() if k.name.endswith("BTreeSet::insert") and any(
            "loaded_templates" in o.proj for o in flow.origins(lb, k.args[0]))]
        oks = [bb for bb, i, s in lb.all_stmts() if s["k"] == "assign" and s["place"] == {"l": 0}
               and s["rv"]["k"] == "agg" and s["rv"].get("variant") == "Ok"]
        ctx.ob("C06.I2.every-successful-load-is-recorded", tag + "load_blocks", bool(ins) and bool(oks) and all(
            cfg.paths_must_pass(lb, 0, [k.bb for k in ins], [b]) for b in oks),
               "a path to Ok(..) in load_blocks skips loaded_templates.insert: the cycle check never trips",
               lb.loc)

        # ---- I4
        pgets = pi.calls_to(GET_T)
        ctx.floor("C06.I4 get_template calls in perform_include" + tag, len(pgets), 1)
        for c in pgets:
            sp = errflow.ok_err_blocks(pi, c)
            ctx.need(sp is not None and sp[1], "C06.I4: result of get_template in perform_include is not matched")
            # the TemplateNotFound test
            removed = set()
            found = False
            for bb in sorted(pi.reachable):
                if pi.term(bb)["k"] != "switch":
                    continue
                cd = flow.cond_of(pi, bb)
                eq = flow.enum_eq(pi, cd)
                if eq and eq[0] == "TemplateNotFound" and any(
                        o.kind == "call" and o.call.name == "minijinja::error::Error::kind" for o in eq[1]):
                    found = True
                    removed |= flow.true_side(pi, bb, cd)
            ok = all(err_returned_from(pi, e, removed) for e in sp[1])
            ctx.ob("C06.I4.only-not-found-is-skipped", tag + "perform_include|get_template", found and ok,
                   "an Err of get_template other than TemplateNotFound can be discarded in perform_include "
                   "(or the TemplateNotFound test is gone)", pi.where(c.bb))
        # TemplateNotFound is produced at the end
        made = False
        g_ok = False
        for bb, i, s in pi.all_stmts():
            rv = s.get("rv", {})
            if rv.get("k") == "agg" and rv.get("adt") == "minijinja::error::ErrorKind" and rv.get("variant") == "TemplateNotFound":
                made = True
                conds = []
                for (sb, taken) in flow.guards(pi, bb):
                    cd = flow.cond_of(pi, sb)
                    side = flow.bool_true_labels(taken)
                    if cd.kind == "call" and cd.call.name.endswith("::is_empty"):
                        conds.append(("is_empty", side != cd.neg if side is not None else None))
                    elif cd.kind == "local" and cd.place is not None:
                        conds.append(("arg%d" % cd.place["l"], side != cd.neg if side is not None else None))
                    elif cd.kind == "discr":
                        pass        # loop exit (iterator exhausted) / drop flags
                    else:
                        conds.append(("extra:%r" % cd, None))
                g_ok = ("is_empty", False) in conds and ("arg4", False) in conds and len(conds) == 2
        ctx.ob("C06.I4.not-found-reported-unless-ignored", tag + "perform_include", made and g_ok,
               "Err(TemplateNotFound) must be produced when templates were tried and ignore_missing is false",
               pi.loc)
        ctx.count("configs")
    ctx.sample({"anchors": [EI, LB, PI]})
