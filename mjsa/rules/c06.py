"""C06 — inheritance / include / import composition: the error clauses.

Which output a given chain shape produces is value-level and not decided; the layer discipline it rests on (I5) is.
Decided (multi_template configurations):
 I1 double extends: in the LoadBlocks handler `parent_instructions.is_some()` guards the `load_blocks` call; its true
    side returns Err; the loaded instructions are stored into that same variable; output is discarded from then on
    (begin_capture(Discard)) and un-discarded when the parent's instructions are swapped in (end_capture after take()).
 I2 inheritance cycles: in load_blocks `loaded_templates.contains(name)` guards `get_template`; the true side returns
    Err; every successful load inserts into `loaded_templates`; errors of get_template / instructions_and_blocks are
    propagated (missing parent is an error).
 I3 include cycles: perform_include charges the recursion depth before evaluating (checked by C11.R1; referenced).
 I4 missing includes: in perform_include an Err of get_template is discarded only under `kind() == TemplateNotFound`,
    every other Err is returned; a TemplateNotFound error is produced when something was tried and ignore_missing
    is false.
 I5 block layers: a block's definitions form a vector ordered most-derived first that only grows at its end, one
    layer per block of each loaded parent, appended to the existing entry; `depth` starts at 0, moves +1 only under
    `depth + 1 < len` (super) and -1 after it, or is restored from a checkpoint; the layer rendered by a block call
    and by super() (after a successful push) is `instructions[depth]`; super() with no further layer returns Err.
"""
from .. import cfg, flow, errflow, query, arms
from ..facts import op_place, const_int

EI = "minijinja::vm::Executor::eval_impl"
LB = "minijinja::vm::Executor::load_blocks"
PI = "minijinja::vm::Executor::perform_include"
GET_T = "minijinja::vm::state::State::get_template"
IAB = "minijinja::template::Template::instructions_and_blocks"
BEGIN = "minijinja::output::Output::begin_capture"
END = "minijinja::output::Output::end_capture"
GOOD = ("returned", "propagated")


def err_returned_from(fn, start, removed=()):
    """every path from `start` (under removed edges) reaches a return with an Err assigned to _0"""
    reach = cfg.reach_from(fn, start, removed_edges=removed)
    rets = [b for b in fn.returns() if b in reach]
    marks = set()
    for b in reach:
        for s in fn.stmts(b):
            if s["k"] == "assign" and s["place"] == {"l": 0} and s["rv"]["k"] == "agg" and s["rv"].get("variant") == "Err":
                marks.add(b)
        t = fn.term(b)
        if t["k"] == "call" and t.get("dest") == {"l": 0}:
            marks.add(b)
    if not rets:
        return False
    # no way back into the normal flow: every return reachable must be behind an Err mark
    return cfg.paths_must_pass(fn, start, marks, rets, removed_edges=removed)


BS = "minijinja::vm::state::BlockStack"
PS = "minijinja::vm::Executor::perform_super"
CB = "minijinja::vm::Executor::call_block"
APPEND = BS + "::append_instructions"
BS_INSTR = BS + "::instructions"
WES = "minijinja::vm::state::State::with_execution_state"


def _field_of(place, adt, field):
    pr = place.get("p", []) if place else []
    return any(isinstance(e, dict) and e.get("of") == adt and e.get("n") == field for e in pr)


def _bs_fields(prog):
    """(name of the layer vector, name of the cursor) of BlockStack, found by type: the one Vec field and the one usize
    field (`instructions` / `depth` on the pinned tree; a rename keeps the roles)"""
    a = prog.adts.get(BS)
    vec, cur = "instructions", "depth"
    if a:
        fl = a["variants"][0]["fields"]
        vs = [f_["name"] for f_ in fl if f_["ty"].get("s", "").startswith("alloc::vec::Vec<")]
        us = [f_["name"] for f_ in fl if f_["ty"].get("prim") == "usize"]
        if len(vs) == 1:
            vec = vs[0]
        if len(us) == 1:
            cur = us[0]
    return vec, cur


def check_block_layers(ctx, prog, tag):
    """I5: the layer discipline block resolution rests on.  A block's definitions form a vector ordered from the most
    derived template to the root; `depth` selects the layer being rendered.  Decided structurally:
      - the vector only grows at its end, and only while a parent template is loaded (load_blocks), one layer per
        block of the parent, appended to the existing entry (never replacing it);
      - `depth` starts at 0, moves by +1 only under `depth + 1 < len` (super()) and by -1 after it; the only other
        writes restore a checkpoint of the same fields;
      - the layer rendered is `instructions[depth]`, by super() after a successful push and by a block call;
      - super() with no further layer is an error."""
    n = 0
    VEC, CUR = _bs_fields(prog)
    # -- mutable uses of the layer vector
    for f in prog.fns.values():
        if f.crate != "minijinja":
            continue
        for c in f.calls():
            if not c.args:
                continue
            a0 = op_place(c.args[0])
            if a0 is None or "p" in a0:
                continue
            for d in flow.whole_defs(f, a0["l"]):
                if d.kind == "stmt" and d.rv["k"] == "ref" and d.rv.get("mut") and _field_of(d.rv["place"], BS, VEC):
                    n += 1
                    last = c.name.split("::")[-1]
                    ok = last == "push"
                    why = "layers may only be appended"
                    if last == "truncate":
                        # checkpoint restore: the length comes from a BlockCheckpoint recorded with len()
                        src = flow.origins(f, c.args[1])
                        ok = bool(src) and all("instruction_count" in o.proj for o in src)
                        why = "truncate to something other than a recorded checkpoint length"
                    ctx.ob("C06.I5.layer-vector-only-grows-at-the-end", tag + "%s|%s" % (f.path, last), ok,
                           "%s on BlockStack.instructions: %s; reordering or dropping layers changes which "
                           "definition a block or super() renders" % (c.name, why), f.where(c.bb))
    ctx.floor("C06.I5 mutable uses of BlockStack.instructions" + tag, n, 2)
    # -- writers of depth
    nd = 0
    for f, bb, w, p in query.field_accessors(prog, BS, CUR):
        if not w:
            continue
        for st in f.stmts(bb):
            if st["k"] != "assign" or not _field_of(st["place"], BS, CUR) or st["rv"]["k"] != "use":
                continue
            nd += 1
            src = flow.origins(f, st["rv"]["op"])
            kinds = set()
            for o in src:
                if o.kind == "bin" and o.rv["op"] in ("Add", "AddWithOverflow") and const_int(o.rv["b"]) == 1 and \
                        (_field_of(op_place(o.rv["a"]) or {}, BS, CUR) or any(CUR in q.proj for q in flow.origins(f, o.rv["a"]))):
                    kinds.add("+1")
                elif o.kind == "call" and o.call.name.endswith("::checked_sub") and const_int(o.call.args[1]) == 1:
                    kinds.add("-1")
                elif o.kind == "call" and o.call.name.endswith("Option::unwrap"):
                    inner = flow.origins(f, o.call.args[0])
                    if all(i.kind == "call" and i.call.name.endswith("::checked_sub") and const_int(i.call.args[1]) == 1 for i in inner):
                        kinds.add("-1")
                    else:
                        kinds.add("?")
                elif "depth" in o.proj or CUR in o.proj:
                    kinds.add("restore")
                else:
                    kinds.add("?")
            ok = bool(kinds) and "?" not in kinds
            if "+1" in kinds:
                # guarded by depth + 1 < len(instructions)
                g_ok = False
                for (sb, taken) in flow.guards(f, bb):
                    cd = flow.cond_of(f, sb)
                    side = flow.bool_true_labels(taken)
                    if cd.kind == "bin" and cd.rv["op"] in ("Lt", "Ge") and side is not None:
                        # `depth + 1 < len` on its true side, or `depth + 1 >= len` (an early return) on its false side
                        truth = (side != cd.neg)
                        if truth != (cd.rv["op"] == "Lt"):
                            continue
                        la = flow.origins(f, cd.rv["a"])
                        lb_ = flow.origins(f, cd.rv["b"])
                        if any(o.kind == "bin" and const_int(o.rv["b"]) == 1 for o in la) and any(
                                o.kind == "call" and o.call.name.endswith("::len") for o in lb_):
                            g_ok = True
                ok = ok and g_ok
            ctx.ob("C06.I5.depth-moves-one-layer-at-a-time", tag + "%s|%s" % (f.path, "/".join(sorted(kinds))), ok,
                   "BlockStack.depth is written with %s; allowed: +1 under `depth + 1 < len`, -1, or a checkpoint "
                   "restore" % sorted(kinds), f.where(bb))
    ctx.floor("C06.I5 writes of BlockStack.depth" + tag, nd, 2)
    for f, bb, i, rv in query.aggregates_of(prog, BS):
        if (f.trait or "").endswith("Default"):
            continue
        names = rv.get("fields", [])
        if CUR in names:
            v = const_int(rv["ops"][names.index(CUR)])
            ctx.ob("C06.I5.new-stack-starts-at-most-derived", tag + f.path, v == 0,
                   "a new BlockStack starts at depth %r, not 0 (the most derived definition)" % v, f.where(bb))
    # -- the layer rendered is instructions[depth]
    gi = prog.fn(BS_INSTR)
    idx_ok = False
    for c in gi.calls():
        if c.name.split("::")[-1] in ("get", "index", "get_unchecked") and len(c.args) > 1:
            if any(CUR in o.proj for o in flow.origins(gi, c.args[1])):
                idx_ok = True
    ctx.ob("C06.I5.rendered-layer-is-indexed-by-depth", tag + BS_INSTR, idx_ok,
           "BlockStack::instructions() does not index the layer vector with `depth`", gi.loc)
    # -- layers are registered only while loading a parent, onto the existing entry, one per block
    lb = prog.fn(LB)
    for c in prog.calls_of(APPEND):
        # (the constructor may build its one-element stack with the same helper, on a stack it has just created)
        fresh = c.fn.path == BS + "::new" and all(o.kind == "call" and o.call.name.split("::")[-1] in ("default", "new")
                                                   for o in flow.origins(c.fn, c.args[0]))
        ctx.ob("C06.I5.layers-appended-only-by-load_blocks", tag + c.fn.path, c.fn.path == LB or fresh,
               "append_instructions outside load_blocks", c.fn.where(c.bb))
    apps = lb.calls_to(APPEND)
    ctx.ob("C06.I5.parent-layers-are-appended", tag + "load_blocks", bool(apps),
           "load_blocks no longer appends the parent's blocks to the existing stacks", lb.loc)
    for c in apps:
        # the stack the layer is appended to is one stored (or being stored) in `state.blocks` under that name:
        # entry().or_default(), a matched Occupied/Vacant entry, get_mut() ...; never a fresh stack that replaces one
        def rooted_in_blocks(op, depth=0):
            src_ = flow.origins(lb, op)
            if not src_ or depth > 5:
                return False
            for o_ in src_:
                if "blocks" in o_.proj and o_.kind == "arg":
                    continue
                if o_.kind == "call" and o_.call.args and "BlockStack" not in o_.call.name.split("::")[-2:][0] and \
                        rooted_in_blocks(o_.call.args[0], depth + 1):
                    continue
                return False
            return True
        ok = rooted_in_blocks(c.args[0])
        via_entry = ok
        ctx.ob("C06.I5.parent-layer-goes-below-existing-entry", tag + "load_blocks", ok and via_entry,
               "the parent's block is not appended to `state.blocks.entry(name).or_default()`: an existing (more "
               "derived) definition would be replaced or shadowed", lb.where(c.bb))
    nexts = [c for c in lb.calls() if c.name.endswith("Iterator::next") or c.name.endswith("::next")]
    reg_ok = False
    for c in nexts:
        sp = errflow.result_split(lb, c.dest["l"])
        for (sb, none_t, some_t, other, adt) in (sp.switches if sp else []):
            if some_t and all(cfg.paths_must_pass(lb, st_, [a.bb for a in apps], [c.bb]) for st_ in some_t):
                reg_ok = True
    ctx.ob("C06.I5.every-parent-block-is-registered", tag + "load_blocks", reg_ok,
           "an iteration over the parent's blocks can skip append_instructions", lb.loc)
    # -- mutators of State.blocks
    STATE = "minijinja::vm::state::State"
    for f in prog.fns.values():
        if f.crate != "minijinja":
            continue
        for c in f.calls():
            if not c.args or c.name.split("::")[-1] not in ("insert", "remove", "clear", "retain", "pop_first", "pop_last", "append", "split_off", "extend"):
                continue
            if "BTreeMap" not in c.name:
                continue
            if any("blocks" in o.proj and o.kind == "arg" and f.locals[o.arg].get("adt") == STATE for o in flow.origins(f, c.args[0])):
                # (the checkpoint restore may sit in a private helper of with_execution_state)
                host_ok = f.path == WES or (not f.is_pub and prog.callers().get(f.path) and all(
                    k.fn.path == WES for k in prog.callers().get(f.path, [])))
                ok = host_ok and c.name.endswith("::retain")
                ctx.ob("C06.I5.block-table-entries-are-stable", tag + "%s|%s" % (f.path, c.name.split("::")[-1]), ok,
                       "State.blocks is mutated by %s outside the checkpoint restore" % c.name, f.where(c.bb))
    # -- super(): no further layer is an error; otherwise the current layer is rendered
    ps = prog.fn(PS)
    pushes = ps.calls_to(BS + "::push")
    ctx.floor("C06.I5 BlockStack::push in perform_super" + tag, len(pushes), 1)
    for c in pushes:
        tested = False
        for sb in sorted(ps.reachable):
            if ps.term(sb)["k"] != "switch":
                continue
            cd = flow.cond_of(ps, sb)
            if cd.kind == "call" and cd.call is c:
                tested = True
                false_edges = cfg.bool_edges(ps, sb, cd.neg)
                ok = all(err_returned_from(ps, x) for (_, x) in false_edges)
                ctx.ob("C06.I5.super-without-parent-is-an-error", tag + "perform_super", ok,
                       "when BlockStack::push() reports that no further layer exists perform_super does not return "
                       "Err on every path", ps.where(sb))
        ctx.ob("C06.I5.super-tests-push", tag + "perform_super", tested, "result of push() is not branched on", ps.where(c.bb))
    # -- I6: the block table belongs to one inheritance family.  Code of the same family (a layer taken from a
    # BlockStack) runs on the caller's table; anything else - an included template, a macro body - must get its own
    # (Replace) or a checkpointed one (Isolate), on every path.
    BSTATE = "minijinja::vm::state::BlockState"
    n6 = 0
    for f in prog.fns.values():
        if f.crate != "minijinja":
            continue
        for c in f.calls_to(WES):
            bs_arg = None
            for a in c.args:
                p_ = op_place(a)
                if p_ is not None and "p" not in p_ and f.locals[p_["l"]].get("adt") == BSTATE:
                    bs_arg = a
            if bs_arg is None:
                continue
            n6 += 1
            kinds = set()
            for o in flow.origins(f, bs_arg):
                if o.kind == "agg" and o.rv.get("adt") == BSTATE:
                    kinds.add(o.rv.get("variant"))
                elif o.kind == "const":
                    d = o.const.get("d", "")
                    kinds.add("Keep" if "Keep" in d else "Isolate" if "Isolate" in d else "Replace" if "Replace" in d else "?")
                else:
                    kinds.add("?")
            src = flow.origins(f, c.args[1])
            same_family = bool(src) and all(o.kind == "call" and o.call.name == BS_INSTR for o in src)
            if same_family:
                ok = kinds == {"Keep"}
                why = "a block layer must run on the table it was taken from (Keep)"
            else:
                ok = bool(kinds) and kinds <= {"Replace", "Isolate"}
                why = "code of another template (included template, macro body) must not run on the caller's block " \
                      "table: its extends/blocks would be appended to the caller's stacks and stay there"
            ctx.ob("C06.I6.block-table-follows-the-template-family", tag + f.path, ok,
                   "with_execution_state is entered with BlockState %s; %s" % (sorted(kinds), why), f.where(c.bb))
            if "Replace" in kinds:
                # the replacing table is built from the blocks of the template whose instructions are entered
                good = False
                for o in flow.origins(f, bs_arg):
                    if o.kind == "agg" and o.rv.get("variant") == "Replace":
                        for o2 in flow.origins(f, o.rv["ops"][0]):
                            if o2.kind == "call" and o2.call.name.endswith("prepare_blocks"):
                                a_src = {(x.call.bb) for x in flow.origins(f, o2.call.args[0]) if x.kind == "call"}
                                i_src = {(x.call.bb) for x in src if x.kind == "call"}
                                good = bool(a_src) and a_src == i_src
                ctx.ob("C06.I6.replacing-table-is-the-entered-template's", tag + f.path, good,
                       "BlockState::Replace is not built by prepare_blocks from the same instructions_and_blocks() "
                       "result as the instructions that are entered", f.where(c.bb))
    ctx.floor("C06.I6 with_execution_state call sites" + tag, n6, 3)
    # the set of templates loaded by `extends` belongs to the same family as the block table: where the table is
    # replaced (an included template) the set starts empty, or a template included from a block cannot extend the
    # layout its includer extends ("cycle in template inheritance" for a chain that has none)
    wf = prog.fns.get(WES)
    if wf is not None:
        from .. import inline as _inl6
        wf = _inl6.view(prog, wf, keep=lambda t: not t.startswith("minijinja::vm::state::State::"), max_blocks=80)
        sw_ = arms.enum_switches(prog, wf, BSTATE)
        regs_ = arms.arm_regions(prog, wf, sw_[0][0], BSTATE) if sw_ else {}
        if "Replace" in regs_:
            reg = regs_["Replace"]
            emptied = False
            for c in arms.calls_in(wf, reg):
                if c.name in ("core::mem::take", "core::mem::replace") and any(
                        "loaded_templates" in o.proj for o in flow.origins(wf, c.args[0])):
                    if c.name.endswith("take"):
                        emptied = True
                    else:
                        emptied = any(o.kind == "call" and o.call.name.endswith("::new") or o.kind == "call" and "default" in o.call.name
                                      for o in flow.origins(wf, c.args[1]))
            ctx.ob("C06.I6.loaded-set-follows-the-template-family", tag + "with_execution_state|Replace", emptied,
                   "entering another template with its own block table keeps the caller's set of loaded templates active: "
                   "an included template that extends a layout the includer's chain already loaded is rejected as a cycle",
                   wf.loc)
            restored = any(
                "loaded_templates" in flow._proj_names(d.place) for d in flow.stores(wf)) or any(
                isinstance(s_.get("place", {}).get("p"), list) and any(isinstance(e, dict) and e.get("n") == "loaded_templates" for e in s_["place"]["p"])
                for _, _, s_ in wf.all_stmts() if s_.get("k") == "assign")
            ctx.ob("C06.I6.loaded-set-is-restored", tag + "with_execution_state", restored,
                   "the caller's set of loaded templates is not written back after the nested evaluation", wf.loc)
    # -- I8: "is the output discarding?" is asked about the capture that receives the writes.  Blocks are skipped
    # (CallBlock) while the output discards; a real capture opened inside a discarding region ({% set %} / import in
    # a child template) must render its blocks.  `is_discarding` and the function that selects the write target
    # must both look at the top of the capture stack only.
    OUT = "minijinja::output::Output"
    if prog.has_fn(OUT + "::is_discarding"):
        tops = ("last", "last_mut", "deref", "deref_mut")
        watchers = [prog.fn(OUT + "::is_discarding")]
        for g_, bb_, w_, p_ in query.field_accessors(prog, OUT, "target"):
            if w_ and g_ not in watchers and (g_.trait or "") == "" and not any(
                    st.get("rv", {}).get("k") == "agg" and st["rv"].get("adt") == OUT for _, _, st in g_.all_stmts()):
                watchers.append(g_)
        for g_ in watchers:
            used = set()
            gv_ = prog.view(g_.path, keep=("last", "last_mut", "is_discarding", "get_mut")) if g_.kind != "closure" else g_
            for h_ in [gv_] + prog.closures_of(g_.path):
                for c in h_.calls():
                    if c.args and any("capture_stack" in o.proj for o in flow.origins(
                            h_, c.args[0], through_calls=lambda k: 0 if k.name.endswith(("::deref", "::deref_mut", "::iter", "::iter_mut")) else None)):
                        used.add(c.name.split("::")[-1])
            extra = sorted(used - set(tops) - {"push", "pop"})
            ctx.ob("C06.I8.discard-test-and-write-target-look-at-the-same-capture", tag + g_.path.split("::")[-1],
                   bool(used & {"last", "last_mut"}) and not extra,
                   "%s reads the capture stack through %s: only the innermost capture decides where text goes and "
                   "whether it is discarded; an enclosing discard must not hide a capture opened inside it" % (
                       g_.path.split("::")[-1], sorted(used)), g_.loc)
    # -- I7: a block is rendered where it is defined.  Whether the template ends up extending another one is only known
    # at run time (conditional / dynamic extends), so the code generator must emit the CallBlock for every block it
    # registers, on every path; the interpreter skips it once a parent is loaded.
    GENB = "minijinja::compiler::codegen::CodeGenerator::compile_block"
    if prog.has_fn(GENB):
        cbk = prog.fn(GENB)
        INSTR_ = "minijinja::compiler::instructions::Instruction"
        calls_cb = set()
        for c in cbk.calls():
            if c.name.endswith("CodeGenerator::add") or c.name.endswith("CodeGenerator::add_with_span"):
                if any(o.kind == "agg" and o.rv.get("adt") == INSTR_ and o.rv.get("variant") == "CallBlock"
                       for o in flow.origins(cbk, c.args[1])):
                    calls_cb.add(c.bb)
        regs_ = {c.bb for c in cbk.calls() if c.name.endswith("BTreeMap::insert") or c.name.endswith("::insert")
                 and any("blocks" in o.proj for o in flow.origins(cbk, c.args[0]))}
        ctx.ob("C06.I7.block-is-called-where-it-is-defined", tag + "compile_block",
               bool(calls_cb) and bool(regs_) and cfg.paths_must_pass(cbk, 0, calls_cb, cbk.returns())
               and cfg.paths_must_pass(cbk, 0, regs_, cbk.returns()),
               "a path through compile_block registers the block without emitting its CallBlock (or the reverse): "
               "whether a template extends another is decided at run time, so a block skipped at compile time is "
               "missing from the output when the extends is not taken", cbk.loc)
    # -- the block named by `current_block` need not exist in the active table (an included template runs on its own
    # table inside the includer's block): the first lookup of `state.blocks` in super() must be a checked one; later
    # unwrapped lookups are only sound behind it
    lookups = [c for c in ps.calls() if c.name.split("::")[-1] in ("get", "get_mut", "get_key_value") and "BTreeMap" in c.name
               and any("blocks" in o.proj for o in flow.origins(ps, c.args[0]))]
    checked = []
    for c in lookups:
        sp = errflow.result_split(ps, c.dest["l"]) if c.dest is not None and "p" not in c.dest else None
        if sp is not None and sp.switches:
            okc = True
            for (sb, none_t, some_t, other, adt) in sp.switches:
                for t_ in (none_t or {other}):
                    okc = okc and err_returned_from(ps, t_)
            if okc:
                checked.append(c)
    nth = 0
    for c in lookups:
        if c in checked:
            continue
        nth += 1
        dom = any(cfg.dominates(ps, k.bb, c.bb) for k in checked)
        ctx.ob("C06.I5.super-block-lookup-is-checked", tag + "perform_super|unwrapped-lookup#%d" % nth,
               dom, "perform_super unwraps `state.blocks.%s(current_block)` without an earlier checked lookup: inside an "
               "included template the block of the includer is not in the table and super() panics" % c.name.split("::")[-1],
               ps.where(c.bb))
    ctx.floor("C06.I5 block table lookups in perform_super" + tag, len(lookups), 2)
    # -- the layer cursor moved by super() is moved back on every path (also when the parent's body fails): a State
    # that is used again (render_block on a captured state) must find the most-derived layer
    from .pairs import success_blocks
    pops_ = [c.bb for c in ps.calls_to(BS + "::pop")]
    for c in pushes:
        starts_ = success_blocks(ps, c)
        lost = any(r in cfg.reach_from(ps, s_, avoid=pops_) for s_ in starts_ for r in ps.returns())
        if lost or not starts_:
            # the pop may sit in a helper, or behind the value of a Result (`if rv.is_err() { pop }`): walk the paths
            from .pairs import paths_balance
            _, late_ = paths_balance(prog, ps, BS + "::push", BS + "::pop")
            if not late_:
                lost = False
                starts_ = starts_ or {c.bb}
        ctx.ob("C06.I5.super-restores-the-layer-cursor-on-every-path", tag + "perform_super", bool(starts_) and not lost,
               "a path from a successful BlockStack::push() to a return of perform_super skips BlockStack::pop() (e.g. the "
               "error return of a failing parent body): the block stays one layer up and later renders of the same state "
               "show the parent's definition instead of the most derived one", ps.where(c.bb))
    for fn_, nm in ((ps, "perform_super"), (prog.fn(CB), "call_block")):
        ok = False
        for c in fn_.calls_to(WES):
            src = flow.origins(fn_, c.args[1])
            if src and all(o.kind == "call" and o.call.name == BS_INSTR for o in src):
                ok = True
                if nm == "perform_super":
                    ok = all(any(cfg.dominates(fn_, p_.bb, o.call.bb) for p_ in pushes) for o in src)
        ctx.ob("C06.I5.renders-the-selected-layer", tag + nm, ok,
               "%s evaluates instructions that do not come from BlockStack::instructions() (after push() for "
               "super)" % nm, fn_.loc)


def extends_capture_pairing(prog):
    """(opened_on_every_path, closed_on_every_path) for the discarding capture of `{% extends %}`: after a successful
    load_blocks every path back to the instruction fetch passes begin_capture(Discard); once the stashed parent
    instructions are taken (Some side) every path back to the fetch passes end_capture."""
    ev = prog.fn(EI)
    heads = [x.bb for x in ev.calls() if x.name == "minijinja::compiler::instructions::Instructions::get"]
    opened = None
    for c in ev.calls_to(LB):
        okb = errflow.ok_err_blocks(ev, c)
        if not okb or not okb[0]:
            continue
        disc = []
        for k in ev.calls_to(BEGIN):
            for o in flow.origins(ev, k.args[1]):
                if (o.kind == "agg" and o.rv.get("variant") == "Discard") or (o.kind == "const" and "Discard" in o.const.get("d", "")):
                    disc.append(k.bb)
        opened = bool(disc) and all(cfg.paths_must_pass(ev, b, disc, heads) for b in okb[0])
    closed = False
    for k in [c for c in ev.calls() if c.name == "core::option::Option::take"]:
        sp = errflow.result_split(ev, k.dest["l"]) if k.dest and "p" not in k.dest else None
        if sp and sp.switches:
            for (sb, none_t, some_t, other, adt) in sp.switches:
                ends = [x.bb for x in ev.calls_to(END)]
                if some_t and all(cfg.paths_must_pass(ev, st, ends, heads) for st in some_t):
                    closed = True
    return opened, closed


def check_name_resolution(ctx, prog, tag):
    """I12 (round 10, seed C06-10): extends / include / import / from-import name a template *relative to the template
    that refers to it*: the host's path-join callback decides what that means, for every name.  (a) the function that
    holds the callback (found by the field it reads) calls it on every path of its `Some` side - no test of the name
    stands between the Option test and the call; (b) inside the interpreter (`vm/*`) a template is looked up through
    the joining wrapper only, and the wrapper hands the join the current template's own name."""
    n = 0
    FIELD = "path_join_callback"
    joiners = []

    def _mentions(pl):
        return isinstance(pl, dict) and any(isinstance(e, dict) and e.get("n") == FIELD for e in pl.get("p", []))
    for f in prog.fns.values():
        if f.crate != "minijinja" or f.kind == "closure":
            continue
        reads = False
        for bb, i, st in f.all_stmts():
            rv = st.get("rv") or {}
            if _mentions(rv.get("place")) or any(_mentions(op_place(o)) for o in query.rv_operands(rv) if "c" not in o):
                reads = True
        if not reads:
            continue
        # the switch that tells "a callback is installed": on the field itself or on a view of it (`as_deref()`, `as_ref()`)
        for sb in sorted(f.reachable):
            if f.term(sb)["k"] != "switch":
                continue
            cd = flow.cond_of(f, sb)
            if cd.kind != "discr" or cd.place is None:
                continue
            os_ = flow.origins(f, {"cp": cd.place}, through_calls=lambda q: 0 if q.name.endswith(("::as_deref", "::as_ref", "::deref", "::as_mut")) else None)
            if _mentions(cd.place) or any(o.kind == "arg" and FIELD in o.proj for o in os_):
                joiners.append((f, sb))
                break
    for f, sb in joiners:
        t = f.term(sb)
        some = [x for v, x in t["arms"] if v == "1"]
        if not some:
            continue
        calls = [c.bb for c in f.calls() if c.indirect or c.name.endswith(("Fn::call", "FnMut::call_mut", "FnOnce::call_once"))]
        rets = f.returns()
        n += 1
        ok = bool(calls) and cfg.paths_must_pass(f, some[0], calls, rets)
        ctx.ob("C06.I12.every-referenced-name-goes-through-the-join-callback", "%s%s|callback-on-every-path" % (tag, f.path), ok,
               "with a path-join callback installed, every path through %s calls it: a name that bypasses the callback is "
               "looked up as written, not relative to the referring template" % f.path.split("::")[-1], f.where(sb))
    jnames = {f.path for f, _ in joiners}
    # (b) lookups from the interpreter
    GET = "minijinja::environment::Environment::get_template"
    wrappers = set()
    for c in prog.calls_of(GET):
        g = c.fn
        if g.crate != "minijinja":
            continue
        in_vm = g.loc.f.startswith("minijinja/src/vm/") or "/vm/" in g.loc.f
        if not in_vm:
            continue
        n += 1
        joined = False
        for o in (flow.origins(g, c.args[1], through_calls=lambda k: 0 if k.name.endswith(("::deref", "::as_ref", "::borrow")) else None)
                  if len(c.args) > 1 and "c" not in c.args[1] else []):
            if o.kind == "call" and o.call.name in jnames:
                joined = True
                par = o.call.args[2] if len(o.call.args) > 2 else None
                own = par is not None and "c" not in par and any(
                    q.kind == "call" and q.call.name.endswith(("State::name", "Instructions::name")) for q in flow.origins(g, par))
                ctx.ob("C06.I12.every-referenced-name-goes-through-the-join-callback", "%s%s|parent-is-the-current-template" % (tag, g.path), own,
                       "the name is joined against the name of the template that is being evaluated", g.where(o.call.bb))
        ctx.ob("C06.I12.every-referenced-name-goes-through-the-join-callback", "%s%s|lookup-is-joined" % (tag, g.path), joined,
               "a template looked up from the interpreter (%s) gets the name the join callback returned" % g.path.split("::")[-1], g.where(c.bb))
    return n, len(joiners)


def run(ctx):
    ctx.explain("C06 (error clauses only): guard/dominance rules on the LoadBlocks handler, load_blocks and "
                "perform_include: double extends, inheritance cycles and missing templates reach `return Err` on "
                "every path; the only discarded loader error is TemplateNotFound inside an include choice list; "
                "output is discarded between LoadBlocks and the swap to the parent's instructions.  I5: the block "
                "layer discipline (layers appended most-derived first, never reordered; depth moves one layer at a "
                "time under its bound; the rendered layer is instructions[depth]; super() without a parent is an "
                "error).  The rendered output of a given chain shape is value-level and NOT decided.")
    ctx.assume("include recursion accounting is decided under C11.R1 (perform_include is a charged re-entry)")
    # include / super / blocks restore what they change: the pairing and restoration rules of C05 (frames, captures,
    # closures, depth, block-stack cursor, with_execution_state) are clauses of this property as well
    if not ctx.is_borrowed:
        from . import c05 as _c05
        _c05.run(ctx.borrowed("C05", "C06.I9:"))
    # I11 (after seed C06-9): the template named by include / import / from-import / extends is an expression of the
    # template; a macro or call body sees the variables in it only if the assignment tracker visits that expression
    # (it decides what a macro encloses).  The composition slice of C18.W1 is a clause of this property.
    if not ctx.is_borrowed:
        from . import c18 as _c18
        _c18.run(ctx.borrowed("C18", "C06.I11:", only=lambda rule, inst: rule.startswith("C18.W1.") and any(
            t in inst for t in ("Include.", "Import.", "FromImport.", "Extends."))))
    cfgs = [c for c in ctx.configs() if c != "MIN"]
    for cname in cfgs:
        prog = ctx.program(cname)
        tag = "" if cname == "MAX" else "[%s]" % cname
        ev = prog.fn(EI)
        lb = prog.fn(LB)
        n12, nj = check_name_resolution(ctx, prog, tag)
        ctx.floor("C06.I12 join callback holders" + tag, nj, 1)
        ctx.floor("C06.I12 obligations" + tag, n12, 2)
        # perform_include is read through private helpers a piece of it may have been moved into (`include_not_found(..)`);
        # callees whose names the rules mention stay calls
        from .. import inline as _inl
        pi = _inl.view(prog, prog.fn(PI))
        # ---- I10: an import exposes *exactly* the imported template's top-level names: in the handler that builds the
        # module object every local of the frame is inserted - no path through the loop over the locals skips the insert
        sw10 = arms.enum_switches(prog, ev, "minijinja::compiler::instructions::Instruction")
        regs10 = arms.arm_regions(prog, ev, sw10[0][0], "minijinja::compiler::instructions::Instruction") if sw10 else {}
        if "ExportLocals" in regs10:
            reg = regs10["ExportLocals"]
            # the handler itself, or the private helper(s) its body was moved into (`self.export_locals(state, captured)`)
            places = [(ev, reg)]
            for c in arms.calls_in(ev, reg):
                g_ = prog.fns.get(c.resolved or c.path)
                if g_ is not None and g_.kind != "closure" and not g_.is_pub and g_.crate == ev.crate and g_.path.startswith("minijinja::vm::"):
                    places.append((g_, set(g_.reachable)))
            ok10 = False
            detail = "no loop over the frame's locals with an insert into the exported map found"
            for fn10, reg in places:
                ins = [c for c in arms.calls_in(fn10, reg) if c.name.split("::")[-1] in ("insert", "push", "extend")]
                loops = [(h, b) for h, b in cfg.natural_loops(fn10) if h in reg and b <= reg | {h}]
                for h, body in loops:
                    inside = [c for c in ins if c.bb in body]
                    if not inside:
                        continue
                    nexts = [c for c in arms.calls_in(fn10, body) if c.name.endswith("::next")]
                    # every path from `next()` back to the loop header (another iteration) passes the insert
                    back = {t for (t, hh) in cfg.back_edges(fn10) if hh == h}
                    ok10 = bool(nexts) and all(
                        cfg.paths_must_pass(fn10, n.target if n.target is not None else n.bb, [c.bb for c in inside], back)
                        for n in nexts)
                    detail = "a path through the loop over the locals reaches the next iteration without inserting the local"
                if ok10:
                    break
            ctx.ob("C06.I10.import-exposes-every-top-level-name", tag + "eval_impl|ExportLocals", ok10, detail +
                   ": the module object built for `{% import x as m %}` lacks names the imported template defines, while "
                   "`{% from x import name %}` (a plain lookup in the import frame) still sees them", ev.loc)
        # ---- I1
        lcalls = ev.calls_to(LB)
        ctx.floor("C06.I1 load_blocks call sites in eval_impl" + tag, len(lcalls), 1)
        for c in lcalls:
            # where does the result go?  Some(result) -> local P
            ok_blocks = errflow.ok_err_blocks(ev, c)
            ds = errflow.disposition(ev, c)
            ctx.ob("C06.I1.load-error-propagated", tag + "eval_impl|load_blocks", bool(ds) and all(d[0] in GOOD for d in ds),
                   "%s" % ds, ev.where(c.bb))
            parent_locals = set()
            for bb, i, s in ev.all_stmts():
                rv = s.get("rv", {})
                if s["k"] == "assign" and rv.get("k") == "agg" and rv.get("variant") == "Some" and "p" not in s["place"]:
                    if any(o.kind == "call" and o.call.bb == c.bb for o in flow.origins(ev, rv["ops"][0])):
                        # follow the move into the long-lived variable
                        tgt = s["place"]["l"]
                        parent_locals.add(tgt)
                        for bb2, i2, s2 in ev.all_stmts():
                            if s2["k"] == "assign" and s2["rv"]["k"] == "use" and op_place(s2["rv"]["op"]) == {"l": tgt} \
                                    and "p" not in s2["place"]:
                                parent_locals.add(s2["place"]["l"])
            ctx.ob("C06.I1.loaded-parent-is-remembered", tag + "eval_impl|load_blocks", bool(parent_locals),
                   "the result of load_blocks is not stored as Some(..)", ev.where(c.bb))
            guarded = False
            err_side_ok = False
            for (sb, taken) in flow.guards(ev, c.bb):
                cd = flow.cond_of(ev, sb)
                if cd.kind == "call" and cd.call.name == "core::option::Option::is_some":
                    roots = {o.idx for o in flow.origins(ev, cd.call.args[0]) if o.kind == "undef"} | {
                        op_place(cd.call.args[0])["l"]}
                    src = set()
                    for o in flow.origins(ev, cd.call.args[0]):
                        if o.kind in ("agg", "const", "call", "undef", "other"):
                            pass
                    # the tested local: &P
                    tested = set()
                    for d in flow.whole_defs(ev, op_place(cd.call.args[0])["l"]):
                        if d.kind == "stmt" and d.rv["k"] == "ref":
                            tested.add(d.rv["place"]["l"])
                    side = flow.bool_true_labels(taken)
                    if (tested & parent_locals) and side is not None and (side != (not cd.neg)):
                        guarded = True
                        err_side_ok = all(err_returned_from(ev, x) for (_, x) in flow.true_side(ev, sb, cd))
                # the same test written as a match on the Option itself (`match parent_instructions { Some(_) => bail, None => load }`)
                if cd.kind == "discr" and (cd.adt or "") == "core::option::Option" and cd.place is not None and \
                        cd.place["l"] in parent_locals and "p" not in cd.place and set(taken) <= {"0", "otherwise"} and "1" not in taken:
                    t_ = ev.term(sb)
                    some_targets = [x for v_, x in t_["arms"] if v_ == "1"] or ([t_["otherwise"]] if not any(v_ == "1" for v_, _ in t_["arms"]) and any(v_ == "0" for v_, _ in t_["arms"]) else [])
                    guarded = True
                    err_side_ok = bool(some_targets) and all(err_returned_from(ev, x) for x in some_targets)
            ctx.ob("C06.I1.second-extends-is-guarded", tag + "eval_impl|load_blocks", guarded,
                   "load_blocks is not guarded by `parent_instructions.is_some()` on the variable the result is "
                   "stored in: a second {% extends %} silently replaces the first", ev.where(c.bb))
            ctx.ob("C06.I1.second-extends-returns-error", tag + "eval_impl|load_blocks", err_side_ok,
                   "the is_some() side does not end in `return Err`", ev.where(c.bb))
            # discard after load
            if ok_blocks:
                begins = [k for k in ev.calls_to(BEGIN)]
                disc = []
                for k in begins:
                    for o in flow.origins(ev, k.args[1]):
                        if (o.kind == "agg" and o.rv.get("variant") == "Discard") or (
                                o.kind == "const" and "Discard" in o.const.get("d", "")):
                            disc.append(k.bb)
                # loop header = the instruction fetch
                heads = [k.bb for k in ev.calls() if k.name == "minijinja::compiler::instructions::Instructions::get"]
                ok = bool(disc) and all(cfg.paths_must_pass(ev, b, disc, heads) for b in ok_blocks[0])
                ctx.ob("C06.I1.output-discarded-after-extends", tag + "eval_impl|load_blocks", ok,
                       "after a successful LoadBlocks the handler continues without begin_capture(Discard): text "
                       "outside blocks of the child would be emitted", ev.where(c.bb))
        # swap to the parent's instructions ends the discard
        takes = [k for k in ev.calls() if k.name == "core::option::Option::take"]
        swapped = False
        for k in takes:
            tested = set()
            for d in flow.whole_defs(ev, op_place(k.args[0])["l"]):
                if d.kind == "stmt" and d.rv["k"] == "ref":
                    tested.add(d.rv["place"]["l"])
            sp = errflow.result_split(ev, k.dest["l"]) if k.dest and "p" not in k.dest else None
            if sp and sp.switches:
                for (sb, none_t, some_t, other, adt) in sp.switches:
                    for st in some_t:
                        heads = [x.bb for x in ev.calls() if x.name == "minijinja::compiler::instructions::Instructions::get"]
                        ends = [x.bb for x in ev.calls_to(END)]
                        if cfg.paths_must_pass(ev, st, ends, heads):
                            swapped = True
        ctx.ob("C06.I1.discard-ends-when-parent-starts", tag + "eval_impl", swapped,
               "taking the stashed parent instructions is not followed by end_capture on every path", ev.loc)

        # ---- I2
        gets = lb.calls_to(GET_T)
        ctx.floor("C06.I2 get_template calls in load_blocks" + tag, len(gets), 1)
        for c in gets:
            ds = errflow.disposition(lb, c)
            ctx.ob("C06.I2.missing-parent-is-an-error", tag + "load_blocks|get_template",
                   bool(ds) and all(d[0] in GOOD for d in ds), "%s" % ds, lb.where(c.bb))
        # the cycle test: `loaded_templates.contains(x)` (present -> Err) or `loaded_templates.insert(x)` (false -> Err).
        # It must (a) send the "already loaded" side to an Err return, (b) dominate everything that registers the
        # parent's blocks, and (c) test the very name that is recorded - the two differ when a path-join callback
        # rewrites the referenced name, and a test on the raw name never trips (the render then never returns)
        tests = []
        for sb in sorted(lb.reachable):
            if lb.term(sb)["k"] != "switch":
                continue
            cd = flow.cond_of(lb, sb)
            if cd.kind != "call" or not any("loaded_templates" in o.proj for a_ in cd.call.args[:1] for o in flow.origins(lb, a_)):
                continue
            nm_ = cd.call.name
            if nm_.endswith("BTreeSet::contains") or nm_.endswith("BTreeSet::insert"):
                present_when = True if nm_.endswith("contains") else False      # value of the call meaning "already loaded"
                edges = cfg.bool_edges(lb, sb, present_when != cd.neg)
                tests.append((sb, cd.call, edges))
        ctx.ob("C06.I2.cycle-check-guards-load", tag + "load_blocks|cycle-test", bool(tests),
               "load_blocks has no test of `loaded_templates` (contains / insert): an inheritance cycle loops forever", lb.loc)
        regs_ = [k for k in lb.calls() if k.name.endswith("BlockStack::append_instructions") or k.name.endswith("BlockStack::new")]
        for sb, call_, edges in tests:
            e_ok = bool(edges) and all(err_returned_from(lb, x) for (_, x) in edges)
            ctx.ob("C06.I2.cycle-returns-error", tag + "load_blocks|" + call_.name.split("::")[-1], e_ok,
                   "the 'already loaded' side of the cycle test does not return an error", lb.where(sb))
            ctx.ob("C06.I2.cycle-check-guards-load", tag + "load_blocks|blocks-registered-after-the-test",
                   bool(regs_) and all(cfg.dominates(lb, sb, k.bb) for k in regs_),
                   "parent blocks are appended to the block table on a path that did not pass the cycle test", lb.where(sb))
            # (c) the tested name is the recorded name
            ins_ = [k for k in lb.calls() if k.name.endswith("BTreeSet::insert") and any(
                "loaded_templates" in o.proj for o in flow.origins(lb, k.args[0]))]
            tk = {o.key() for o in flow.origins(lb, call_.args[1])} if len(call_.args) > 1 else set()
            same = bool(ins_) and all(({o.key() for o in flow.origins(lb, k.args[1])} & tk) for k in ins_ if len(k.args) > 1)
            ctx.ob("C06.I2.cycle-test-looks-at-the-recorded-name", tag + "load_blocks|" + call_.name.split("::")[-1], same,
                   "the cycle test looks `%s` up, but the set records another value (%s): when the name a template is "
                   "referenced by differs from the name it is loaded under (path join callback) the test never trips and "
                   "the inheritance cycle is followed forever" % (
                       [repr(o) for o in flow.origins(lb, call_.args[1])] if len(call_.args) > 1 else "?",
                       [repr(o) for k in ins_ for o in flow.origins(lb, k.args[1])]), lb.where(sb))
        for c in lb.calls_to(IAB):
            ds = errflow.disposition(lb, c)
            ctx.ob("C06.I2.parent-compile-error-propagated", tag + "load_blocks|instructions_and_blocks",
                   bool(ds) and all(d[0] in GOOD for d in ds), "%s" % ds, lb.where(c.bb))
        ins = [k for k in lb.calls() if k.name.endswith("BTreeSet::insert") and any(
            "loaded_templates" in o.proj for o in flow.origins(lb, k.args[0]))]
        oks = [bb for bb, i, s in lb.all_stmts() if s["k"] == "assign" and s["place"] == {"l": 0}
               and s["rv"]["k"] == "agg" and s["rv"].get("variant") == "Ok"]
        ctx.ob("C06.I2.every-successful-load-is-recorded", tag + "load_blocks", bool(ins) and bool(oks) and all(
            cfg.paths_must_pass(lb, 0, [k.bb for k in ins], [b]) for b in oks),
               "a path to Ok(..) in load_blocks skips loaded_templates.insert: the cycle check never trips",
               lb.loc)
        # (d) the set holds loaded *parents* and nothing else: a new State starts with an empty set, and only load_blocks
        # (or a private helper of it) adds to it.  Seeding it with the name of the rendered template (seed C06-8) turns a
        # one-off template that extends the registered template of the same name into a "cycle".
        STATE = "minijinja::vm::state::State"
        n_init = 0
        for g in prog.fns.values():
            if g.crate != "minijinja":
                continue
            for bb, i, st in g.all_stmts():
                rv = st.get("rv", {})
                if st["k"] == "assign" and rv.get("k") == "agg" and rv.get("adt") == STATE:
                    names = [fl["name"] for fl in prog.adt(STATE)["variants"][0]["fields"]]
                    if "loaded_templates" not in names or len(rv["ops"]) != len(names):
                        continue
                    n_init += 1
                    src = flow.origins(g, rv["ops"][names.index("loaded_templates")])
                    empty = bool(src) and all(o.kind == "call" and o.call.name.split("::")[-1] in ("new", "default") for o in src)
                    ctx.ob("C06.I2.loaded-set-starts-empty", "%s%s" % (tag, g.path), empty,
                           "%s builds a State whose set of loaded templates is not empty (%s): names that no `extends` has loaded "
                           "count as members of the inheritance chain, and extending a template of that name is refused as a "
                           "cycle" % (g.path.split("::")[-1], [repr(o) for o in src][:3]), g.where(bb))
            for k in g.calls():
                if k.name.split("::")[-1] in ("insert", "extend", "append") and "BTreeSet" in k.name and k.args and any(
                        "loaded_templates" in o.proj for o in flow.origins(g, k.args[0])):
                    okw = g.path == lb.path or (not g.is_pub and all(c_.fn.path == lb.path for c_ in prog.callers().get(g.path, [])))
                    ctx.ob("C06.I2.only-load_blocks-records-a-template", "%s%s|%s" % (tag, g.path, k.name.split("::")[-1]), okw,
                           "%s adds to the set of loaded templates outside load_blocks" % g.path, g.where(k.bb))
        ctx.floor("C06.I2 State constructors" + tag, n_init, 1)

        # ---- I4
        pgets = pi.calls_to(GET_T)
        ctx.floor("C06.I4 get_template calls in perform_include" + tag, len(pgets), 1)
        for c in pgets:
            sp = errflow.ok_err_blocks(pi, c)
            ctx.need(sp is not None and sp[1], "C06.I4: result of get_template in perform_include is not matched")
            # the TemplateNotFound test
            removed = set()
            found = False
            for bb in sorted(pi.reachable):
                if pi.term(bb)["k"] != "switch":
                    continue
                cd = flow.cond_of(pi, bb)
                eq = flow.enum_eq(pi, cd)
                if eq and eq[0] == "TemplateNotFound" and any(
                        o.kind == "call" and o.call.name == "minijinja::error::Error::kind" for o in eq[1]):
                    found = True
                    removed |= flow.true_side(pi, bb, cd)
            ok = all(err_returned_from(pi, e, removed) for e in sp[1])
            ctx.ob("C06.I4.only-not-found-is-skipped", tag + "perform_include|get_template", found and ok,
                   "an Err of get_template other than TemplateNotFound can be discarded in perform_include "
                   "(or the TemplateNotFound test is gone)", pi.where(c.bb))
        # TemplateNotFound is produced at the end
        made = False
        g_ok = False
        for bb, i, s in pi.all_stmts():
            rv = s.get("rv", {})
            if rv.get("k") == "agg" and rv.get("adt") == "minijinja::error::ErrorKind" and rv.get("variant") == "TemplateNotFound":
                made = True
                conds = []
                for (sb, taken) in flow.guards(pi, bb):
                    cd = flow.cond_of(pi, sb)
                    side = flow.bool_true_labels(taken)
                    if cd.kind == "call" and cd.call.name.endswith("::is_empty"):
                        conds.append(("is_empty", side != cd.neg if side is not None else None))
                    elif cd.kind == "local" and cd.place is not None:
                        conds.append(("arg%d" % cd.place["l"], side != cd.neg if side is not None else None))
                    elif cd.kind == "discr":
                        pass        # loop exit (iterator exhausted) / drop flags
                    else:
                        conds.append(("extra:%r" % cd, None))
                g_ok = ("is_empty", False) in conds and ("arg4", False) in conds and len(conds) == 2
        ctx.ob("C06.I4.not-found-reported-unless-ignored", tag + "perform_include", made and g_ok,
               "Err(TemplateNotFound) must be produced when templates were tried and ignore_missing is false",
               pi.loc)
        check_block_layers(ctx, prog, tag)
        ctx.count("configs")
    ctx.sample({"anchors": [EI, LB, PI]})
