"""C01.P17 — an instruction operand that the interpreter uses as an index fits the table it indexes.

The interpreter indexes fixed tables with small integers the code generator put into instructions (the slot of a
filter / test in `loaded_filters: [Option<&Value>; MAX_LOCALS]`).  Nothing at run time re-checks them: `vec[idx] = ..`
panics when the generator hands out one id too many (seed C01-8: `next_id <= MAX_LOCALS`).  The two sides must agree:

  consumer   a `BoundsCheck` / `Index` site in `vm/*` whose index is a parameter that the interpreter loop fills from an
             instruction payload; N = the length of the array the loop passes; E = the constants the consumer excludes
             itself before indexing (`if idx == !0 { .. }`);
  producer   every value the code generator stores into that payload position: followed into the generator helper that
             computes it, each *fresh* value it returns or records (a constant, a cast of `len()`; values read back from
             the id map were recorded earlier and are covered there) is a constant below N or in E, or sits under a
             dominating comparison of the same quantity with a constant that implies `value < N`.
"""
import re

from .. import cfg, flow, arms
from ..facts import op_place, const_int, norm_path

INSTR = "minijinja::compiler::instructions::Instruction"
EVAL = "minijinja::vm::Executor::eval_impl"
MAP_READS = ("::get", "::or_insert", "::or_insert_with", "::entry", "::deref", "::get_mut", "::unwrap", "::copied", "::cloned")


def _array_len(tyinfo):
    m = re.search(r";\s*(\d+)\]", (tyinfo or {}).get("s", ""))
    return int(m.group(1)) if m else None


def _bound_from_guards(f, bb, qty_keys):
    """strict upper bound implied for the quantity (identified by the origin keys of a `len()`-like call: callee name +
    receiver roots) by the comparisons that dominate bb; None when there is none"""
    best = None
    for (sb, taken) in flow.guards(f, bb):
        cd = flow.cond_of(f, sb)
        side = flow.bool_true_labels(taken)
        if cd.kind != "bin" or side is None or cd.rv["op"] not in ("Ge", "Gt", "Lt", "Le"):
            continue
        truth = (side != cd.neg)
        k = const_int(cd.rv["b"])
        if k is None or _qty(f, cd.rv["a"]) != qty_keys:
            continue
        op = cd.rv["op"]
        lim = None
        if (op == "Lt" and truth) or (op == "Ge" and not truth):
            lim = k            # value < k
        elif (op == "Le" and truth) or (op == "Gt" and not truth):
            lim = k + 1        # value <= k
        if lim is not None and (best is None or lim < best):
            best = lim
    return best


def _qty(f, op):
    """identity of a measured quantity: (callee last segment, roots of its receiver)"""
    out = set()
    for o in flow.origins(f, op):
        if o.kind == "call" and o.call.args:
            recv = tuple(sorted("%s:%s:%s" % (r.kind, r.arg, ".".join(r.proj)) for r in flow.origins(
                f, o.call.args[0], through_calls=lambda k: 0 if k.name.endswith(("::deref", "::deref_mut", "::borrow")) else None)))
            out.add((o.call.name.split("::")[-1], recv))
        else:
            out.add((o.kind, (str(o.arg), ".".join(o.proj))))
    return frozenset(out)


def _cval(f, op):
    """constant value of an operand: a literal, or `!literal` of an unsigned type (`!0` as the "no slot" marker)"""
    c = const_int(op)
    if c is not None:
        return c
    vals = set()
    for o in flow.origins(f, op):
        if o.kind == "const":
            vals.add(const_int({"c": o.const}))
        elif o.kind == "un" and o.rv.get("op") == "Not":
            inner = const_int(o.rv["a"])
            ty = (o.rv["a"].get("c") or {}).get("ty", "")
            bits = {"u8": 8, "u16": 16, "u32": 32, "u64": 64, "usize": 64}.get(ty)
            vals.add(((1 << bits) - 1) ^ inner if inner is not None and bits else None)
        else:
            vals.add(None)
    return vals.pop() if len(vals) == 1 else None


def _array_len_of_arg(fn, a):
    p = op_place(a)
    if p is None:
        return None
    l = p["l"]
    for _ in range(8):
        ln = _array_len(fn.locals[l])
        if ln is not None and fn.locals[l].get("s", "").lstrip().startswith("["):
            return ln
        ds = [d for d in flow.whole_defs(fn, l) if d.kind == "stmt"]
        if len(ds) != 1:
            return None
        rv = ds[0].rv
        q = rv.get("place") if rv["k"] in ("ref", "rawptr") else op_place(rv.get("op", {})) if rv["k"] in ("use", "cast") else None
        if q is None:
            return None
        l = q["l"]
    return None


def check_operand_indices(ctx, prog, tag=""):
    ev = prog.fns.get(EVAL)
    if ev is None:
        return 0
    n = 0
    for g in sorted(prog.fns.values(), key=lambda x: x.path):
        if g.crate != "minijinja" or "/src/vm/" not in g.loc.f or g.kind == "closure":
            continue
        sites = []
        for bb in sorted(g.reachable):
            t = g.term(bb)
            if t["k"] == "assert" and t["kind"].startswith("BoundsCheck") and t.get("ops"):
                sites.append((bb, t["ops"][-1]))
        for bb, idx in sites:
            params = {o.arg for o in flow.origins(g, idx) if o.kind == "arg" and not o.proj}
            if not params:
                continue
            # excluded constants: `idx == c` tested and the site on its false side
            excluded = set()
            for (sb, taken) in flow.guards(g, bb):
                cd = flow.cond_of(g, sb)
                side = flow.bool_true_labels(taken)
                if cd.kind == "bin" and cd.rv["op"] in ("Eq", "Ne") and side is not None:
                    c = _cval(g, cd.rv["b"])
                    truth = (side != cd.neg) == (cd.rv["op"] == "Eq")
                    if c is not None and not truth and any(o.kind == "arg" and o.arg in params for o in flow.origins(g, cd.rv["a"])):
                        excluded.add(c)
            for k in sorted(params):
                for c in prog.callers().get(g.path, []):
                    if c.fn.path != EVAL or len(c.args) < k:
                        continue
                    payload = sorted({tuple(o.proj) for o in flow.origins(c.fn, c.args[k - 1]) if any(p.startswith("as ") for p in o.proj)})
                    if not payload:
                        continue
                    # the table: the argument that is a (reference to a) fixed array
                    N = None
                    for a in c.args:
                        ln = _array_len_of_arg(c.fn, a)
                        if ln is not None:
                            N = ln
                    if N is None:
                        continue
                    for proj in payload:
                        ivars = set(prog.variants(INSTR))
                        pos = next((i_ for i_, p in enumerate(proj) if p.startswith("as ") and p[3:] in ivars), None)
                        if pos is None or pos + 1 >= len(proj) or not proj[pos + 1].isdigit():
                            continue
                        variant, field = proj[pos][3:], proj[pos + 1]
                        n += 1
                        bad = _producers_fit(prog, variant, int(field), N, excluded)
                        ctx.ob("C01.P17.instruction-operand-index-fits-its-table",
                               "%s%s|%s.%s" % (tag, g.path.split("::")[-1], variant, field), not bad,
                               "%s indexes a table of %d entries with operand %s of %s (constants it excludes itself: %s); the code "
                               "generator can store %s there: an index outside the table panics in the interpreter"
                               % (g.path.split("::")[-1], N, field, variant, sorted(excluded), bad), g.where(bb))
    return n


def _producers_fit(prog, variant, field, N, excluded):
    """[] when every value the generator stores in Instruction::<variant>.<field> is below N or excluded; else reasons"""
    bad = []
    seen = set()
    for f in prog.fns.values():
        if f.crate != "minijinja" or "/src/compiler/" not in f.loc.f:
            continue
        for bb, i, st in f.all_stmts():
            rv = st.get("rv", {})
            if st["k"] != "assign" or rv.get("k") != "agg" or rv.get("adt") != INSTR or rv.get("variant") != variant or field >= len(rv["ops"]):
                continue
            if (f.trait or "").endswith("Clone"):
                continue            # the derived copy of an existing instruction
            for o in flow.origins(f, rv["ops"][field]):
                if o.kind == "const" or (o.kind == "un" and o.rv.get("op") == "Not"):
                    c = _cval(f, rv["ops"][field])
                    if c is None or not (c < N or c in excluded):
                        bad.append("the constant %s in %s" % (c, f.path.split("::")[-1]))
                elif o.kind == "call" and prog.has_fn(o.call.name) and o.call.name not in seen:
                    seen.add(o.call.name)
                    bad += _helper_fits(prog, prog.fn(o.call.name), N, excluded)
                elif o.kind == "call" and o.call.name in seen:
                    pass
                else:
                    bad.append("%r in %s" % (o, f.path.split("::")[-1]))
    return bad


def _helper_fits(prog, h, N, excluded):
    bad = []
    vals = []       # (operand, block) of every value the helper returns or records
    # casts are kept as origins: the block of the cast is where the bound must hold
    for o in flow.origins(h, 0, through_casts=False, through_calls=lambda k: 0 if k.name.endswith(("::deref", "::deref_mut")) else None):
        vals.append(o)
    for c in h.calls():
        last = c.name.split("::")[-1]
        if last in ("insert", "or_insert", "push") and len(c.args) >= 2:
            for o in flow.origins(h, c.args[-1], through_casts=False):
                vals.append(o)
    for o in vals:
        if o.kind == "const" or (o.kind == "un" and o.rv.get("op") == "Not"):
            c = const_int({"c": o.const}) if o.kind == "const" else None
            if o.kind == "un":
                inner = const_int(o.rv["a"])
                bits = {"u8": 8, "u16": 16, "u32": 32, "u64": 64, "usize": 64}.get((o.rv["a"].get("c") or {}).get("ty", ""))
                c = ((1 << bits) - 1) ^ inner if inner is not None and bits else None
            if c is None or not (c < N or c in excluded):
                bad.append("the constant %s in %s" % (c, h.path.split("::")[-1]))
        elif o.kind == "call" and o.call.name.endswith(MAP_READS):
            continue        # read back from the table of ids: recorded earlier, covered at the recording site
        elif o.kind == "cast" or o.kind == "call":
            src = o.rv["op"] if o.kind == "cast" else {"cp": o.call.dest} if o.call.dest else None
            lim = _bound_from_guards(h, o.bb, _qty(h, src)) if src is not None else None
            if lim is None or lim > N:
                bad.append("`%s` in %s, bounded by %s" % (
                    "len() as id" if o.kind == "cast" else o.call.name.split("::")[-1], h.path.split("::")[-1],
                    ("< %d" % lim) if lim is not None else "nothing"))
        elif o.kind == "arg":
            bad.append("a parameter of %s" % h.path.split("::")[-1])
        else:
            bad.append("%r in %s" % (o, h.path.split("::")[-1]))
    return bad
