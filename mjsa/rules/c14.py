"""C14 — errors point at the right template line; reported ranges are valid slices; formatting never fails.

Structural clauses:
 F1 location attachment: every `return Err(e)` of the interpreter loop is preceded by `process_err(&mut e, pc, state)`
    on that same error (reviewed exception: the raw sink write error of EmitRaw); process_err attaches the template
    name with the span / line of the failing instruction when the error has no line yet; the parser entry points
    return through `map_err(attach_location_to_error)`.
 F2 formatting never panics on a failing sink: no unwrap/expect of a fmt::Result in error.rs / debug.rs.
 F3 span provenance: every value stored into a Span comes from the tokenizer's current_{line,col,offset} (or another
    span); the only arithmetic allowed on a byte offset is adding the `len_utf8()` of a character (so ranges stay on
    character boundaries) and on columns a saturating add; byte offsets move only in `advance`, which slices
    `rest()[..bytes]` (a non-boundary would panic there, never yield a bad range).
 F5 every emitted instruction records a line: raw `Instructions::add` is called only by add_with_line/add_with_span
    and the reviewed `sc_bool` (jump of a short-circuit operator, cannot fail).
Not decided: that the recorded line is the *right* line (shift by N) — value-level.
"""
from .. import cfg, flow, errflow, query, callgraph
from ..facts import op_place, norm_path, const_int

EI = "minijinja::vm::Executor::eval_impl"
PERR = "minijinja::vm::process_err"
SPAN = "minijinja::compiler::tokens::Span"
RAW_ADD = "minijinja::compiler::instructions::Instructions::add"
RAW_ADD_OK = {
    "minijinja::compiler::instructions::Instructions::add_with_line": "records the line",
    "minijinja::compiler::instructions::Instructions::add_with_span": "records span and line",
    "minijinja::compiler::codegen::CodeGenerator::sc_bool": "JumpIf*OrPop of and/or: cannot fail at run time",
}
UNWRAPS = ("core::result::Result::unwrap", "core::result::Result::expect")


def err_local_of(fn, s):
    """local holding the error moved into `_0 = Err(move e)`"""
    op = s["rv"]["ops"][0]
    return op_place(op)


def run(ctx):
    ctx.explain("C14: must-pass-through rule (process_err on the returned error) for all 80+ error exits of the "
                "interpreter loop, structure of process_err / attach_location_to_error, an error-discipline rule "
                "(no unwrap of fmt::Result in the error formatting code), and a provenance rule for every value "
                "stored into a Span (tokenizer position fields only; offsets advance by character widths only).  "
                "Decides that every engine error exit attaches a location and that reported ranges are built from "
                "character-aligned positions; that the attached line is the correct one is not decided.")
    ctx.assume("str slicing `rest()[..bytes]` in Tokenizer::advance panics on a non-boundary (std semantics), so "
               "current_offset is always a character boundary")
    for cname in ctx.configs():
        prog = ctx.program(cname)
        tag = "" if cname == "MAX" else "[%s]" % cname
        ev = prog.fn(EI)
        # ---- F1a
        perr = ev.calls_to(PERR)
        errs = [(bb, i, s) for bb, i, s in ev.all_stmts() if s["k"] == "assign" and s["place"] == {"l": 0}
                and s["rv"]["k"] == "agg" and s["rv"].get("variant") == "Err"]
        ctx.floor("C14.F1 Err exits of eval_impl" + tag, len(errs), 30)
        heads = [k.bb for k in ev.calls() if k.name == "minijinja::compiler::instructions::Instructions::get"]
        n_ex = 0
        for n, (bb, i, s) in enumerate(errs):
            e = err_local_of(ev, s)
            ok = False
            why = "no process_err call on this error dominates the return"
            if e is not None and "p" not in e:
                chain = {e["l"]}
                work = [e["l"]]
                while work:
                    l = work.pop()
                    for d in flow.whole_defs(ev, l):
                        if d.kind == "stmt" and d.rv["k"] == "use" and op_place(d.rv["op"]) is not None \
                                and "p" not in op_place(d.rv["op"]):
                            src = op_place(d.rv["op"])["l"]
                            if src not in chain:
                                chain.add(src)
                                work.append(src)
                for pc in perr:
                    if not cfg.dominates(ev, pc.bb, bb):
                        continue
                    # process_err(&mut e ..): first argument borrows the same local
                    tgt = set()
                    for d in flow.whole_defs(ev, op_place(pc.args[0])["l"]):
                        if d.kind == "stmt" and d.rv["k"] == "ref":
                            tgt.add(d.rv["place"]["l"])
                            for d2 in flow.whole_defs(ev, d.rv["place"]["l"]):
                                if d2.kind == "stmt" and d2.rv["k"] == "ref":
                                    tgt.add(d2.rv["place"]["l"])
                    hit = tgt & chain
                    if hit:
                        # straight line to the return: the loop head is not reachable in between
                        region = cfg.reach_from_succs(ev, pc.bb)
                        if not (set(heads) & region):
                            redefs = [d for r in hit for d in flow.defs(ev).get(r, []) if d.bb in region and d.bb != pc.bb]
                            if not redefs:
                                ok = True
                            else:
                                why = "the error is reassigned between process_err and the return"
            if not ok and e is not None:
                # reviewed exception: the error is the fmt::Error of the raw sink write (EmitRaw)
                os_ = flow.origins(ev, {"mv": e}, through_calls=lambda k: 0 if k.name in (
                    "core::result::Result::map_err",) or k.name.endswith("::into") or k.name.endswith("::from") else None)
                if os_ and all(o.kind == "call" and o.call.name == "minijinja::output::Output::write_str" for o in os_):
                    n_ex += 1
                    ctx.count("C14.F1 reviewed exceptions (raw sink write error)" + tag)
                    continue
            ctx.ob("C14.F1.error-exit-attaches-location", "%seval_impl|exit@%s" % (tag, _arm_of(ev, bb)), ok, why,
                   ev.where(bb))
        ctx.ob("C14.F1.only-one-unlocated-exit", tag + "eval_impl", n_ex <= 1,
               "%d error exits skip process_err under the sink-write exception (reviewed: 1)" % n_ex, ev.loc)
        # ---- F1c process_err structure
        # read through a helper the lookup of the location may have been moved into (`locate_instruction(instructions, pc)`)
        pe = prog.view(PERR, keep=("line", "get_span", "get_line", "set_filename_and_span", "set_filename_and_line", "is_none",
                                   "name", "attach_debug_info", "make_debug_info"), allow_pub=True)
        names = [c.name for c in pe.calls()]
        need = ["minijinja::error::Error::line", "minijinja::compiler::instructions::Instructions::get_span",
                "minijinja::error::Error::set_filename_and_span",
                "minijinja::compiler::instructions::Instructions::get_line",
                "minijinja::error::Error::set_filename_and_line"]
        for nm in need:
            ctx.ob("C14.F1.process_err-structure", "%s%s" % (tag, nm.split("::")[-1]), nm in names,
                   "process_err no longer calls %s" % nm, pe.loc)
        for c in pe.calls():
            if c.name in need[1:4:2]:       # get_span / get_line take the failing pc (arg 2 of process_err)
                os_ = flow.origins(pe, c.args[1])
                ctx.ob("C14.F1.process_err-uses-failing-pc", "%s%s" % (tag, c.name.split("::")[-1]),
                       len(os_) == 1 and os_[0].kind == "arg" and os_[0].arg == 2, "%r" % os_, pe.where(c.bb))
            if c.name in (need[2], need[4]):
                # guarded by err.line().is_none()
                g = False
                for (sb, taken) in flow.guards(pe, c.bb):
                    cd = flow.cond_of(pe, sb)
                    # `line().is_none()` on its true side, `line().is_some()` on its false side (an early return), or the
                    # None arm of a match on `line()`
                    if cd.kind == "call" and cd.call.name in ("core::option::Option::is_none", "core::option::Option::is_some"):
                        if any(o.kind == "call" and o.call.name == need[0] for o in flow.origins(pe, cd.call.args[0])):
                            side = flow.bool_true_labels(taken)
                            if side is not None:
                                truth = (side != cd.neg)
                                g = g or (truth == cd.call.name.endswith("is_none"))
                    elif cd.kind == "discr" and (cd.adt or "").endswith("option::Option"):
                        if any(o.kind == "call" and o.call.name == need[0] for o in flow.origins(pe, {"cp": cd.place})):
                            g = g or set(taken) == {"0"}
                ctx.ob("C14.F1.location-set-only-when-missing", "%s%s" % (tag, c.name.split("::")[-1]), g,
                       "an already located error (inner template) would be overwritten", pe.where(c.bb))
        # F1d: the same for the debug information (the source text and the variables shown with the error).  It belongs
        # to the template the error was located in: `attach_debug_info` is reachable only where the error has none yet.
        # A disjunction (`is_none() || kind() == SyntaxError`) replaces the source of an error located in another
        # template by the source of the including one (seed C14-8): decided by taking the `is_none()` true side away.
        atts = [c for c in pe.calls() if c.name.endswith("Error::attach_debug_info")]
        if atts:
            removed_ = set()
            tested_ = False
            for sb in sorted(pe.reachable):
                if pe.term(sb)["k"] != "switch":
                    continue
                cd = flow.cond_of(pe, sb)
                if cd.kind == "call" and cd.call.name in ("core::option::Option::is_none", "core::option::Option::is_some") and any(
                        (o.kind == "call" and o.call.name.endswith("Error::debug_info")) or "debug_info" in o.proj
                        for o in flow.origins(pe, cd.call.args[0], through_calls=lambda k: 0 if k.name.endswith(
                            ("::as_deref", "::as_ref", "::deref", "::as_deref_mut")) else None)):
                    tested_ = True
                    removed_ |= cfg.bool_edges(pe, sb, cd.call.name.endswith("is_none") != cd.neg)
            reach_ = cfg.reach_from(pe, 0, removed_edges=removed_)
            for c in atts:
                ctx.ob("C14.F1.debug-info-set-only-when-missing", "%s%s" % (tag, "attach_debug_info"), tested_ and c.bb not in reach_,
                       "process_err can attach debug info (source text, variables) to an error that already carries some: an "
                       "error located in another template then shows the source of the template it passes through, and "
                       "its line and range no longer index the text that is shown", pe.where(c.bb))
        # ---- F1b parser entry points
        for entry in ("minijinja::compiler::parser::Parser::parse",
                      "minijinja::compiler::parser::Parser::parse_standalone_expr"):
            f = prog.fn(entry)
            ok = False
            for c in f.calls():
                if c.name == "core::result::Result::map_err" and c.dest == {"l": 0}:
                    for a in c.args[1:]:
                        for o in flow.origins(f, a):
                            if o.kind == "agg" and o.rv.get("closure"):
                                cl = prog.fns.get(norm_path(o.rv["closure"]))
                                if cl and cl.calls_to("minijinja::compiler::parser::Parser::attach_location_to_error"):
                                    ok = True
            ctx.ob("C14.F1.parser-entry-attaches-location", tag + entry, ok,
                   "the entry point does not return through map_err(attach_location_to_error)", f.loc)
        al = prog.fn("minijinja::compiler::parser::Parser::attach_location_to_error")
        ctx.ob("C14.F1.attach_location-sets-span", tag + al.path,
               bool(al.calls_to("minijinja::error::Error::set_filename_and_span")) and bool(
                   al.calls_to("minijinja::error::Error::line")), "", al.loc)

        # ---- F2
        nf = 0
        nu = 0
        for f in prog.fns.values():
            if f.crate != "minijinja" or not f.loc.f.endswith(("/error.rs", "/debug.rs")):
                continue
            nf += 1
            per = {}
            for c in f.calls():
                if c.name in UNWRAPS and c.args:
                    p = op_place(c.args[0])
                    ty = f.locals[p["l"]]["s"] if p else ""
                    if "core::fmt::Error" in ty:
                        nu += 1
                        k = per[c.name] = per.get(c.name, 0) + 1
                        ctx.ob("C14.F2.no-unwrap-of-fmt-result", "%s%s|%s#%d" % (tag, f.path, c.name.split("::")[-1], k),
                               False, "a failing fmt::Write sink makes this panic instead of returning fmt::Error",
                               f.where(c.bb))
        ctx.floor("C14.F2 functions in error.rs/debug.rs" + tag, nf, 20 if cname != "MIN" else 15)
        if cname == "MAX":
            ctx.count("C14.F2 unwraps of fmt::Result found", nu)

        # ---- F3
        nsp = 0
        for f in prog.fns.values():
            if f.crate != "minijinja" or (f.trait or "").endswith("Default"):
                continue
            sites = []
            for d in flow.stores(f) + [x for l in flow.defs(f).values() for x in l if x.kind == "part"]:
                pr = d.place.get("p", [])
                if pr and isinstance(pr[-1], dict) and pr[-1].get("of") == SPAN and d.rv is not None:
                    sites.append((d.bb, pr[-1].get("n"), d.rv))
            for bb, i, s in f.all_stmts():
                rv = s.get("rv")
                if rv and rv["k"] == "agg" and rv.get("adt") == SPAN:
                    for fname, o in zip(rv.get("fields", []), rv["ops"]):
                        sites.append((bb, fname, {"k": "use", "op": o}))
            for bb, fname, rv in sites:
                nsp += 1
                ok, why = span_value_ok(f, rv, fname)
                ctx.ob("C14.F3.span-field-provenance", "%s%s|%s" % (tag, f.path, fname), ok, why, f.where(bb))
        ctx.floor("C14.F3 writes of Span fields" + tag, nsp, 6)
        # whoever moves the byte offset keeps line and column in step with the text it skips: the writer is found by
        # the write, not by name (a second advancing helper is fine as long as it counts the newlines it skips)
        TOK = "minijinja::compiler::lexer::Tokenizer"
        writers = {}
        for f, bb, w, p in query.field_accessors(prog, TOK, "current_offset"):
            if w:
                writers.setdefault(f.path, (f, bb))
        lines_w = {f.path for f, bb, w, p in query.field_accessors(prog, TOK, "current_line") if w}
        cols_w = {f.path for f, bb, w, p in query.field_accessors(prog, TOK, "current_col") if w}
        nw = 0
        for path, (f, bb) in sorted(writers.items()):
            inits = [1 for _, _, st in f.all_stmts() if st.get("rv", {}).get("k") == "agg" and st["rv"].get("adt") == TOK]
            if inits:
                continue        # the constructor
            nw += 1
            nl_test = False
            for sb in f.reachable:
                t = f.term(sb)
                if t["k"] == "switch" and any(v == "10" for v, _ in t["arms"]):
                    nl_test = True
                elif t["k"] == "switch":
                    # `if c == '\n'` instead of a match on the character
                    cd_ = flow.cond_of(f, sb)
                    if cd_.kind == "bin" and cd_.rv["op"] in ("Eq", "Ne") and any(
                            const_int(cd_.rv[x]) == 10 for x in ("a", "b") if "c" in cd_.rv[x]):
                        nl_test = True
            if not nl_test:
                # the newlines may be searched for instead of tested one character at a time (`skipped.rfind('\n')`,
                # `matches('\n').count()`, `memchr(b'\n', ..)`): a call that is handed the newline as a pattern
                for k_ in f.calls():
                    for a_ in k_.args:
                        c_ = a_.get("c") if isinstance(a_, dict) else None
                        if c_ is not None and (str(c_.get("int")) == "10" and c_.get("ty") in ("char", "u8") or c_.get("str") == "\n"):
                            nl_test = True
            ok = path in lines_w and path in cols_w and nl_test
            ctx.ob("C14.F3.offset-writer-tracks-lines", tag + path, ok,
                   "this function moves Tokenizer::current_offset over input text but %s: after it skips a newline "
                   "every later token, span and error line is off" % (
                       "does not update current_line" if path not in lines_w else
                       "does not update current_col" if path not in cols_w else "never tests the skipped characters for a newline"),
                   f.where(bb))
        ctx.floor("C14.F3 functions moving the lexer offset" + tag, nw, 1)
        adv = prog.fn("minijinja::compiler::lexer::Tokenizer::advance")
        sliced = any("index" in c.name and "str" in c.name.lower() or "RangeTo" in c.full for c in adv.calls())
        ctx.ob("C14.F3.advance-slices-the-input", tag + adv.path, sliced,
               "advance() no longer slices rest()[..bytes]: a non-boundary byte count would go unnoticed", adv.loc)

        # ---- F5
        refs = query.fn_refs(prog).get(RAW_ADD, [])
        ctx.floor("C14.F5 callers of the raw Instructions::add" + tag, len(refs), 2)
        for f, bb, how in refs:
            ctx.ob("C14.F5.raw-emission-is-reviewed", tag + f.path, f.path in RAW_ADD_OK,
                   "instruction emitted without a line record: errors raised by it carry no location", f.where(bb))
        ctx.count("configs")
    # F2b: the code that formats errors slices source text only at offsets that come from the text (byte offsets of
    # spans, search results) - never at a character column or a literal
    from .c01_slices import check_str_slices
    nfmt = check_str_slices(ctx, ctx.program("MAX"), rule="C14.F2.error-formatting-slices-at-text-offsets",
                            files=("minijinja/src/debug.rs", "minijinja/src/error.rs"), floor=0)
    ctx.count("C14.F2 str slicing sites in the error formatting code", nfmt)
    from .c14_lines import check_lines
    from .c14_spans import check_span_expansion
    for cname in ctx.configs():
        check_lines(ctx, ctx.program(cname), "" if cname == "MAX" else "[%s]" % cname)
        check_span_expansion(ctx, ctx.program(cname), "" if cname == "MAX" else "[%s]" % cname)
    # F7: a span recorded with an instruction is a byte range of the template being compiled.  Spans travel on the code
    # generator's span stack, which is a pooled thread-local vector: (a) the take / recycle helpers clear it (shared with
    # C15.U4), and (b) every construct pops what it pushed (the `spans` counter of the C05.B1 typestate is neutral for
    # every compile_* function), so nothing is left for a sub-generator or for the next compilation on the thread.
    from .c15 import check_buffer_pools
    progm = ctx.program("MAX")
    if progm.has_fn("minijinja::compiler::codegen::take_span_stack_buffer"):
        check_buffer_pools(ctx, progm, prefix="C14.F7")
    from ..brackets import Analysis, State, GEN, balanced_in_context
    viol = []

    def _rep(rule, inst, ok, detail, where):
        if not ok:
            viol.append((rule, inst, detail, where))
    an = Analysis(progm, _rep)
    nsp = 0
    gens_ = sorted((k for k, f in progm.fns.items() if k.startswith(GEN + "::") and f.kind != "closure"),
                   key=lambda k: (not progm.fn(k).is_pub, k))
    for g in gens_:
        an.summary(g)
    for g in sorted(gens_):
        s_ = an.summary(g)
        nm = g.split("::")[-1]
        if s_ is not None and (nm.startswith("compile_") or nm == "finish"):
            nsp += 1
            ok_, how_ = balanced_in_context(an, progm, g, lambda st: st.c.get("spans", 0) == 0)
            ctx.ob("C14.F7.construct-leaves-no-span-behind", nm, ok_,
                   "%s leaves the span stack %+d deep: the stale span (a byte range) is attached to later instructions on the "
                   "same line and - through the pooled buffer - can reach another template" % (nm, s_.c.get("spans", 0)),
                   progm.fn(g).loc)
    # recursive compile_* functions are assumed neutral by the summaries and verified separately; joins must agree
    for (rule_, inst_, detail_, where_) in viol:
        if "spans" in detail_:
            ctx.ob("C14.F7.construct-leaves-no-span-behind", inst_.split("::")[-1], False,
                   "the span stack is not balanced here (%s): the stale span (a byte range) is attached to later "
                   "instructions on the same line and - through the pooled buffer - can reach another template" % detail_, where_)
    ctx.floor("C14.F7 compile_* functions checked for span balance", nsp, 12)
    ctx.count("C14.F7 span stack operations seen", getattr(an, "span_ops", 0))
    # F8: the generator's line is the line of the construct being compiled.  `set_line` / `set_line_from_span` receive a
    # span that comes from the AST node at hand (a parameter, `node.span()`), never one read back from the span stack:
    # the stack also holds spans of *enclosing* constructs that started on earlier lines (a `{% call %}` tag above its
    # body, a loop filter above the iterable), and falling back to them makes later instructions report that line.
    nset = 0
    for f_ in sorted(progm.fns.values(), key=lambda x: x.path):
        if not f_.path.startswith(GEN + "::") and not (f_.root or "").startswith(GEN + "::"):
            continue
        for c_ in f_.calls():
            if c_.name not in (GEN + "::set_line", GEN + "::set_line_from_span") or len(c_.args) < 2:
                continue
            nset += 1
            from_stack = False
            for o_ in flow.origins(f_, c_.args[1], through_calls=flow._xpass):
                srcs = [o_]
                if o_.kind == "call" and o_.call.args:
                    srcs += flow.origins(f_, o_.call.args[0], through_calls=flow._xpass)
                if any("span_stack" in x.proj for x in srcs):
                    from_stack = True
            ctx.ob("C14.F8.line-comes-from-the-construct-being-compiled", "%s" % f_.path.split("::")[-1], not from_stack,
                   "%s sets the generator's line from a span read back from the span stack: the line can move back to an "
                   "enclosing construct that began on an earlier line, and the instructions that follow report that line"
                   % f_.path.split("::")[-1], f_.where(c_.bb))
    ctx.floor("C14.F8 set_line call sites in the code generator", nset, 10)
    # F9: an error the tokenizer hands on gets the tokenizer's own position.  The parser attaches the span of the *last
    # token it consumed* to any error that arrives without a location, so an error a helper (string unescaping) raised
    # for the token being read would be reported at the token before it - a line that does not move when lines are
    # inserted in between.  In every Tokenizer method the Err side of a call to a non-tokenizer function that returns the
    # crate's Error passes `set_filename_and_span` / `set_filename_and_line` before it returns.
    TOK = "minijinja::compiler::lexer::Tokenizer::"
    nl = 0
    for f_ in sorted(progm.fns.values(), key=lambda x: x.path):
        if not (f_.path.startswith(TOK) or (f_.root or "").startswith(TOK)):
            continue
        setters = [c_.bb for c_ in f_.calls() if c_.name.endswith("Error::set_filename_and_span") or c_.name.endswith("Error::set_filename_and_line")]
        for c_ in f_.calls():
            if c_.name.startswith(TOK) or c_.dest is None or "p" in c_.dest:
                continue
            if not c_.name.startswith("minijinja::"):
                continue        # library combinators: their errors are built by the closures passed to them (syntax_error)
            ty_ = f_.locals[c_.dest["l"]]
            if ty_.get("adt") != "core::result::Result" or "minijinja::error::Error" not in ty_.get("s", ""):
                continue
            sp_ = errflow.ok_err_blocks(f_, c_)
            if sp_ is None or not sp_[1]:
                continue
            nl += 1
            ok_ = all(cfg.paths_must_pass(f_, e_, setters, f_.returns()) for e_ in sp_[1])
            ctx.ob("C14.F9.tokenizer-errors-carry-the-tokenizer's-position", "%s|%s" % (f_.path.split("::")[-1], c_.name.split("::")[-1]), ok_,
                   "%s returns the error of %s without giving it the position of the token being read: the parser then "
                   "attaches the span of the previous token (wrong line, and it does not move with the literal)"
                   % (f_.path.split("::")[-1], c_.name.split("::")[-1]), f_.where(c_.bb))
    ctx.count("C14.F9 fallible helper calls in the tokenizer", nl)
    # F10 (after seed C14-7): spans and offsets index the text the tokenizer walked; `template_source()` and the debug
    # excerpt show the text the template was given.  They are the same text only if nobody hands the parser / code
    # generator a string *derived* from the source (a stripped BOM, a trimmed prefix, a normalised copy): every source
    # argument of the parser entry points, of `CodeGenerator::new` and of `attach_basic_debug_info` is the caller's own
    # parameter (or capture) or the stored source of compiled instructions, never the result of another call.
    n10 = 0
    for name_, idx_ in (("minijinja::compiler::parser::parse", 0), ("minijinja::compiler::parser::parse_expr", 0),
                        ("minijinja::compiler::codegen::CodeGenerator::new", 1), ("minijinja::error::attach_basic_debug_info", 1)):
        for c_ in prog.callers().get(name_, []):
            if len(c_.args) <= idx_:
                continue
            n10 += 1
            bad_ = []
            for o_ in flow.origins(c_.fn, c_.args[idx_]):
                if o_.kind == "arg":
                    continue
                if o_.kind == "call" and o_.call.name in prog.fns and prog.fns[o_.call.name].crate == "minijinja" \
                        and o_.call.name.split("::")[-1] == "source":
                    continue
                bad_.append(o_.call.name.split("::")[-1] if o_.kind == "call" else o_.kind)
            k_ = sum(1 for x in prog.callers().get(name_, []) if x.fn is c_.fn and x.bb <= c_.bb)
            ctx.ob("C14.F10.positions-index-the-text-that-is-shown", "%s|%s#%d" % (c_.fn.path.split("::")[-1] if c_.fn.kind != "closure" else c_.fn.path,
                                                                                     name_.split("::")[-1], k_), not bad_,
                   "%s is given a text computed by %s instead of the template source itself: byte ranges and lines of "
                   "errors are relative to that text, while the error shows the original source" % (name_.split("::")[-1], ", ".join(bad_)),
                   c_.fn.where(c_.bb))
    ctx.floor("C14.F10 places that hand the template source to the parser / generator / debug info", n10, 7)
    # F12 (round 10, seed C14-10): every instruction can be where an error is raised (with fuel the charge sits in front of
    # *every* dispatch), so the line / span tables must not treat instruction kinds differently: where a record is
    # appended to them no dominating condition looks at the instruction that is being added ("text and jumps never fail"
    # left the span of the expression before in place for an OutOfFuel raised at the text that follows).
    INSTR_T = "minijinja::compiler::instructions::Instruction"
    n12 = 0
    for f_ in prog.fns.values():
        if f_.crate != "minijinja" or not f_.loc.f.endswith("compiler/instructions.rs"):
            continue
        for c_ in f_.calls():
            if not c_.name.endswith("Vec::push") or len(c_.args) < 2 or "c" in c_.args[1]:
                continue
            recs = [o for o in flow.origins(f_, c_.args[1]) if o.kind == "agg" and (o.rv.get("adt") or "").endswith(("::SpanInfo", "::LineInfo"))]
            if not recs:
                continue
            n12 += 1
            culprit = None
            for (sb_, taken_) in flow.guards(f_, c_.bb):
                cd_ = flow.cond_of(f_, sb_)
                if cd_.kind == "discr" and cd_.adt == INSTR_T:
                    culprit = "a match on the instruction"
                elif flow.matches_variants(prog, f_, sb_, INSTR_T) is not None or _bool_from_enum(f_, sb_, INSTR_T):
                    culprit = "a matches!(..) on the instruction"
                elif cd_.kind == "call" and any(f_.locals[op_place(a_)["l"]].get("adt") == INSTR_T for a_ in cd_.call.args
                                                if op_place(a_) is not None and "p" not in op_place(a_)):
                    culprit = "a test of the instruction (%s)" % cd_.call.name.split("::")[-1]
            ctx.ob("C14.F12.location-records-do-not-depend-on-the-instruction-kind", "%s|%s" % (f_.path.split("::")[-1], recs[0].rv["adt"].split("::")[-1]),
                   culprit is None, "the record is appended under %s: instructions of some kinds keep the location of what came before"
                   % culprit if culprit else "no condition on the instruction", f_.where(c_.bb))
    if any(f_.loc.f.endswith("compiler/instructions.rs") for f_ in prog.fns.values()):
        ctx.floor("C14.F12 location records appended", n12, 2)
    # F13 (round 11, seed C14-11): a byte range that an error reports is a span the tokenizer recorded, never one the error
    # code computes.  In `Error::range()` and everything of the crate it calls, each `Range` that is built takes both ends,
    # through casts only, from the `start_offset` / `end_offset` of a stored span.  A range reconstructed from the line number
    # (`source.lines()` drops `\r\n` and `\n` alike, so with CR LF sources every preceding line counts one byte short) points
    # into the previous line or into the middle of a character.
    rf_ = prog.fns.get("minijinja::error::Error::range")
    if rf_ is not None:
        fam_ = [rf_]
        seen_ = {rf_.path}
        for _ in range(3):
            for g_ in list(fam_):
                for h_ in prog.closures_of(g_.path):
                    if h_.path not in seen_:
                        seen_.add(h_.path)
                        fam_.append(h_)
                for c_ in g_.calls():
                    h_ = prog.fns.get(c_.name)
                    if h_ is not None and h_.crate == "minijinja" and h_.path not in seen_ and h_.loc.f.endswith(("error.rs", "debug.rs")):
                        seen_.add(h_.path)
                        fam_.append(h_)
        n13 = 0
        for g_ in fam_:
            for bb_, i_, st_ in g_.all_stmts():
                rv_ = st_.get("rv")
                if not (rv_ and rv_["k"] == "agg" and (rv_.get("adt") or "").startswith("core::ops::range::Range")):
                    continue
                n13 += 1
                bad_ = []
                for op_ in rv_["ops"]:
                    os_ = flow.origins(g_, op_) if "c" not in op_ else []
                    if not os_ or not all(o.kind == "arg" and o.proj and o.proj[-1] in ("start_offset", "end_offset") for o in os_):
                        bad_.append(sorted({o.kind if o.kind != "call" else "call " + o.call.name.split("::")[-1] for o in os_}) or ["constant"])
                ctx.ob("C14.F13.reported-range-is-a-recorded-span", "%s|Range#%d" % (g_.path.split("::")[-1] if g_.kind != "closure" else g_.path.split("::", 2)[-1], n13), not bad_,
                       "a byte range handed out by Error::range() is computed (%s) instead of being the stored span" % bad_, g_.where(bb_))
        ctx.floor("C14.F13 ranges built for Error::range", n13, 1)
    # F11: the token stream hands a pending tokenizer error out *once* (`current()` replaces it by "end of input").
    # Whoever asks for the current token therefore returns that error; matching it away (`matches!(stream.current(),
    # Ok(Some(..)))` in a guard, `if let Ok(..) = ..`) loses the real error and the parser fails later with
    # "unexpected end of input" at the previous token (found on the unchanged tree, fix recorded in known_findings).
    n11 = 0
    CUR = "minijinja::compiler::parser::TokenStream::current"
    for c_ in prog.callers().get(CUR, []):
        if c_.dest is None or "p" in c_.dest:
            continue
        n11 += 1
        ds_ = errflow.disposition(c_.fn, c_)
        bad_ = [d for d in ds_ if d[0] in ("matched-not-propagated", "swallowed")]
        if bad_:
            k_ = sum(1 for x in prog.callers().get(CUR, []) if x.fn is c_.fn and x.bb <= c_.bb)
            ctx.ob("C14.F11.pending-tokenizer-error-is-handed-on", "%s|current#%d" % (c_.fn.path.split("::")[-1], k_), False,
                   "%s asks the token stream for the current token and does not return its error (%s): the stream hands a "
                   "pending tokenizer error out only once, so the real error (and its line) is lost and the parser reports "
                   "`unexpected end of input` at the previous token" % (c_.fn.path.split("::")[-1], bad_[0][0]), c_.fn.where(c_.bb))
    ctx.ob("C14.F11.pending-tokenizer-error-is-handed-on", "all-parser-functions", True, "calls checked: %d" % n11, "")
    ctx.floor("C14.F11 calls of TokenStream::current", n11, 60)
    ctx.sample({"Err exits": len(errs), "process_err calls": len(perr)})
    # F14: the formatting code itself
    fmt_fns = [f_ for f_ in sorted(prog.fns.values(), key=lambda x: x.path) if f_.crate == "minijinja" and (
        f_.loc.f.endswith("minijinja/src/debug.rs") or (f_.loc.f.endswith("minijinja/src/error.rs") and (
            "::fmt" in f_.path or "render" in f_.path or "Display" in f_.path)))]
    ctx.floor("C14.F14 formatting functions", len(fmt_fns), 4)
    n14 = check_formatting_cannot_panic(ctx, prog, fmt_fns)
    ctx.count("C14.F14 operations that panic on a short slice", n14)
    sub14 = ctx.fresh()
    cprog = ctx.controls
    check_formatting_cannot_panic(sub14, cprog, [cprog.fn("mjsa_controls::c14::excerpt_unguarded"), cprog.fn("mjsa_controls::c14::excerpt_guarded")], "control:")
    bad14 = [o for o in sub14.obligations if not o[2]]
    ctx.control("C14.F14", len(bad14) == 1 and "excerpt_unguarded" in bad14[0][1] and len(sub14.obligations) >= 2)


PANICKY_CALLS = ("::unwrap", "::expect", "::split_at", "::split_at_mut", "::swap_remove", "::remove", "::copy_from_slice")


def _asks_for_the_length(f, bb):
    """does a test of a length / emptiness / presence dominate bb (`if rest.is_empty()`, `idx < lines.len()`, a
    `get(..)` / `first()` / `split_first()` that was matched)"""
    for (sb, taken) in flow.guards(f, bb):
        cd = flow.cond_of(f, sb)
        ops_ = []
        if cd.kind == "bin":
            ops_ = [cd.rv["a"], cd.rv["b"]]
        elif cd.kind == "call":
            if cd.call.name.split("::")[-1] in ("is_empty", "is_some", "is_none", "is_char_boundary", "contains", "starts_with"):
                return True
            ops_ = list(cd.call.args)
        elif cd.kind in ("local", "discr") and cd.place is not None:
            ops_ = [{"cp": cd.place}]
        for op in ops_:
            if "c" in op:
                continue
            for o in flow.origins(f, op):
                if o.kind == "call" and o.call.name.split("::")[-1] in (
                        "len", "is_empty", "get", "first", "last", "split_first", "split_last", "checked_sub", "find", "position",
                        "strip_prefix", "strip_suffix", "count"):
                    return True
                rv = getattr(o, "rv", None)
                if rv and (rv.get("k") == "len" or (rv.get("k") == "un" and rv.get("op") == "PtrMetadata")):
                    return True
    return False


def check_formatting_cannot_panic(ctx, prog, fns, tag="", rule="C14.F14.formatting-an-error-does-not-panic"):
    """F14 (round 12, seed C14-12): `{}`, `{:#}`, `{:?}` and `display_debug_info()` of an error never panic - also for
    the errors whose location is one past the last line, or that have no line at all.  In the code that formats an
    error (the `fmt` implementations of the error module, the source excerpt of the debug module) every operation that
    panics on a short slice - a range index, an element index (bounds check), `split_at`, `unwrap` / `expect` - sits
    behind a test of the length, emptiness or presence it relies on.  Returns the number of such operations."""
    n = 0
    for f in fns:
        sites = []
        for c in f.calls():
            last = c.name.split("::")[-1]
            if last in ("index", "index_mut") and "Index" in c.name and any(
                    r in " ".join(f.locals[op_place(a)["l"]].get("s", "") for a in c.args[1:] if op_place(a) is not None and "p" not in op_place(a))
                    for r in ("Range", "usize")):
                sites.append((c.bb, "slice[%s]" % ("range" if "Range" in " ".join(
                    f.locals[op_place(a)["l"]].get("s", "") for a in c.args[1:] if op_place(a) is not None and "p" not in op_place(a)) else "index")))
            elif c.name.endswith(PANICKY_CALLS) and c.name.startswith(("core::", "alloc::", "std::")):
                if last.startswith("split_at") and len(c.args) == 2 and any(
                        o.kind == "call" and o.call.name.split("::")[-1] in ("min", "len") for o in flow.origins(f, c.args[1])):
                    continue        # `split_at(n.min(xs.len()))`: clamped to the length
                sites.append((c.bb, last))
        for bb in sorted(f.reachable):
            t = f.term(bb)
            if t["k"] == "assert" and str(t.get("kind", "")).startswith("BoundsCheck"):
                sites.append((bb, "element index"))
        def _clamped(op):
            return any(o.kind == "call" and o.call.name.split("::")[-1] == "min" and any(
                oo.kind == "call" and oo.call.name.split("::")[-1] == "len" or (getattr(oo, "rv", None) or {}).get("k") == "len"
                or ((getattr(oo, "rv", None) or {}).get("k") == "un" and (getattr(oo, "rv", None) or {}).get("op") == "PtrMetadata")
                for a_ in o.call.args if "c" not in a_ for oo in flow.origins(f, a_)) for o in flow.origins(f, op))

        def _range_clamped(bb):
            # `xs[a.min(xs.len())..b.min(xs.len())]`: every bound of the range is clamped to the length
            c_ = [k for k in f.calls() if k.bb == bb][0]
            for a_ in c_.args[1:]:
                for o in flow.origins(f, a_):
                    if o.kind == "agg" and "Range" in (o.rv.get("adt") or ""):
                        bounds = [x for x in o.rv["ops"] if "c" not in x]
                        consts = [x for x in o.rv["ops"] if "c" in x]
                        if bounds and all(_clamped(x) for x in bounds) and all(const_int(x) == 0 for x in consts):
                            return True
            return False
        sites = [(bb, what) for bb, what in sites if not (what == "slice[range]" and _range_clamped(bb))]
        per = {}
        for bb, what in sites:
            n += 1
            per[what] = per.get(what, 0) + 1
            nm = f.path.split("::")[-1] if f.kind != "closure" else f.path.split("::", 2)[-1]
            ctx.ob(rule, "%s%s|%s#%d" % (tag, nm, what, per[what]), _asks_for_the_length(f, bb),
                   "%s does `%s` without a test of the length / presence it relies on: an error whose line is one past the "
                   "last line of the source (a lexer error at the end of input after a kept trailing newline) or that has "
                   "no line (an empty expression) makes formatting it panic" % (nm, what), f.where(bb))
    return n



def _bool_from_enum(f, sb, adt):
    """is the bool this switch tests computed (through copies / negation) from constants assigned under a match on `adt`"""
    p = op_place(f.term(sb)["discr"])
    if p is None or "p" in p:
        return False
    seen, work = set(), [p["l"]]
    while work and len(seen) < 12:
        l = work.pop()
        if l in seen:
            continue
        seen.add(l)
        for d in flow.whole_defs(f, l):
            if d.kind != "stmt":
                continue
            rv = d.rv
            if rv["k"] == "use" and "c" in rv["op"]:
                for (gb, taken) in flow.guards(f, d.bb):
                    cd = flow.cond_of(f, gb)
                    if cd.kind == "discr" and cd.adt == adt:
                        return True
            elif rv["k"] == "use" and op_place(rv["op"]) is not None and "p" not in op_place(rv["op"]):
                work.append(op_place(rv["op"])["l"])
            elif rv["k"] == "un" and op_place(rv["a"]) is not None and "p" not in op_place(rv["a"]):
                work.append(op_place(rv["a"])["l"])
            elif rv["k"] == "bin":
                for k in ("a", "b"):
                    q = op_place(rv[k])
                    if q is not None and "p" not in q:
                        work.append(q["l"])
    return False


def _arm_of(fn, bb):
    """name the error exit without line numbers: index among exits sharing the nearest named callee"""
    # nearest preceding call in dominator chain gives a stable label
    dom = cfg.dominators(fn)[bb]
    calls = [c for c in fn.calls() if c.bb in dom and c.name != PERR]
    calls.sort(key=lambda c: len(cfg.dominators(fn)[c.bb]))
    label = calls[-1].name.split("::")[-1] if calls else "?"
    cache = fn.__dict__.setdefault("_arm_labels", {})
    cache.setdefault(label, [])
    if bb not in cache[label]:
        cache[label].append(bb)
    return "%s#%d" % (label, cache[label].index(bb) + 1)


ALLOWED_FIELDS = {"current_line", "current_col", "current_offset", "start_line", "start_col", "start_offset",
                  "end_line", "end_col", "end_offset"}


_BIN_SEEN = set()


def span_value_ok(fn, rv, fname, depth=0):
    """provenance of a value written into a Span field"""
    if depth == 0:
        _BIN_SEEN.clear()
    if depth > 8:
        return False, "too deep"
    if rv["k"] == "use":
        os_ = flow.origins(fn, rv["op"], through_calls=lambda k: 0 if k.name.endswith("::clone") else None)
        for o in os_:
            ok, why = origin_ok(fn, o, fname, depth)
            if not ok:
                return False, why
        return True, ""
    if rv["k"] in ("bin", "cast"):
        return origin_ok(fn, flow.Origin(rv["k"], rv=rv), fname, depth)
    return False, "unexpected rvalue %s" % rv["k"]


def origin_ok(fn, o, fname, depth):
    off = fname.endswith("offset")
    if o.kind in ("arg", "undef"):
        if o.proj and o.proj[-1] in ALLOWED_FIELDS or not o.proj:
            return True, ""
        # tuple fields of loc(): (line, col, offset) passed as argument
        if all(p.isdigit() or p in ALLOWED_FIELDS for p in o.proj):
            return True, ""
        return False, "value read from %s" % ".".join(o.proj)
    if o.kind == "call":
        nm = o.call.name
        if nm.endswith("Tokenizer::loc") or nm.endswith("Tokenizer::span") or nm.endswith("TokenStream::last_span") \
                or nm.endswith("TokenStream::current_span") or nm.endswith("::span") or nm.endswith("expand_span"):
            return True, ""
        if "saturating_add" in nm or "saturating_sub" in nm:
            if off:
                return False, "byte offset adjusted with %s" % nm
            return True, ""
        if nm.endswith("::min") or nm.endswith("::max"):
            return True, ""
        return False, "value produced by %s" % nm
    if o.kind == "cast":
        return span_value_ok(fn, {"k": "use", "op": o.rv["op"]}, fname, depth + 1)
    if o.kind == "bin":
        op = o.rv["op"]
        key = (fn.path, o.bb, o.idx)
        if key in _BIN_SEEN:
            return True, ""          # inductive: the same update feeding itself
        _BIN_SEEN.add(key)
        if op.startswith("Add"):
            sides = []
            for side in ("a", "b"):
                os_ = flow.origins(fn, o.rv[side])

                def _is_width(x):
                    # the width of a character; nothing (0) where there is no character (`None => 0` at the end of input)
                    if x.kind == "call" and x.call.name.endswith("char::methods::<impl char>::len_utf8"):
                        return True
                    if x.kind == "const" and x.const is not None and str(x.const.get("int")) == "0":
                        return True
                    if x.kind == "cast":
                        return all(_is_width(y) for y in flow.origins(fn, x.rv["op"]))
                    return False
                if os_ and all(_is_width(x) for x in os_) and any(x.kind != "const" for x in os_):
                    sides.append("width")
                else:
                    ok, why = span_value_ok(fn, {"k": "use", "op": o.rv[side]}, fname, depth + 1)
                    sides.append("pos" if ok else "bad:" + why)
            if sorted(sides) == ["pos", "width"]:
                return True, ""
            return False, ("span %s computed as %s + %s: only `position + char.len_utf8()` keeps a byte range on a "
                           "character boundary" % (fname, sides[0], sides[1]))
        return False, "span %s computed with %s" % (fname, op)
    if o.kind == "const":
        return False, "span %s set from a constant" % fname
    if o.kind == "agg":
        if o.rv.get("adt") == SPAN:
            return True, ""
        return False, "aggregate"
    if o.kind == "other":
        # WithOverflow tuple results etc.
        return False, "span %s computed by %s" % (fname, o.rv.get("k"))
    return False, "unrecognised origin %r" % o
