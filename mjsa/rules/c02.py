"""C02 — HTML auto-escaping is sound: unsafe data is escaped exactly once.

Structural clauses:
 S1 single choke point: only the reviewed functions write to `Output`; in the interpreter the only direct write is the
    EmitRaw handler writing the instruction's own text, and `Emit` reaches the sink only through write_escaped /
    Environment::format.
 S2 raw writes only under a safe-content condition: inside write_escaped / write_with_html_escaping every write that
    is not an `HtmlEscape(..)` rendering is dominated by one of the enumerated conditions (safe string; escaping
    disabled; integer/bool representation; ASCII-integer small string; needs_html_escaping false; kind in
    {undefined, none, bool, number}).
 S3 safe-string constructors: every `Value::from_safe_string` site is either a reviewed safe-marking function or is
    control-dependent on a safety / auto-escape test; inside such a safety-aware region raw string accessors on
    values whose safety was not tested are only used as search patterns (never as inserted text).
 S4 captures: end_capture / Macro::call mark the captured text safe only when auto-escape is not None.
 S5 byte-set agreement: needs_html_escaping tests a superset of the bytes HtmlEscape escapes, which is a superset of
    < > & " ' ; both stay inside the range pre-check; replacements contain no raw < > " ' ; is_ascii_integer_str only
    accepts '-' and ASCII digits.
"""
import json
import os

from .. import cfg, flow, errflow, query, arms
from ..facts import op_place, const_int, norm_path, VERIF

OUT_WRITES = ("minijinja::output::Output::write_str", "minijinja::output::Output::write_fmt",
              "<minijinja::output::Output<'_> as core::fmt::Write>::write_str",
              "<minijinja::output::Output<'_> as core::fmt::Write>::write_char",
              "<minijinja::output::Output<'_> as core::fmt::Write>::write_fmt")
WRITERS = {
    "minijinja::utils::write_escaped": "the escape choke point",
    "minijinja::utils::write_with_html_escaping": "HTML branch of the choke point",
    "minijinja::utils::json_escape_write": "JSON branch of the choke point",
    "minijinja::vm::Executor::eval_impl": "EmitRaw: template text",
    "minijinja::output::Output::write_str": "forwarding wrapper",
    "minijinja::output::Output::write_fmt": "forwarding wrapper",
}
SAFE = "minijinja::value::Value::from_safe_string"
REPR = "minijinja::value::ValueRepr"
KIND = "minijinja::value::ValueKind"
AE = "minijinja::utils::AutoEscape"
INSTR = "minijinja::compiler::instructions::Instruction"

# reviewed safe-marking sites (class B): documented to return markup / the public constructor
SAFE_MARKERS = {
    "minijinja::filters::safe": "the `safe` filter: explicit safe-marking construct (excluded by the property)",
    "minijinja::filters::escape": "returns the buffer written by write_escaped (escaped text)",
    "minijinja::filters::builtins::tojson::{closure#1}": "HTML-safe JSON (C16.T1)",
    "minijinja_contrib::globals::lipsum": "documented to return markup when html=true; text is generated, not user data",
}
# functions that may re-mark their result as safe because the input was (StringInput::preserve_safety): the transform
# can only delete characters, change letter case or insert constant whitespace - it cannot turn escaped text into markup
SAFETY_PRESERVERS = {
    "minijinja::filters::builtins::upper": "case mapping: entity names are case-changed (`&LT;` is not a tag either)",
    "minijinja::filters::builtins::lower": "case mapping",
    "minijinja::filters::builtins::capitalize": "case mapping of the first character",
    "minijinja::filters::builtins::trim": "removes characters from both ends",
    "minijinja::filters::builtins::indent": "inserts spaces after line breaks",
}
RAW_ACCESSORS = ("minijinja::value::argtypes::StringInput::as_str", "minijinja::value::Value::as_str",
                 "minijinja::value::Value::to_str")
ESCAPERS = ("minijinja::value::argtypes::StringInput::format", "minijinja::vm::state::State::format",
            "minijinja::filters::escape")
IS_SAFE = ("minijinja::value::Value::is_safe", "minijinja::value::argtypes::StringInput::is_safe")
PATTERN_POS = {  # callee -> argument indexes that are search patterns, not inserted text
    "alloc::str::<impl str>::replace": (1,), "alloc::str::<impl str>::replacen": (1,),
    "core::str::<impl str>::split": (1,), "core::str::<impl str>::splitn": (2,),
    "core::str::<impl str>::find": (1,), "core::str::<impl str>::contains": (1,),
    "core::str::<impl str>::starts_with": (1,), "core::str::<impl str>::ends_with": (1,),
    "core::str::<impl str>::trim_matches": (1,), "core::str::<impl str>::trim_start_matches": (1,),
    "core::str::<impl str>::trim_end_matches": (1,), "core::str::<impl str>::strip_prefix": (1,),
    "core::str::<impl str>::strip_suffix": (1,), "core::str::<impl str>::len": (0,),
    "core::str::<impl str>::is_empty": (0,),
}


def safety_derived(prog, f, place_or_op, depth=0):
    """does the boolean derive from an is_safe()/`.safe`/auto_escape test?"""
    if depth > 4:
        return False
    for o in flow.origins(f, place_or_op):
        if o.kind == "call":
            n = o.call.name
            if n in IS_SAFE:
                return True
            if n.endswith("::is_some_and") or n.endswith("::any") or n.endswith("::all") or n.endswith("::map_or"):
                for a in o.call.args:
                    c = a.get("c")
                    if c is not None and norm_path(c.get("fn", "")) in IS_SAFE:
                        return True
                    for o2 in flow.origins(f, a):
                        if o2.kind == "agg" and o2.rv.get("closure"):
                            cl = prog.fns.get(norm_path(o2.rv["closure"]))
                            if cl and any(k.name in IS_SAFE for k in cl.calls()):
                                return True
        if o.kind in ("arg", "undef") and "safe" in o.proj:
            return True
        if o.kind == "arg" and f.kind == "closure" and o.proj and o.proj[0].isdigit():
            caps = flow.closure_captures(prog, f)
            i = int(o.proj[0])
            host = prog.fns.get(f.parent)
            if i < len(caps) and host is not None:
                for oc in caps[i]:
                    if oc.kind == "undef" and safety_derived(prog, host, oc.idx, depth + 1):
                        return True
                    if oc.kind == "call" and oc.call.name in IS_SAFE:
                        return True
                    if oc.kind in ("bin", "un", "other", "const"):
                        pass
        if o.kind == "undef":
            # a multi-def bool temp of a short-circuit expression: look at all defs
            for d in flow.defs(f).get(o.idx, []):
                if d.kind == "call" and d.call.name in IS_SAFE:
                    return True
    return False


def safety_guard(prog, f, bb):
    """(kind, detail) of the accepted safety condition guarding bb, or None"""
    for g in flow.guard_facts(prog, f, bb):
        if g[0] == "call" and g[1] in IS_SAFE and g[2] is True:
            return "is_safe", g[3]
        if g[0] == "call" and g[2] is True and (g[1].endswith("::is_some_and") or g[1].endswith("::any")):
            for a in g[3].args:
                c = a.get("c")
                if c is not None and norm_path(c.get("fn", "")) in IS_SAFE:
                    return "is_safe(any)", g[3]
        if g[0] == "local" and g[2] is True:
            p = g[1]
            if "safe" in flow._proj_names(p):
                return "safe-field", None
            if safety_derived(prog, f, {"cp": p}):
                return "derived", None
            # multi-def temp
            for d in flow.defs(f).get(p["l"], []):
                if d.kind == "call" and d.call.name in IS_SAFE:
                    return "derived", None
                if d.kind == "stmt" and d.rv["k"] == "use" and op_place(d.rv["op"]) and safety_derived(prog, f, d.rv["op"]):
                    return "derived", None
        if g[0] == "matches" and g[1] == AE and ((g[3] is False and g[2] == frozenset({"None"})) or (
                g[3] is True and "None" not in g[2])):
            return "auto-escape-on", None
        if g[0] == "variant" and g[2] == AE and "None" not in g[3]:
            return "auto-escape-on", None
    return None


def disjunctive_safety_guard(prog, f, bb):
    """bb is unreachable once the `true` edges of every safety test in f are removed"""
    removed = set()
    n = 0
    for sb in sorted(f.reachable):
        if f.term(sb)["k"] != "switch":
            continue
        cd = flow.cond_of(f, sb)
        hit = False
        if cd.kind == "call" and cd.call.name in IS_SAFE:
            hit = True
        elif cd.kind == "call" and (cd.call.name.endswith("::is_some_and") or cd.call.name.endswith("::any")):
            hit = any(norm_path(a.get("c", {}).get("fn", "")) in IS_SAFE for a in cd.call.args)
        elif cd.kind == "local" and cd.place is not None and ("safe" in flow._proj_names(cd.place)):
            hit = True
        if hit:
            n += 1
            removed |= flow.true_side(f, sb, cd)
    if not n:
        return False
    return bb not in cfg.reach_from(f, 0, removed_edges=removed)


def safe_region(prog, f):
    """blocks reachable only through the true edge of some safety test"""
    removed = set()
    for sb in sorted(f.reachable):
        if f.term(sb)["k"] != "switch":
            continue
        cd = flow.cond_of(f, sb)
        hit = False
        if cd.kind == "call" and cd.call.name in IS_SAFE:
            hit = True
        elif cd.kind == "call" and (cd.call.name.endswith("::is_some_and") or cd.call.name.endswith("::any")):
            hit = any(norm_path(a.get("c", {}).get("fn", "")) in IS_SAFE for a in cd.call.args)
        elif cd.kind == "local" and cd.place is not None:
            if "safe" in flow._proj_names(cd.place) or safety_derived(prog, f, {"cp": cd.place}):
                hit = True
            else:
                for d in flow.defs(f).get(cd.place["l"], []):
                    if d.kind == "call" and d.call.name in IS_SAFE:
                        hit = True
        if hit:
            removed |= flow.true_side(f, sb, cd)
    return f.reachable - cfg.reach_from(f, 0, removed_edges=removed)


def const_eval(f, op, depth=0):
    """integer value of an operand built from constants (handles `b'>' - b'"'`)"""
    c = op.get("c")
    if c is not None:
        return int(c["int"]) if "int" in c else None
    if depth > 4:
        return None
    vals = set()
    for o in flow.origins(f, op):
        if o.kind == "const" and "int" in o.const:
            vals.add(int(o.const["int"]))
        elif o.kind == "bin":
            a = const_eval(f, o.rv["a"], depth + 1)
            b = const_eval(f, o.rv["b"], depth + 1)
            if a is None or b is None:
                return None
            opn = o.rv["op"].replace("WithOverflow", "").replace("Unchecked", "")
            vals.add({"Add": a + b, "Sub": a - b, "Mul": a * b}.get(opn))
        else:
            return None
    return vals.pop() if len(vals) == 1 else None


def _promoted_range(fn, const):
    """(lo, hi) of a promoted `lo..=hi` / `lo..hi` u8 range constant, else None"""
    if const is None or "promoted" not in const:
        return None
    pr = fn.raw.get("promoted", [])
    if const["promoted"] >= len(pr):
        return None
    body = pr[const["promoted"]]
    for b_ in body["blocks"]:
        t = b_.get("t") or {}
        if t.get("k") == "call" and "RangeInclusive" in (t.get("callee", {}).get("path") or "") and len(t.get("args", [])) >= 2:
            lo = const_int(t["args"][0])
            hi = const_int(t["args"][1])
            if lo is not None and hi is not None:
                return lo, hi
        for st in b_["s"]:
            rv = st.get("rv", {})
            if rv.get("k") == "agg" and "Range" in (rv.get("adt") or "") and len(rv["ops"]) >= 2:
                lo = const_int(rv["ops"][0])
                hi = const_int(rv["ops"][1])
                if lo is not None and hi is not None:
                    return (lo, hi) if "Inclusive" in rv["adt"] else (lo, hi - 1)
    return None


def _eval_u8_fn(g, v):
    """possible results of a small function of one byte for the byte value v (constants, comparisons and switches on the
    byte are followed; anything else is explored on all sides)"""
    rets = set()
    seen = set()
    stack = [(0, ((1, v),))]
    while stack:
        bb, envt = stack.pop()
        if (bb, envt) in seen or len(seen) > 4000:
            continue
        seen.add((bb, envt))
        env = dict(envt)

        def val(op):
            c = op.get("c")
            if c is not None and "int" in c:
                return int(c["int"])
            q = op_place(op)
            if q is not None and "p" not in q:
                return env.get(q["l"])
            return None
        for st in g.stmts(bb):
            if st["k"] != "assign" or "p" in st["place"]:
                continue
            rv = st["rv"]
            out = None
            if rv["k"] in ("use", "cast"):
                out = val(rv["op"])
            elif rv["k"] == "bin":
                a, b = val(rv["a"]), val(rv["b"])
                if a is not None and b is not None:
                    out = {"Ge": int(a >= b), "Gt": int(a > b), "Le": int(a <= b), "Lt": int(a < b), "Eq": int(a == b), "Ne": int(a != b),
                           "BitAnd": a & b, "BitOr": a | b, "Sub": (a - b) % 256, "Add": a + b, "Shr": a >> b if b < 64 else 0}.get(rv["op"])
            if out is None:
                env.pop(st["place"]["l"], None)
            else:
                env[st["place"]["l"]] = out
        t = g.term(bb)
        if t["k"] == "return":
            rets.add(env.get(0))
            continue
        envt2 = tuple(sorted(env.items()))
        if t["k"] == "switch":
            dv = val(t["discr"])
            if dv is not None:
                listed = {a_: x for a_, x in t["arms"]}
                stack.append((listed.get(str(dv), t["otherwise"]), envt2))
                continue
        if t["k"] == "call" and t.get("dest") is not None and "p" not in t["dest"]:
            env.pop(t["dest"]["l"], None)
            envt2 = tuple(sorted(env.items()))
        for x in g.succ[bb]:
            stack.append((x, envt2))
    return rets


def _utf8_len(v):
    return 1 if v < 0xC0 else 2 if v < 0xE0 else 3 if v < 0xF0 else 4


def check_every_byte_examined(ctx, prog, fpath, sets_):
    """S10 (round 10, seed C02-10): the escaper can only escape the bytes it looks at.  The byte its classifier switches on
    must be the item of an iteration over the whole input (`Iterator::next` of bytes / chars / enumerate), or - in an
    index loop - the index must advance by exactly one per round: every definition of the index inside the loop is
    `index + 1`, and no round passes two of them.  A variable skip ("step over the UTF-8 sequence") that overshoots by one
    leaves the byte behind every non-ASCII character unexamined.  Idiom-bound: a correct variable skip is reported too,
    with this text."""
    f = prog.fn(fpath)
    n = 0
    for (bb, vals) in sets_:
        g = f
        t = g.term(bb) if bb < g.nblocks and g.term(bb)["k"] == "switch" else None
        if t is None:
            continue
        n += 1
        os_ = flow.origins(g, t["discr"])
        by_next = [o for o in os_ if o.kind == "call" and o.call.name.endswith(("Iterator>::next", "Iterator::next"))]
        idx_locals = set()
        for o in os_:
            if o.kind == "call" and "Index" in o.call.name and o.call.name.endswith("::index") and len(o.call.args) > 1:
                for q in flow.origins(g, o.call.args[1]):
                    if q.kind in ("bin", "arg", "const", "call"):
                        pass
                p_ = op_place(o.call.args[1])
                if p_ is not None:
                    idx_locals.add(p_["l"])
        # a direct `bytes[i]` projection
        pl = op_place(t["discr"])
        for d in flow.defs(g).get(pl["l"], []) if pl is not None else []:
            if d.kind == "stmt" and d.rv["k"] == "use":
                q = op_place(d.rv["op"])
                for e in (q or {}).get("p", []):
                    if isinstance(e, dict) and "idx" in e:
                        idx_locals.add(e["idx"])
        if by_next and not idx_locals:
            ctx.ob("C02.S10.escaper-examines-every-byte", "HtmlEscape|classifier@%d" % n, True, "the byte is the item of an iteration over the input", g.where(bb))
            continue
        ok = bool(idx_locals)
        why = []
        loops = [b for h, b in cfg.natural_loops(g) if bb in b]
        body = set().union(*loops) if loops else set()
        for l in idx_locals:
            # follow copies back to the loop-carried variable
            roots = set()
            for o in flow.origins(g, l):
                if o.kind == "bin":
                    roots.add(o)
            defs_in = [d for d in flow.defs(g).get(l, []) if d.bb in body]
            carried = l
            # the indexed local may be a per-round copy of the loop variable (`_idx = i; bytes[_idx]`): follow plain copies
            for _hop in range(4):
                ds_ = [d for d in flow.defs(g).get(carried, []) if d.bb in body]
                srcl = {op_place(d.rv["op"])["l"] for d in ds_ if d.kind == "stmt" and d.rv["k"] == "use" and op_place(d.rv["op"]) is not None
                        and "p" not in op_place(d.rv["op"])}
                if ds_ and len(srcl) == 1 and all(d.kind == "stmt" and d.rv["k"] == "use" and "c" not in d.rv["op"] for d in ds_) \
                        and not any(o.kind == "bin" for d in ds_ for o in [None] if False):
                    nxt = next(iter(srcl))
                    # a copy of itself through the checked-add tuple is the increment, not a copy
                    if all(any(q.kind in ("bin",) for q in flow.origins(g, d.rv["op"])) and
                           not any(q.kind == "const" for q in flow.origins(g, d.rv["op"])) for d in ds_):
                        break
                    carried = nxt
                else:
                    break
            defs_in = [d for d in flow.defs(g).get(carried, []) if d.bb in body]
            if not defs_in:
                # `_idx = i` copied each round: find the local it copies
                for d in flow.defs(g).get(l, []):
                    if d.kind == "stmt" and d.rv["k"] == "use" and op_place(d.rv["op"]) is not None and "p" not in op_place(d.rv["op"]):
                        carried = op_place(d.rv["op"])["l"]
            incs = []
            for d in flow.defs(g).get(carried, []):
                if d.bb not in body or d.kind != "stmt":
                    continue
                srcs = flow.origins(g, d.rv["op"]) if d.rv["k"] == "use" else []
                plus_one = bool(srcs) and all(o.kind == "bin" and o.rv["op"] in ("Add", "AddWithOverflow", "AddUnchecked")
                                              and (const_int(o.rv["b"]) == 1 or const_int(o.rv["a"]) == 1) for o in srcs)
                if not plus_one and srcs and all(o.kind == "bin" and o.rv["op"] in ("Add", "AddWithOverflow", "AddUnchecked") for o in srcs):
                    # a skip over a whole UTF-8 sequence: the step is what a helper of the crate says about the lead byte;
                    # that helper is evaluated on all 256 byte values and must answer the length of the sequence each one
                    # starts (finite domain), and the step is taken for non-ASCII bytes only
                    exact = True
                    for o in srcs:
                        hc = [q for x in (o.rv["a"], o.rv["b"]) if "c" not in x for q in flow.origins(g, x) if q.kind == "call"]
                        h = prog.fns.get(hc[0].call.name) if len(hc) == 1 else None
                        if h is None or h.argc != 1 or h.locals[1].get("prim") != "u8":
                            exact = False
                            continue
                        for v in range(0x80, 0x100):
                            if _eval_u8_fn(h, v) != {_utf8_len(v)}:
                                exact = False
                        hi = any(gf[0] == "bin" and gf[2] is True and gf[1] in ("Ge", "Gt") and const_int(gf[3]["b"]) in (0x80, 0x7f)
                                 for gf in flow.guard_facts(prog, g, d.bb))
                        exact = exact and hi
                    plus_one = exact
                incs.append((d.bb, plus_one))
            if not incs:
                ok = False
                why.append("the index is not advanced inside the loop")
            if any(not p1 for _, p1 in incs):
                ok = False
                why.append("the index is advanced by something else than 1")
            for (b1, _) in incs:
                for (b2, _) in incs:
                    if b1 != b2 and loops:
                        hdr = [h for h, b in cfg.natural_loops(g) if bb in b][0]
                        if b2 in cfg.reach_from(g, b1, avoid={hdr}):
                            ok = False
                            why.append("one round of the loop can advance the index twice")
        ctx.ob("C02.S10.escaper-examines-every-byte", "HtmlEscape|classifier@%d" % n, ok,
               "the classifier's byte is read at an index; " + ("; ".join(sorted(set(why))) or "the index advances by exactly one per round")
               + " - a byte that is skipped is written out unescaped", g.where(bb))
    return n


def byte_sets(prog, fpath):
    """the byte classifier of a function and its closures: u8 switches [(bb, {byte values listed})] and the range
    pre-check window (lo, width).  Pre-check forms understood: `b.wrapping_sub(lo) <= w`, `(lo..=hi).contains(&b)`.
    A u8 comparison of another form is reported as not understood (lo == "?")."""
    f = prog.fn(fpath)
    sets = []
    lo = width = None
    other_cmp = False
    # the classifier may be a predicate of its own (`s.bytes().any(is_html_special_byte)`): functions of the crate that the
    # function calls or hands on as a value, two levels deep, belong to it when they take a byte
    family = [f] + prog.closures_of(fpath)
    for _ in range(2):
        for g in list(family):
            names = [c.resolved or c.path for c in g.calls()]
            for c in g.calls():
                for a in c.args:
                    cst = a.get("c")
                    if cst is not None and "fn" in cst:
                        names.append(norm_path(cst["fn"]))
            for nm in names:
                h = prog.fns.get(nm or "")
                if h is not None and h.crate == f.crate and h not in family and not h.is_pub and any(
                        h.locals[l].get("s") in ("u8", "&u8") for l in range(1, h.argc + 1)):
                    family.append(h)
                    family += [x for x in prog.closures_of(h.path) if x not in family]
    for g in family:
        for bb in sorted(g.reachable):
            t = g.term(bb)
            if t["k"] == "switch" and t["ty"] == "u8" and len(t["arms"]) >= 3:
                sets.append((bb, {int(v) for v, _ in t["arms"]}))
        for c in g.calls():
            if c.name == "core::num::<impl u8>::wrapping_sub":
                k = c.args[1].get("c", {}).get("int")
                if k is not None:
                    lo = int(k)
            if c.name.endswith("::contains") and "Range" in c.name:
                r = None
                for o in flow.origins(g, c.args[0]):
                    if o.kind == "const":
                        r = _promoted_range(g, o.const)
                if r is None:
                    other_cmp = True
                else:
                    lo, width = r[0], r[1] - r[0]
        for bb, i, s in g.all_stmts():
            rv = s.get("rv", {})
            if rv.get("k") == "bin" and rv["op"] in ("Le", "Lt", "Ge", "Gt") and rv.get("ty") == "u8":
                k = const_eval(g, rv["b"])
                if k is not None and rv["op"] in ("Le", "Lt") and lo is not None:
                    width = int(k) - (1 if rv["op"] == "Lt" else 0)
                elif k is not None and rv["op"] in ("Gt", "Ge") and lo is not None and g.term(bb)["k"] == "switch":
                    # the inverted form `if b.wrapping_sub(lo) > w { continue }`: the window is the *false* side, and the
                    # byte match must lie on it (not reachable from the true side without going round the loop)
                    heads = {h for h, _b in cfg.natural_loops(g)}
                    t_side = set()
                    for (_sb, tgt) in cfg.bool_edges(g, bb, True):
                        t_side |= cfg.reach_from(g, tgt, avoid=heads)
                    f_side = set()
                    for (_sb, tgt) in cfg.bool_edges(g, bb, False):
                        f_side |= cfg.reach_from(g, tgt, avoid=heads)
                    matches_ = [b_ for b_, _s in sets]
                    if matches_ and all(m_ in f_side and m_ not in t_side for m_ in matches_):
                        width = int(k) - (1 if rv["op"] == "Ge" else 0)
                    else:
                        other_cmp = True
                else:
                    other_cmp = True
    if other_cmp and (lo is None or width is None):
        lo = "?"
    return f, sets, lo, width


def check_safe_marking_closures(ctx, prog, tag, in_scope, safe, is_safe, raw):
    thru = lambda k: 0 if k.name.endswith(("::deref", "::deref_mut", "::as_str", "::as_ref", "::borrow", "Try>::branch",
                                           "::as_mut_str", "::into", "String::from", "::to_string", "::to_owned")) and k.name not in raw else None
    # ---- S3e (round 12, seed C02-12): the same, when the safe-marking call sits in a closure or private helper of a
    # filter and marks its *parameter* (`let finish = |text| if markup { from_safe_string(text) } ..`).  Whatever the
    # condition inside says about the parts, the text itself is chosen where the closure is called: raw text of a value
    # (`as_str()` / `to_string()` of it) handed over outside an is_safe() test of that very value is printed unescaped
    # whenever the condition holds for another reason (a safe `end` string).  Buffers the caller assembled are S3d's.
    n3e = 0
    for g in prog.fns.values():
        if not in_scope(g):
            continue
        if g.kind != "closure" and g.is_pub:
            continue
        params = set()
        for sc in g.calls_to(safe):
            for o in flow.origins(g, sc.args[0], through_calls=thru):
                if o.kind == "arg":
                    params.add(o.arg)
        if not params:
            continue
        for c in prog.callers().get(g.path, []):
            h = c.fn
            for k in sorted(params):
                pieces = []
                if g.kind == "closure":
                    # a closure is called with its arguments in a tuple: parameter k is element k - 2 of it
                    for o in (flow.origins(h, c.args[1]) if len(c.args) > 1 else []):
                        if o.kind == "agg" and o.rv.get("agg") == "tuple" and k - 2 < len(o.rv["ops"]):
                            pieces.append(o.rv["ops"][k - 2])
                elif k - 1 < len(c.args):
                    pieces.append(c.args[k - 1])
                pieces = [x for x in pieces if "c" not in x]
                if not pieces:
                    continue
                n3e += 1
                piece = pieces[0]
                bad = []
                thru2 = lambda q: 0 if (thru(q) == 0 or q.name.endswith(("Option::unwrap", "Option::expect", "Result::unwrap", "Option::unwrap_or_default",
                                                                           "Option::ok_or_else", "Option::ok_or", "Option::unwrap_or"))) else None
                for o in flow.origins(h, piece, through_calls=thru2):
                    if o.kind == "call" and o.call.name in raw:
                        if all(x.kind == "call" and x.call.name in ESCAPERS for x in flow.origins(h, o.call.args[0], through_calls=thru2)):
                            continue
                        recv = {x.key() for x in flow.origins(h, o.call.args[0])}
                        tested = any(gg[0] == "call" and gg[1] in is_safe and gg[2] is True and recv & {
                            x.key() for x in flow.origins(h, gg[3].args[0])} for gg in flow.guard_facts(prog, h, c.bb))
                        if not tested:
                            bad.append("raw text of a value not tested with is_safe() (%s)" % o.call.name.split("::")[-1])
                ctx.ob("C02.S3.safe-marking-closure-gets-no-untested-raw-text", tag + "%s|%s#%d" % (h.path, g.path.split("::")[-1], n3e), not bad,
                       "%s hands %s to %s, which can mark its argument safe: the text reaches the output unescaped whenever the "
                       "closure's condition holds for another reason" % (h.path.split("::")[-1], "; ".join(sorted(set(bad))), g.path.split("::")[-1]),
                       h.where(c.bb))
    ctx.count("C02.S3e texts handed to safe-marking closures / helpers", n3e)
    return n3e


def run(ctx):
    ctx.explain("C02: who-may-write rule for Output (single escape choke point), a guard rule classifying every raw "
                "write in the choke point under an enumerated safe-content condition, a reviewed inventory plus "
                "control-dependence rule for every safe-string constructor (with a raw-accessor lint inside "
                "safety-aware regions), the capture-marking rule, and agreement of the byte sets of "
                "needs_html_escaping / HtmlEscape / the range pre-check.  Decides the escaping skeleton for all "
                "templates and values; the text transformation performed by each individual filter is not "
                "re-verified, and custom formatters are out of scope.")
    ctx.assume("features speedups/v_htmlescape are outside the analysed configurations")
    ctx.assume("a safe (already escaped) string contains no raw metacharacters by construction of its producers")
    # tojson returns a safe string: its HTML-safety filter (C16.T1) is a clause of this property as well
    if not ctx.is_borrowed:
        from . import c16 as _c16
        _c16.run(ctx.borrowed("C16", "C02.S7:"))
    prog = ctx.prog
    # ---- S1
    # the choke point functions are read through private helpers parts of them may have been moved into
    # (`write_unsigned(out, n)`): such a helper's writes are classified by S2 as writes of the function that calls it
    from .. import inline
    S2_KEEP = ("write_str", "write_fmt", "write_char", "needs_html_escaping", "is_ascii_integer_str", "json_escape_write",
               "write_with_html_escaping", "write_escaped", "is_safe", "as_str", "kind", "to_string", "format")
    choke = {fp: inline.view(prog, prog.fn(fp), keep=S2_KEEP)
             for fp in ("minijinja::utils::write_escaped", "minijinja::utils::write_with_html_escaping")}
    n1 = 0
    for f in prog.fns.values():
        for c in f.calls():
            if c.name in OUT_WRITES:
                n1 += 1
                ok1 = f.path in WRITERS
                if not ok1 and not f.is_pub:
                    sites = prog.callers().get(f.path, [])
                    ok1 = bool(sites) and all(k.fn.path in choke and f.path in inline.inlined_helpers(choke[k.fn.path]) for k in sites)
                ctx.ob("C02.S1.output-writers-are-reviewed", "%s|%s" % (f.path, c.name.split("::")[-1]),
                       ok1, "a function outside the escape choke point writes to the output sink",
                       f.where(c.bb))
    ctx.floor("C02.S1 writes to Output", n1, 10)
    # the interpreter is read through private helpers a handler may have been moved into (`emit_value(state, out, ..)`)
    ev = inline.view(prog, prog.fn("minijinja::vm::Executor::eval_impl"), keep=S2_KEEP + (
        "begin_capture", "end_capture", "perform_include", "perform_super", "call_block", "eval_macro", "load_blocks", "push_loop"))
    disp = arms.enum_switches(prog, ev, INSTR)
    ctx.need(disp, "C02.S1: dispatch switch not found")
    regs = arms.arm_regions(prog, ev, disp[0][0], INSTR)
    for c in ev.calls():
        if c.name in OUT_WRITES:
            in_raw = c.bb in regs.get("EmitRaw", set())
            os_ = flow.origins(ev, c.args[1])
            payload = any("as EmitRaw" in o.proj for o in os_) and len(os_) == 1
            ctx.ob("C02.S1.direct-write-is-template-text", "eval_impl|%s" % c.name.split("::")[-1], in_raw and payload,
                   "a direct write in the interpreter must be the EmitRaw payload; origins %r" % os_, ev.where(c.bb))
    emit = regs.get("Emit", set())
    sinks = sorted({c.name for c in arms.calls_in(ev, emit) if c.args and any(
        (ev.locals[op_place(a)["l"]].get("adt") == "minijinja::output::Output") for a in c.args if op_place(a))})
    ctx.ob("C02.S1.emit-goes-through-the-choke-point", "eval_impl|Emit",
           set(sinks) <= {"minijinja::utils::write_escaped", "minijinja::environment::Environment::format"} and bool(sinks),
           "the Emit handler passes the output to %s" % sinks, ev.loc)

    # ---- S2
    n2 = 0
    for fpath in ("minijinja::utils::write_escaped", "minijinja::utils::write_with_html_escaping"):
        f = choke[fpath]
        esc_blocks = {bb for bb, i, s in f.all_stmts() if s.get("rv", {}).get("k") == "agg"
                      and s["rv"].get("adt") == "minijinja::utils::HtmlEscape"}
        k = {}
        for c in f.calls():
            if c.name not in OUT_WRITES:
                continue
            n2 += 1
            idx = k[c.name] = k.get(c.name, 0) + 1
            gf = flow.guard_facts(prog, f, c.bb)
            reason = None
            # escaped rendering: an HtmlEscape value is built on the way to this write and nowhere else reaches it
            doms = cfg.dominators(f)[c.bb]
            if any(b in doms for b in esc_blocks) and c.name.endswith("write_fmt"):
                gset = lambda b: {(g[0], str(g[1]), str(g[2])) for g in flow.guard_facts(prog, f, b)}
                for b in esc_blocks & doms:
                    if gset(b) <= gset(c.bb):
                        reason = "rendered through HtmlEscape"
            for g in gf:
                if reason:
                    break
                if g[0] == "variant" and g[2] == REPR and g[1] == ("0",) and g[3] and g[3] <= {"U64", "I64", "Bool", "I128", "U128"}:
                    reason = "integer/bool representation %s" % sorted(g[3])
                if g[0] == "variant" and g[2] == "minijinja::value::StringType" and g[3] == {"Safe"}:
                    reason = "string marked safe"
                if g[0] == "variant" and g[2] == AE and g[3] == {"None"}:
                    reason = "auto-escape disabled"
                if g[0] == "call" and g[1] == "minijinja::utils::is_ascii_integer_str" and g[2] is True:
                    reason = "ASCII integer string"
                if g[0] == "call" and g[1] == "minijinja::utils::needs_html_escaping" and g[2] is False:
                    # same string tested and written
                    a = {o.key() for o in flow.origins(f, g[3].args[0])}
                    b = {o.key() for o in flow.origins(f, c.args[1])}
                    if a & b:
                        reason = "needs_html_escaping is false for the written string"
                if g[0] == "matches" and g[1] == KIND and g[3] is True and g[2] <= {"Undefined", "None", "Bool", "Number"}:
                    reason = "kind in %s" % sorted(g[2])
            ctx.ob("C02.S2.raw-write-has-safe-content-condition", "%s|%s#%d" % (fpath.split("::")[-1], c.name.split("::")[-1], idx),
                   reason is not None,
                   reason or "write to the output that is neither an HtmlEscape rendering nor under one of the "
                             "enumerated safe-content conditions; guards: %s" % [(g[0], str(g[1])[:40], str(g[2])[:40]) for g in gf],
                   f.where(c.bb))
    ctx.floor("C02.S2 write sites in the choke point", n2, 8)

    # ---- S9: who may carry the safe flag over.  `preserve_safety(output)` marks `output` safe whenever the *input* was
    # safe; that is only sound for transforms that cannot produce markup from escaped text.  A decoding transform
    # (striptags turns `&lt;` back into `<`) must not be among its callers.
    PRES = "minijinja::value::argtypes::StringInput::preserve_safety"
    n9 = 0
    for f_, bb_, how_ in query.fn_refs(prog).get(PRES, []):
        n9 += 1
        root_ = f_.root or f_.path
        ctx.ob("C02.S9.safety-is-carried-over-only-by-reviewed-transforms", root_, root_ in SAFETY_PRESERVERS,
               SAFETY_PRESERVERS.get(root_) or
               "%s re-marks its result as safe when its input was safe, but it is not a reviewed markup-neutral transform: if it "
               "can produce `<`, `>`, quotes from escaped text (entity decoding, unescaping) the raw data reaches the output"
               % root_, f_.where(bb_))
    ctx.floor("C02.S9 callers of preserve_safety", n9, 4)
    # S9b: such a transform carries the flag over on *every* success path.  An early return that hands the text back as
    # a plain string (a "nothing to do" fast path) drops the flag of an already escaped capture, which is then escaped a
    # second time when it is printed (seed C02-8).
    for root_ in sorted({(f_.root or f_.path) for f_, _, _ in query.fn_refs(prog).get(PRES, [])}):
        g_ = prog.fns.get(root_)
        if g_ is None or not any(c.name == PRES for c in g_.calls()):
            continue
        plain = []
        for r in flow.origins(g_, 0):
            if r.kind == "call" and r.call.name == PRES:
                continue
            if r.kind == "agg" and r.rv.get("variant") == "Err":
                continue
            if r.kind == "agg" and r.rv.get("variant") == "Ok" and r.rv["ops"]:
                inner = flow.origins(g_, r.rv["ops"][0])
                if inner and all(o.kind == "call" and o.call.name == PRES for o in inner):
                    continue
                plain.append(", ".join(sorted({repr(o) for o in inner}))[:160])
                continue
            if r.kind == "call" and r.call.dest == {"l": 0}:
                # a Result handed on as it is (`return Err(..)` built by a helper / `?`): only its Err side can be meant
                # when the callee returns no Value
                continue
            plain.append(repr(r)[:160])
        ctx.ob("C02.S9.safety-is-carried-over-on-every-path", root_, not plain,
               "%s marks its result safe when the input was (preserve_safety) on some paths but returns %s on another: a "
               "safe (already escaped) input comes back as a plain string there and is escaped a second time when printed"
               % (root_.split("::")[-1], plain), g_.loc)
    # ---- S4c (after seed C02-9): the other direction of S4.  Text captured while escaping is on is already escaped: where
    # it becomes a value it is marked safe, or it is escaped a second time when it is printed.  If the function that ends
    # a capture hands out the bare text (`end_capture() -> Option<String>`), every site that uses that text must have a
    # safe-marking alternative for it (`from_safe_string` fed from that very result, under the auto-escape test S4 checks);
    # a site that only knows `Value::from` (the result of a recursive `loop(..)` in expression position) is reported.
    enders = []
    for f in prog.fns.values():
        if f.crate != "minijinja" or f.kind == "closure":
            continue
        pops = [c for c in f.calls() if c.name == "alloc::vec::Vec::pop" and c.args and any(
            "capture_stack" in o.proj for o in flow.origins(f, c.args[0]))]
        if pops and "minijinja::value::Value" not in f.locals[0].get("s", ""):
            enders.append(f)
    for e in enders:
        seen_hosts = set()
        for site in prog.callers().get(e.path, []):
            if site.fn.path in seen_hosts:
                continue
            seen_hosts.add(site.fn.path)
            g = inline.view(prog, site.fn, keep=S2_KEEP + ("end_capture", "begin_capture", "from_safe_string", e.path.split("::")[-1]))
            k_site = 0
            for c in sorted(g.calls(), key=lambda q: q.bb):
                if c.name != e.path or c.dest is None:
                    continue
                k_site += 1
                fed = lambda k: any(o.kind == "call" and o.call.bb == c.bb for a in k.args for o in flow.origins(
                    g, a, through_calls=lambda q: 0 if q.name.split("::")[-1] in ("map", "unwrap_or_default", "unwrap", "take", "unwrap_or") else None))
                users = [k for k in g.calls() if k.bb != c.bb and fed(k)]
                if not users:
                    continue        # the text is thrown away (a discarded capture)
                marks = [k for k in users if k.name == SAFE]
                ctx.ob("C02.S4.captured-text-has-a-safe-marking-path", "%s|end_capture#%d" % (site.fn.path, k_site),
                       bool(marks), "%s turns the text of a finished capture into a value (%s) without a safe-marking alternative: "
                       "output captured under auto-escaping is already escaped and would be escaped again when printed"
                       % (site.fn.path.split("::")[-1], sorted({k.name.split("::")[-1] for k in users})), g.where(c.bb))
    # ---- S3 / S4
    refs = query.fn_refs(prog).get(SAFE, [])
    ctx.floor("C02.S3 from_safe_string sites", len(refs), 14)
    per = {}
    for f, bb, how in refs:
        idx = per[f.path] = per.get(f.path, 0) + 1
        inst = "%s#%d" % (f.path, idx)
        if f.path in SAFE_MARKERS:
            ctx.ob("C02.S3.safe-marking-site-reviewed", inst, True, SAFE_MARKERS[f.path], f.where(bb))
            continue
        if f.path == "minijinja::value::argtypes::StringInput::preserve_safety":
            g = safety_guard(prog, f, bb)
            ctx.ob("C02.S3.safe-result-is-control-dependent-on-safety", inst, g is not None and g[0] == "safe-field",
                   "preserve_safety must test self.safe", f.where(bb))
            continue
        if how != "call":
            ctx.ob("C02.S3.safe-marking-site-reviewed", inst, False, "from_safe_string passed as a function value",
                   f.where(bb))
            continue
        g = safety_guard(prog, f, bb)
        if g is None and disjunctive_safety_guard(prog, f, bb):
            g = ("disjunction", None)
        is_capture = f.path in ("minijinja::output::Output::end_capture",
                                "<minijinja::vm::macro_object::Macro as minijinja::value::object::Object>::call")
        if is_capture:
            ctx.ob("C02.S4.capture-safe-only-when-escaping", inst, g is not None and g[0] == "auto-escape-on",
                   "captured text is marked safe without an `auto_escape != None` test (guard: %s)" % (g[0] if g else None),
                   f.where(bb))
            # S4b: "safe" means safe for HTML.  Text captured while another escaping format was active (JSON: `"<x>"`,
            # a custom format) is not HTML-escaped, yet a capture marked safe is printed raw in an HTML region later
            # (`{% autoescape 'json' %}{% set c %}{{ x }}{% endset %}{% endautoescape %}{{ c }}`).
            html_only = False
            for gf_ in flow.guard_facts(prog, f, bb):
                if gf_[0] == "matches" and gf_[1] == AE and gf_[3] is True and set(gf_[2]) <= {"Html"}:
                    html_only = True
                if gf_[0] == "variant" and gf_[2] == AE and set(gf_[3]) <= {"Html"}:
                    html_only = True
            ctx.ob("C02.S4.capture-is-marked-safe-only-under-html-escaping", inst, html_only,
                   "captured output is marked safe whenever *some* auto-escaping was active: text captured under JSON (or a "
                   "custom) escaping contains raw `<`, `>`, quotes and is later printed unescaped where HTML escaping is in "
                   "effect", f.where(bb))
            continue
        ctx.ob("C02.S3.safe-result-is-control-dependent-on-safety", inst, g is not None,
               "a safe string is produced without a dominating is_safe()/StringInput.safe/auto-escape test and the "
               "site is not a reviewed safe-marking function", f.where(bb))
        if g is None:
            continue
        # raw-accessor lint inside the safety-aware region (function-local): blocks only reachable through the
        # true edge of a safety test, from which the safe result is reachable
        region = {b for b in safe_region(prog, f) if cfg.can_reach(f, b, bb)}
        # ... and (after seed C02-7) the blocks that compute the text that is marked safe, wherever they sit: a buffer
        # assembled on the *other* side of the safety test and marked safe after the branches meet
        sc = next((k for k in f.calls() if k.bb == bb and k.name == SAFE), None)
        if sc is not None and sc.args:
            slice_calls, _ = flow.backward_calls(prog, f, sc.args[0])
            for k in slice_calls:
                if k.fn is f:
                    region.add(k.bb)
                    region |= {u.bb for u, _ in _uses_of_call_result(f, k) if u is not None}
        derive = lambda k: 0 if (k.name in ("minijinja::value::Value::get_item_by_index", "minijinja::value::Value::get_item",
                                            "core::option::Option::unwrap", "core::result::Result::unwrap")
                                 or k.name.endswith("::clone") or k.name.endswith("Try>::branch")
                                 or k.name.endswith("::deref") or k.name.endswith("::as_ref")) else None
        lk = lambda o: (o.kind, o.bb, o.arg, o.idx)
        for c in f.calls():
            if c.name not in RAW_ACCESSORS:
                continue
            ros = flow.origins(f, c.args[0], through_calls=derive)
            # text that was just produced by an escaping function is escaped text
            if ros and all(o.kind == "call" and o.call.name in ESCAPERS for o in ros):
                continue
            recv = {lk(o) for o in ros}
            uses = _uses_of_call_result(f, c)
            if c.bb in region and not uses:
                uses = [(None, -1)]
            for uc, ai in uses:
                ubb = uc.bb if uc is not None else c.bb
                if ubb not in region:
                    continue
                if uc is not None and ai in PATTERN_POS.get(uc.name, ()):
                    continue
                if uc is not None and uc.name.endswith("for minijinja::value::Value>::from"):
                    # wrapped into a Value that is handed to an escaping function
                    nxt = _uses_of_call_result(f, uc)
                    if nxt and all(k is not None and k.name in ESCAPERS for k, _ in nxt):
                        continue
                tested = False
                # the test may sit ahead of the text's computation or ahead of the marking (`let out = ..; if
                # value.is_safe() { safe(out) }`)
                for gg in list(flow.guard_facts(prog, f, ubb)) + list(flow.guard_facts(prog, f, bb)):
                    if gg[0] == "call" and gg[1] in IS_SAFE and gg[2] is True:
                        if recv & {lk(o) for o in flow.origins(f, gg[3].args[0], through_calls=derive)}:
                            tested = True
                ctx.ob("C02.S3.no-untested-raw-text-in-safe-result",
                       "%s|%s->%s" % (f.path, c.name.split("::")[-1], uc.name.split("::")[-1] if uc else "?"), tested,
                       "inside the branch that returns a safe string, the raw text of a value whose safety was not "
                       "tested on this path is used as inserted content (consumer %s arg %d): unescaped data becomes "
                       "part of a safe string" % (uc.name if uc else "?", ai), f.where(ubb))
    # ---- S3c: escape-or-justify.  Wherever a function or closure of the filter modules escapes a value derived from
    # one of its parameters on some path, every other path to a (non-error) return must be justified by a
    # safe-content condition on that same value: is_safe() / `.safe`, or a kind that cannot contain markup.
    NONTEXT = {"Bool", "Number", "None", "Undefined"}
    n3c = 0
    for f in prog.fns.values():
        if not (f.loc.f.endswith("minijinja/src/filters.rs") or f.loc.f.endswith("minijinja-contrib/src/filters/mod.rs")
                or f.loc.f.endswith("minijinja/src/value/argtypes.rs")):
            continue
        escs = [c for c in f.calls() if c.name in ESCAPERS and c.name != "minijinja::value::argtypes::StringInput::format"]
        if not escs or f.path in ("minijinja::filters::escape",):
            continue
        for e in escs:
            # the escaped value: which parameter (or closure argument / field of self) does it come from?
            varg = e.args[1] if e.name in ("minijinja::filters::escape", "minijinja::vm::state::State::format") and len(e.args) > 1 else e.args[0]
            roots = {(o.kind, o.arg) for o in flow.origins(f, varg, through_calls=lambda k: 0 if (
                k.name.endswith("::from") or k.name.endswith("::clone") or k.name.endswith("::as_str") or k.name.endswith("::deref")) else None)
                     if o.kind == "arg"}
            if not roots:
                continue
            n3c += 1
            removed = set()
            for sb in sorted(f.reachable):
                if f.term(sb)["k"] != "switch":
                    continue
                cd = flow.cond_of(f, sb)

                def on_value(op):
                    return bool({(o.kind, o.arg) for o in flow.origins(f, op, through_calls=lambda k: 0 if (
                        k.name.endswith("::clone") or k.name.endswith("::deref") or k.name.endswith("Value::kind")) else None)
                                 if o.kind == "arg"} & roots)
                if cd.kind == "call" and cd.call.name in IS_SAFE and on_value(cd.call.args[0]):
                    removed |= flow.true_side(f, sb, cd)
                elif cd.kind == "local" and cd.place is not None and "safe" in flow._proj_names(cd.place):
                    removed |= flow.true_side(f, sb, cd)
                else:
                    mv = flow.matches_variants(prog, f, sb, KIND)
                    if mv is not None and mv <= NONTEXT:
                        removed |= cfg.bool_edges(f, sb, not cd.neg)
            errs = {bb for bb, i, st in f.all_stmts() if st["k"] == "assign" and st["place"] == {"l": 0}
                    and st["rv"]["k"] == "agg" and st["rv"].get("variant") == "Err"}
            errs |= {c.bb for c in f.calls() if c.dest == {"l": 0} and c.name.endswith("from_residual")}
            through = {x.bb for x in escs} | errs
            ok = cfg.paths_must_pass(f, 0, through, f.returns(), removed_edges=removed)
            ctx.ob("C02.S3.unescaped-path-is-justified", "%s|%s" % (f.path, e.name.split("::")[-1]), ok,
                   "this code escapes a value on one path, but another path returns it unescaped without an is_safe() "
                   "test or a kind check restricted to %s on that value: text of lists, maps or other objects reaches "
                   "a safe result raw" % sorted(NONTEXT), f.where(e.bb))
    ctx.floor("C02.S3c escape-or-justify sites", n3c, 2)

    # helper functions that build safe text
    js = "minijinja::filters::builtins::join::join_safe"
    if prog.has_fn(js):
        f = prog.fn(js)
        for c in f.calls():
            if c.name in RAW_ACCESSORS:
                recv = {o.key() for o in flow.origins(f, c.args[0])}
                tested = any(gg[0] == "call" and gg[1] in IS_SAFE and gg[2] is True and recv & {
                    o.key() for o in flow.origins(f, gg[3].args[0])} for gg in flow.guard_facts(prog, f, c.bb))
                ctx.ob("C02.S3.no-untested-raw-text-in-safe-result", "%s|%s" % (js, c.name.split("::")[-1]), tested,
                       "join_safe appends the raw text of an item without testing item.is_safe()", f.where(c.bb))
        fm = [c for c in f.calls() if c.name in ESCAPERS]
        ctx.ob("C02.S3.join_safe-escapes-unsafe-items", js, bool(fm), "", f.loc)

    # ---- S3d: a buffer that is returned as safe is assembled from safe pieces only.  Where the argument of
    # from_safe_string is a String the function itself appends to, every appended piece must be a constant, the
    # result of an escaper / safe builder, or raw text taken under an is_safe() test of the value it comes from.
    SAFE_BUILDERS = ("minijinja::filters::builtins::join::join_safe",)
    APPENDERS = ("alloc::string::String::push_str", "alloc::string::String::push", "alloc::string::String::insert_str",
                 "alloc::string::String::insert", "core::fmt::Write::write_str", "<alloc::string::String as core::fmt::Write>::write_str",
                 "<alloc::string::String as core::ops::arith::AddAssign<&str>>::add_assign",
                 "<alloc::string::String as core::iter::traits::collect::Extend<&'a str>>::extend")
    thru = lambda k: 0 if k.name.endswith(("::deref", "::deref_mut", "::as_str", "::as_ref", "::borrow", "Try>::branch",
                                           "::as_mut_str", "::into", "String::from", "::to_string", "::to_owned")) and k.name not in RAW_ACCESSORS else None
    n3d = 0
    for f in prog.fns.values():
        if f.crate not in ("minijinja", "minijinja_contrib") or f.path in SAFE_MARKERS:
            continue
        if not (f.loc.f.endswith("filters.rs") or f.loc.f.endswith("filters/mod.rs") or f.loc.f.endswith("functions.rs")
                or f.loc.f.endswith("globals.rs")):
            continue
        for sc in f.calls_to(SAFE):
            bufs = set()
            for o in flow.origins(f, sc.args[0]):
                if o.kind == "call" and o.call.dest is not None and "p" not in o.call.dest:
                    bufs.add(o.call.dest["l"])
            # follow moves of the buffer (`let mut output = ok!(..)`): locals assigned from it by plain use
            grew = True
            while grew:
                grew = False
                for bb, i, st in f.all_stmts():
                    if st["k"] == "assign" and "p" not in st["place"] and st["rv"]["k"] == "use":
                        pl = op_place(st["rv"]["op"])
                        if pl is not None and pl.get("l") in bufs and st["place"]["l"] not in bufs:
                            bufs.add(st["place"]["l"])
                            grew = True
            for c in f.calls():
                if c.name not in APPENDERS or len(c.args) < 2:
                    continue
                p0 = op_place(c.args[0])
                if p0 is None or "p" in p0:
                    continue
                tgt = {d.rv["place"]["l"] for d in flow.whole_defs(f, p0["l"]) if d.kind == "stmt" and d.rv["k"] == "ref" and d.rv.get("mut")}
                if not (tgt & bufs):
                    continue
                n3d += 1
                piece = c.args[-1]
                bad = []
                under_safe = any(gg[0] == "call" and gg[1] in IS_SAFE and gg[2] is True for gg in flow.guard_facts(prog, f, c.bb))
                thru2 = lambda k: 0 if (thru(k) == 0 or k.name.endswith(("Option::unwrap", "Option::expect", "Result::unwrap"))) else None
                for o in flow.origins(f, piece, through_calls=thru2):
                    if o.kind == "const":
                        continue
                    if o.kind == "call" and (o.call.name in ESCAPERS or o.call.name in SAFE_BUILDERS):
                        continue
                    if o.kind == "call" and o.call.name in RAW_ACCESSORS:
                        # text of an escaper's result is escaped text
                        if all(x.kind == "call" and x.call.name in ESCAPERS for x in flow.origins(f, o.call.args[0], through_calls=thru2)):
                            continue
                        recv = {x.key() for x in flow.origins(f, o.call.args[0])}
                        tested = any(gg[0] == "call" and gg[1] in IS_SAFE and gg[2] is True and recv & {
                            x.key() for x in flow.origins(f, gg[3].args[0])} for gg in flow.guard_facts(prog, f, c.bb))
                        if tested:
                            continue
                        bad.append("raw text of a value not tested with is_safe() (%s)" % o.call.name.split("::")[-1])
                    elif under_safe:
                        continue        # text derived (trimmed, truncated ..) under an is_safe() test; direct raw
                        # accessors of a value other than the tested one are caught above
                    elif o.kind == "arg":
                        bad.append("text of parameter %d" % o.arg)
                    else:
                        bad.append("text computed by %s outside any is_safe() test" % (o.call.name.split("::")[-1] if o.kind == "call" else o.kind))
                ctx.ob("C02.S3.safe-buffer-gets-only-safe-pieces", "%s|%s" % (f.path, c.name.split("::")[-1]), not bad,
                       "a String that is returned through from_safe_string is extended with %s: that piece reaches the "
                       "output unescaped" % "; ".join(sorted(set(bad))), f.where(c.bb))
    ctx.count("C02.S3d pieces appended to safe buffers", n3d)

    def _s3e_scope(g):
        return g.crate in ("minijinja", "minijinja_contrib") and g.path not in SAFE_MARKERS and (
            g.loc.f.endswith("filters.rs") or g.loc.f.endswith("filters/mod.rs") or g.loc.f.endswith("functions.rs")
            or g.loc.f.endswith("globals.rs"))
    n3e = check_safe_marking_closures(ctx, prog, "", _s3e_scope, SAFE, IS_SAFE, RAW_ACCESSORS)
    ctx.count("C02.S3e texts handed to safe-marking closures / helpers", n3e)
    sub3e = ctx.fresh()
    check_safe_marking_closures(sub3e, ctx.controls, "control:", lambda g: g.path.startswith("mjsa_controls::c02::"),
                                "mjsa_controls::c02::Value::from_safe_string", ("mjsa_controls::c02::Value::is_safe",),
                                ("mjsa_controls::c02::Value::as_str",))
    bad3e = [o for o in sub3e.obligations if not o[2]]
    ctx.control("C02.S3e", len(bad3e) == 1 and "shorten_marks_raw_text" in bad3e[0][1] and len(sub3e.obligations) >= 2)

    # ---- S6: which templates are auto-escaped at all.  The default callback compares the last extension of the template
    # name (after an ignored `.j2`/`.jinja`/`.jinja2`) for equality with string constants; the documented HTML
    # extensions must all select AutoEscape::Html, by equality on what `rsplit('.')` yields.
    dc = "minijinja::defaults::default_auto_escape_callback"
    if prog.has_fn(dc):
        f = prog.fn(dc)
        table = {}
        for c in f.calls():
            if not (c.name.endswith("::eq") and "PartialEq" in c.name) or len(c.args) < 2:
                continue
            lit = flow.const_str(c.args[1], f) or flow.const_str(c.args[0], f)
            if lit is None:
                continue
            # variant built on the branch taken when the comparison is true
            for sb in f.reachable:
                if f.term(sb)["k"] != "switch":
                    continue
                cd = flow.cond_of(f, sb)
                if cd.kind == "call" and cd.call.bb == c.bb:
                    for (_, tgt) in cfg.bool_edges(f, sb, not cd.neg):
                        vs = {st["rv"].get("variant") for b in cfg.reach_from(f, tgt) for st in f.stmts(b)
                              if st.get("rv", {}).get("k") == "agg" and st["rv"].get("adt") == AE}
                        vs2 = {st["rv"].get("variant") for st in f.stmts(tgt) if st.get("rv", {}).get("k") == "agg" and st["rv"].get("adt") == AE}
                        table[lit] = sorted(vs2 or vs)
        want = {"html": "Html", "htm": "Html", "xml": "Html"}
        for ext, v in want.items():
            ctx.ob("C02.S6.html-extension-selects-html-escaping", ext, table.get(ext) == [v],
                   "the default auto-escape callback maps the extension `%s` to %s (documented: Html): templates with "
                   "that extension would be rendered without escaping" % (ext, table.get(ext)), f.loc)
        rs = [c for c in f.calls() if c.name.endswith("::rsplit") or c.name.endswith("::rsplit_once") or c.name.endswith("::rfind")]
        ctx.ob("C02.S6.extension-is-the-last-dot-segment", dc, bool(rs),
               "the callback no longer takes the text after the last `.` of the template name", f.loc)
        ign = None
        for o_ in query.named_consts(f):
            if "IGNORED_EXTENSIONS" in o_:
                ign = o_
        ctx.sample({"auto-escape extension table": table, "ignored": ign})

    # ---- S5
    nf, nsets, nlo, nw = byte_sets(prog, "minijinja::utils::needs_html_escaping")
    hf, hsets, hlo, hw = byte_sets(prog, "<minijinja::utils::HtmlEscape<'_> as core::fmt::Display>::fmt")
    ctx.need(nsets and hsets, "C02.S5: byte switches not found")
    need = set().union(*[s for _, s in nsets])
    esc = set().union(*[s for _, s in hsets])
    req = {ord(c) for c in "<>&\"'"}
    n10_ = check_every_byte_examined(ctx, prog, "<minijinja::utils::HtmlEscape<'_> as core::fmt::Display>::fmt",
                                     [x for x in hsets if x[0] < hf.nblocks and hf.term(x[0])["k"] == "switch" and hf.term(x[0]).get("ty") == "u8"])
    ctx.floor("C02.S10 classifier switches of the escaper", n10_, 1)
    ctx.ob("C02.S5.escaper-covers-required-bytes", "HtmlEscape", req <= esc,
           "HtmlEscape does not escape %s" % [chr(b) for b in sorted(req - esc)], hf.loc)
    ctx.ob("C02.S5.fast-path-test-covers-escaped-bytes", "needs_html_escaping", esc <= need,
           "needs_html_escaping returns false for strings containing %s, which HtmlEscape would escape: they are "
           "written raw" % [chr(b) for b in sorted(esc - need)], nf.loc)
    for nm, f, s, lo, w in (("needs_html_escaping", nf, need, nlo, nw), ("HtmlEscape", hf, esc, hlo, hw)):
        ctx.need(lo != "?", "C02.S5: %s compares bytes in a form the rule does not understand" % nm)
        if lo is None:
            ctx.count("C02.S5 byte classifiers without a range pre-check")
            continue
        ok = w is not None and all(lo <= b <= lo + w for b in s)
        ctx.ob("C02.S5.range-precheck-contains-all-bytes", nm, ok,
               "the cheap range pre-check [%s, %s] does not contain all of the bytes the match lists (%s): %s never "
               "reach the match and such strings are written unescaped" % (
                   lo, lo + (w or 0), sorted(s), [chr(b) for b in sorted(s) if not (lo <= b <= lo + (w or 0))]), f.loc)
    # replacements
    for c in hf.calls():
        if c.name.endswith("Formatter<'_>::write_str") or c.name.endswith("fmt::Write>::write_str") or c.name.endswith("::write_str"):
            s = flow.const_str(c.args[1], hf)
            if s is None:
                for o in flow.origins(hf, c.args[1]):
                    if o.kind == "const":
                        s = flow.const_str({"c": o.const}, hf)
            if s is not None:
                ctx.ob("C02.S5.replacement-has-no-raw-metacharacter", "HtmlEscape|%s" % s,
                       not any(ch in s for ch in "<>\"'"), "", hf.where(c.bb))
    ia = prog.fn("minijinja::utils::is_ascii_integer_str")
    consts = set()
    for g in [ia] + prog.closures_of(ia.path):
        for bb, o in query.all_operands(g):
            c = o.get("c")
            if c and c.get("ty") == "u8" and "int" in c:
                consts.add(int(c["int"]))
        for bb in g.reachable:
            t = g.term(bb)
            if t["k"] == "switch" and t["ty"] == "u8":
                consts |= {int(v) for v, _ in t["arms"]}
    digit_only = all(c.name.endswith("is_ascii_digit") or not c.name.startswith("core::num::<impl u8>::")
                     for g in [ia] + prog.closures_of(ia.path) for c in g.calls())
    ctx.ob("C02.S5.integer-fast-path-accepts-only-digits-and-minus", ia.path, consts <= {45} and digit_only,
           "is_ascii_integer_str compares against bytes %s" % sorted(consts), ia.loc)
    ctx.sample({"needs": sorted(chr(b) for b in need), "escaped": sorted(chr(b) for b in esc)})

    # positive control for the who-may-write rule
    cprog = ctx.controls
    hit = False
    for f in cprog.fns.values():
        for c in f.calls():
            if c.name == "mjsa_controls::c02::Output::write_str" and f.path.endswith("stray_writer"):
                hit = True
    ctx.control("C02.S1", hit)


def _uses_of_call_result(f, call):
    """[(consumer Call, arg index)] of the value produced by `call`, following moves/refs/derefs and Option::unwrap"""
    out = []
    if call.dest is None or "p" in call.dest:
        return out
    seen = set()
    work = [call.dest["l"]]
    while work:
        l = work.pop()
        if l in seen:
            continue
        seen.add(l)
        for kind, bb, obj in errflow.uses(f, l):
            if kind == "stmt":
                i, s = obj
                if "p" not in s["place"] and s["rv"]["k"] in ("use", "ref", "cast"):
                    work.append(s["place"]["l"])
                elif s["rv"]["k"] == "discr":
                    pass
                elif s["rv"]["k"] == "use":
                    pass
                else:
                    out.append((None, -1))
            elif kind == "call":
                c = [k for k in f.calls() if k.bb == bb][0]
                if c.name.endswith("Try>::branch") or c.name in ("core::option::Option::ok_or_else", "core::option::Option::ok_or",
                                                                  "core::option::Option::unwrap", "core::option::Option::unwrap_or_default",
                              "core::option::Option::unwrap_or", "<alloc::string::String as core::ops::deref::Deref>::deref",
                              "<alloc::borrow::Cow<'_, B> as core::ops::deref::Deref>::deref", "core::option::Option::expect"):
                    if c.dest is not None and "p" not in c.dest:
                        work.append(c.dest["l"])
                    continue
                for ai, a in enumerate(c.args):
                    p = op_place(a)
                    if p is not None and p["l"] == l:
                        out.append((c, ai))
    return out
